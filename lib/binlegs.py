"""Real-binary legs binding the in-process checks to the shipped artefact:

  c01  end-to-end grid: compress (file / stdin input, every chunker, every compression, empty
       source) -> clone (local / HTTP) -> bytes and exit status
  c02  seeds through the real CLI incl. `--seed -` (stdin), several seeds, any order
  c03  `--seed-output` on a regular file and on a real loop block device for hand-picked
       overlap / cycle / duplicate layouts
  c06  what is fetched, observed at a logging HTTP server, for output kinds
       {new file, existing file, loop block device} (F3's scenario)

Each function returns a raw result dict for /verif/check (see check: merge_results).
"""
import hashlib
import itertools
import os
import shutil
import subprocess
import tempfile
import time
from concurrent.futures import ThreadPoolExecutor

from httpserv import RangeServer

LEG = "binlegs"


def env():
    e = dict(os.environ)
    e["RUST_BACKTRACE"] = "0"
    e["SSL_CERT_FILE"] = "/dev/null"
    e.pop("LD_PRELOAD", None)
    return e


def sh(cmd, stdin_data=None, timeout=60, extra_env=None):
    e = env()
    if extra_env:
        e.update(extra_env)
    return subprocess.run(cmd, env=e, input=stdin_data, stdin=None if stdin_data is not None else subprocess.DEVNULL,
                          stdout=subprocess.PIPE, stderr=subprocess.PIPE, timeout=timeout)


class Viol:
    def __init__(self, fn):
        self.v = {}
        self.fn = fn

    def add(self, cls, detail):
        e = self.v.setdefault(cls, {"class": cls, "count": 0, "examples": []})
        e["count"] += 1
        if len(e["examples"]) < 3:
            d = dict(detail)
            d["leg_module"] = LEG
            d["function"] = self.fn
            e["examples"].append(d)

    def list(self):
        return list(self.v.values())


class Loop:
    def __init__(self, d, size=8192, content=b""):
        self.img = os.path.join(d, "dev.img")
        with open(self.img, "wb") as f:
            f.write(content + b"\0" * (size - len(content)))
        r = sh(["losetup", "-f", "--show", self.img])
        if r.returncode != 0:
            raise RuntimeError("losetup failed: " + r.stderr.decode())
        self.path = r.stdout.decode().strip()
        self.rdev = os.stat(self.path).st_rdev

    def restore_node(self):
        """-> True if the device node had been removed (by the command under test) and was put back"""
        if not os.path.exists(self.path):
            import stat as _stat
            os.mknod(self.path, 0o660 | _stat.S_IFBLK, self.rdev)
            return True
        return False

    def read(self, n):
        self.restore_node()
        with open(self.path, "rb") as f:
            return f.read(n)

    def close(self):
        self.restore_node()
        sh(["losetup", "-d", self.path])


def loop_available(root):
    try:
        l = Loop(root)
        l.close()
        os.remove(l.img)
        return True
    except Exception:
        return False


def result(pid, level, cov, viol, t0, assumptions):
    return {"property_id": pid, "level": level, "coverage": cov, "assumptions": assumptions,
            "violation_classes": viol.list(), "wall_s": time.time() - t0}


def pattern(n, salt=1):
    # words of 4 bytes that repeat now and then, not compressible to nothing
    out = bytearray()
    x = salt * 2654435761 % (1 << 32)
    while len(out) < n:
        x = (x * 1103515245 + 12345) % (1 << 31)
        w = bytes([65 + (x >> 8) % 6]) * 3 + bytes([48 + (x >> 16) % 10])
        out += w
    return bytes(out[:n])


# ------------------------------------------------------------------ C01 (c)

def c01(ctx):
    t0 = time.time()
    bita = ctx["bita"]
    thorough = ctx["tier"] == "thorough"
    root = tempfile.mkdtemp(prefix="verif-c01-")
    viol = Viol("c01")
    chunkers = [
        ("fixed64", ["--fixed-size", "64B"]),
        ("rollsum", ["--hash-chunking", "RollSum", "--rolling-window-size", "16B", "--min-chunk-size", "32B", "--avg-chunk-size", "64B", "--max-chunk-size", "256B"]),
        ("buzhash", ["--hash-chunking", "BuzHash", "--rolling-window-size", "8B", "--min-chunk-size", "16B", "--avg-chunk-size", "32B", "--max-chunk-size", "128B"]),
        ("default", []),
    ]
    comps = [("none", ["--compression", "none"]), ("brotli", ["--compression", "brotli", "--compression-level", "5"]),
             ("zstd", ["--compression", "zstd", "--compression-level", "3"]), ("lzma", ["--compression", "lzma", "--compression-level", "2"])]
    sources = [("empty", b""), ("1byte", b"x"), ("small", pattern(40)), ("medium", pattern(3000, 7)), ("zeros", b"\0" * 5000)]
    if thorough:
        sources.append(("large", pattern(1024 * 1024 + 4097, 3)))
    cases = []
    for (cn, ca), (pn, pa), (sn, sb) in itertools.product(chunkers, comps, sources):
        for inp in ("file", "stdin"):
            if inp == "stdin" and not (thorough or (len(cases) % 3 == 0)):
                continue
            cases.append((cn, ca, pn, pa, sn, sb, inp))
    cov = {"cases": len(cases), "stdin_input_cases": sum(1 for c in cases if c[6] == "stdin"), "http_clones": 0}
    distinct = set()
    samples = []
    with RangeServer({}) as srv:
        def one(i):
            cn, ca, pn, pa, sn, sb, inp = cases[i]
            d = os.path.join(root, f"c{i}")
            os.makedirs(d)
            src, arc, out = os.path.join(d, "src.bin"), os.path.join(d, "a.cba"), os.path.join(d, "out.bin")
            with open(src, "wb") as f:
                f.write(sb)
            detail = {"chunker": cn, "compression": pn, "source": sn, "source_len": len(sb), "input": inp}
            # assumption A1: a 4-byte hash only where the source has few chunks (16 000 chunks of the
            # large source collide on 32 bits with a probability of several percent - and do)
            hl = [64, 8, 31, 4][i % 4]
            if hl == 4 and len(sb) > 5000:
                hl = 8
            cmd = [bita, "compress", "--hash-length", str(hl), "--buffered-chunks", str([1, 2, 8][i % 3])] + ca + pa
            if inp == "file" and i % 5 == 2:
                # every 5th file case: the input path is a named pipe (no size to stat, delivered in pipe-sized pieces)
                detail["input"] = inp = "named pipe given with -i"
                fifo = os.path.join(d, "in.fifo")
                os.mkfifo(fifo)
                r = run_with_fifo(cmd + ["-i", fifo, arc], fifo, sb)
            elif inp == "file":
                r = sh(cmd + ["-i", src, arc])
            else:
                r = sh(cmd + [arc], stdin_data=sb)
            if r.returncode != 0:
                detail["stderr"] = r.stderr.decode()[-300:]
                viol.add("valid-compress-failed" if r.returncode != 101 else "compress-panicked", detail)
                return None
            if os.path.exists(os.path.join(d, "a..tmp")):
                viol.add("temp-file-left-behind", detail)
            # clone: local for even cases, HTTP for odd ones
            http = i % 2 == 1
            if http:
                with open(arc, "rb") as f:
                    srv.files[f"a{i}.cba"] = f.read()
                target = srv.url(f"a{i}.cba")
            else:
                target = arc
            r = sh([bita, "clone", "--verify-output", target, out])
            if r.returncode != 0:
                detail["stderr"] = r.stderr.decode()[-300:]
                detail["http"] = http
                viol.add("valid-clone-failed" if r.returncode != 101 else "clone-panicked", detail)
                return None
            with open(out, "rb") as f:
                ob = f.read()
            if ob != sb:
                detail["output_len"] = len(ob)
                viol.add("success-with-wrong-output", detail)
            # info reports the true size
            r = sh([bita, "info", arc])
            if r.returncode != 0:
                viol.add("info-failed", detail)
            return (cn, pn, sn, inp, http)

        with ThreadPoolExecutor(max_workers=16) as ex:
            for k in ex.map(one, range(len(cases))):
                if k:
                    distinct.add(k)
                    if k[4]:
                        cov["http_clones"] += 1
                    if len(samples) < 4:
                        samples.append({"chunker": k[0], "compression": k[1], "source": k[2], "input": k[3], "clone_over_http": k[4]})
    many_chunks(bita, root, viol, cov, thorough)
    interrupted_transfers(bita, root, viol, cov)
    if thorough:
        big_source(bita, root, viol, cov)
    shutil.rmtree(root, ignore_errors=True)
    cov.update({"evaluations": len(cases), "distinct_nontrivial": len(distinct), "exhaustive": True, "samples": samples,
                "rule": "real binary: {fixed, rollsum, buzhash, default parameters} x {none, brotli, zstd, lzma} x {empty, 1 byte, 40 B, 3 kB, 5 kB zeros (thorough: + >1 MiB)} x {file input (every 5th through a named pipe given with -i), stdin input (quick: every 3rd)}: bita compress -> bita clone --verify-output (local / HTTP alternating) -> bytes, exit status, temp file removed, bita info; clones over HTTP with the connection dropped inside the chunk data at 7 positions (retry budget 3); a source of 70 000 unique 4-byte chunks (indexes beyond 2^16) compressed and cloned (thorough: re-cloned in place over its reverse); thorough: a sparse source of 4 GiB + 3 MiB + 12345 bytes with distinct chunks below / at / above offset 2^32, compressed, cloned and re-cloned in place over a prior output with two of them swapped; non-trivial = distinct cells that ran to the end"})
    return result(ctx["pid"], "exploration", cov, viol, t0, ["A5: real binary observed at process boundary"])


def many_chunks(bita, root, viol, cov, thorough):
    """More than 2^16 unique chunks (descriptor and rebuild indexes beyond 65535): 70 000 distinct 4-byte chunks,
    compressed, cloned, and re-cloned in place over a prior output holding them in reverse order."""
    n = 70_000
    source = b"".join(i.to_bytes(4, "little") for i in range(1, n + 1)) + b"xy"
    d = os.path.join(root, "many")
    os.makedirs(d)
    src, arc, out = os.path.join(d, "src.bin"), os.path.join(d, "a.cba"), os.path.join(d, "out.bin")
    with open(src, "wb") as f:
        f.write(source)
    detail = {"case": "70000 unique 4-byte chunks + a 2-byte tail, hash length 8"}
    r = sh([bita, "compress", "--fixed-size", "4B", "--hash-length", "8", "--compression", "none", "-i", src, arc], timeout=600)
    cov["many_chunk_cases"] = 1
    if r.returncode != 0:
        viol.add("valid-compress-failed", dict(detail, stderr=r.stderr.decode()[-300:]))
        return
    r = sh([bita, "clone", "--verify-output", arc, out], timeout=600)
    if r.returncode != 0:
        viol.add("valid-clone-failed", dict(detail, stderr=r.stderr.decode()[-300:]))
        return
    if open(out, "rb").read() != source:
        viol.add("success-with-wrong-output", detail)
    if not thorough:
        return  # the in-place step takes half a minute (70 000 moves)
    # in place over the reverse order (every chunk moves) + 3 junk chunks
    with open(out, "wb") as f:
        f.write(b"".join(i.to_bytes(4, "little") for i in range(n, 0, -1)) + b"junkjunkjunk")
    r = sh([bita, "clone", "--seed-output", arc, out], timeout=600)
    if r.returncode != 0:
        viol.add("valid-clone-failed", dict(detail, step="in place over the reverse order", stderr=r.stderr.decode()[-300:]))
    elif open(out, "rb").read() != source:
        viol.add("success-with-wrong-output", dict(detail, step="in place over the reverse order"))
    cov["many_chunk_cases"] = 2


def interrupted_transfers(bita, root, viol, cov):
    """compress -> clone over HTTP where the server drops the connection in the middle of a chunk-data body
    (at several positions, once or twice) and the retry budget covers it: the source must still come out."""
    source = pattern(6000, 11)
    d = os.path.join(root, "cut")
    os.makedirs(d)
    src, arc = os.path.join(d, "src.bin"), os.path.join(d, "a.cba")
    with open(src, "wb") as f:
        f.write(source)
    r = sh([bita, "compress", "--fixed-size", "256B", "--compression", "none", "-i", src, arc])
    if r.returncode != 0:
        raise RuntimeError("compress failed: " + r.stderr.decode())
    with open(arc, "rb") as f:
        ab = f.read()
    n = 0
    for cut_at, cuts in ((1, 1), (255, 1), (256, 1), (300, 1), (1333, 1), (700, 2), (5999, 1)):
        state = {"left": cuts}

        def behaviour(index, path, rng, cut_at=cut_at, state=state):
            # request 0 and 1 read the header; the chunk data requests follow
            if index >= 2 and state["left"] > 0:
                state["left"] -= 1
                return {"close_after": cut_at}
            return None
        out = os.path.join(d, f"out-{cut_at}-{cuts}.bin")
        with RangeServer({"a.cba": ab}, behaviour=behaviour) as srv:
            r = sh([bita, "clone", "--http-retry-count", "3", "--http-retry-delay", "0", srv.url("a.cba"), out], timeout=120)
        n += 1
        detail = {"case": f"connection dropped after {cut_at} body bytes of the chunk data, {cuts} time(s); --http-retry-count 3"}
        if r.returncode != 0:
            viol.add("valid-clone-failed", dict(detail, stderr=r.stderr.decode()[-300:]))
        elif open(out, "rb").read() != source:
            viol.add("success-with-wrong-output", detail)
    cov["interrupted_transfer_clones"] = n


def files_equal(a, b):
    if os.path.getsize(a) != os.path.getsize(b):
        return False
    return subprocess.run(["cmp", "-s", a, b]).returncode == 0


def big_source(bita, root, viol, cov):
    """Source offsets beyond 2^32: a sparse source of 4 GiB + 3 MiB + 12345 bytes with distinct
    chunks just below, at and above offset 2^32, compressed, cloned, and re-cloned in place over a
    prior output in which two of those chunks are swapped."""
    M = 1 << 20
    size = (4 << 30) + 3 * M + 12345
    d = os.path.join(root, "big")
    os.makedirs(d)
    src, arc, out, prior = (os.path.join(d, n) for n in ("src.img", "a.cba", "out.img", "prior.img"))
    marks = [(5, b"five"), (4095, b"below"), (4096, b"at"), (4097, b"above")]
    with open(src, "wb") as f:
        f.truncate(size)
        for idx, tag in marks:
            f.seek(idx * M + 17)
            f.write(tag * 1000)
        f.seek(size - 100)
        f.write(b"tail" * 25)
    detail = {"case": "source of 4 GiB + 3 MiB + 12345 bytes, fixed 1 MiB chunks", "marks_at_chunk": [m[0] for m in marks]}
    cov["big_source_bytes"] = size
    r = sh([bita, "compress", "--fixed-size", "1MiB", "--compression", "none", "-i", src, arc], timeout=1200)
    if r.returncode != 0:
        viol.add("valid-compress-failed", dict(detail, stderr=r.stderr.decode()[-300:]))
        return
    r = sh([bita, "clone", arc, out], timeout=1200)
    if r.returncode != 0:
        viol.add("valid-clone-failed", dict(detail, stderr=r.stderr.decode()[-300:]))
        return
    if not files_equal(src, out):
        viol.add("success-with-wrong-output", dict(detail, output_size=os.path.getsize(out)))
    cov["big_source_clones"] = 1
    # in place: the prior output holds the chunks "below" and "above" swapped and is 5 MiB longer
    os.rename(out, prior)
    with open(prior, "r+b") as f:
        f.seek(4095 * M)
        a = f.read(M)
        f.seek(4097 * M)
        b = f.read(M)
        f.seek(4095 * M)
        f.write(b)
        f.seek(4097 * M)
        f.write(a)
        f.truncate(size + 5 * M)
    r = sh([bita, "clone", "--seed-output", arc, prior], timeout=1200)
    if r.returncode != 0:
        viol.add("valid-clone-failed", dict(detail, step="in place", stderr=r.stderr.decode()[-300:]))
        return
    if not files_equal(src, prior):
        viol.add("success-with-wrong-output", dict(detail, step="in place", output_size=os.path.getsize(prior)))
    cov["big_source_clones"] = 2


# ------------------------------------------------------------------ C02

def c02(ctx):
    t0 = time.time()
    bita = ctx["bita"]
    root = tempfile.mkdtemp(prefix="verif-c02-")
    viol = Viol("c02")
    W = [b"AAAA", b"BBBB", b"CCCC", b"DDDD"]
    J = [b"xxxx", b"yyyy", b"zz"]
    source = W[0] + W[1] + W[2] + W[0] + W[3] + b"EE"
    src = os.path.join(root, "src.bin")
    arc = os.path.join(root, "a.cba")
    with open(src, "wb") as f:
        f.write(source)
    cases = []
    for hl in (64, 4):
        a = os.path.join(root, f"a{hl}.cba")
        r = sh([bita, "compress", "--fixed-size", "4B", "--compression", "none", "--hash-length", str(hl), "-i", src, a])
        if r.returncode != 0:
            raise RuntimeError("compress failed: " + r.stderr.decode())
        seeds_pool = [W[1] + J[0] + W[2], J[0] + J[1], W[3] + W[3] + W[0], source, b"", J[2] + W[1] + W[0], W[0][:2] + W[1] + W[2] + W[3]]
        # stdin alone, stdin + file in both argument orders, two files in both orders, three seeds
        for s in seeds_pool:
            cases.append((a, hl, [("-", s)]))
            cases.append((a, hl, [("f", s)]))
        for s1, s2 in itertools.permutations(seeds_pool[:5], 2):
            cases.append((a, hl, [("-", s1), ("f", s2)]))
            cases.append((a, hl, [("f", s2), ("-", s1)]))
            cases.append((a, hl, [("f", s1), ("f", s2)]))
        cases.append((a, hl, [("f", seeds_pool[0]), ("-", seeds_pool[2]), ("f", seeds_pool[5])]))
    distinct = set()
    samples = []

    def one(i):
        a, hl, seeds = cases[i]
        d = os.path.join(root, f"c{i}")
        os.makedirs(d)
        out = os.path.join(d, "out.bin")
        cmd = [bita, "clone"]
        stdin_data = None
        for j, (kind, data) in enumerate(seeds):
            if kind == "-":
                cmd += ["--seed", "-"]
                stdin_data = data
            else:
                p = os.path.join(d, f"seed{j}.bin")
                with open(p, "wb") as f:
                    f.write(data)
                cmd += ["--seed", p]
        r = sh(cmd + [a, out], stdin_data=stdin_data)
        detail = {"hash_len": hl, "seeds": [(k, s.hex()) for k, s in seeds], "source": source.hex()}
        if r.returncode != 0:
            detail["stderr"] = r.stderr.decode()[-300:]
            viol.add("valid-clone-failed" if r.returncode != 101 else "clone-panicked", detail)
            return None
        with open(out, "rb") as f:
            ob = f.read()
        if ob != source:
            detail["output"] = ob.hex()
            viol.add("success-with-wrong-output", detail)
        used = b"Used" in r.stdout
        return (hl, tuple((k, s) for k, s in seeds), used)

    with ThreadPoolExecutor(max_workers=16) as ex:
        for k in ex.map(one, range(len(cases))):
            if k:
                distinct.add(k[:2])
                if len(samples) < 3 and len(k[1]) > 1:
                    samples.append({"hash_len": k[0], "seeds": [(a, b.hex()) for a, b in k[1]]})
    # seeds under an output write fault: a file size limit (EFBIG, SIGXFSZ ignored) makes every write
    # beyond `limit` bytes fail; a clone that still reports success must have produced the source
    import resource
    import signal
    fault_cases = 0
    big = b"".join(bytes([65 + i]) * 512 for i in range(16))           # 16 chunks of 512 bytes
    bsrc = os.path.join(root, "big.bin")
    barc = os.path.join(root, "big.cba")
    with open(bsrc, "wb") as f:
        f.write(big)
    r = sh([bita, "compress", "--fixed-size", "512B", "--compression", "none", "-i", bsrc, barc])
    if r.returncode != 0:
        raise RuntimeError("compress failed: " + r.stderr.decode())
    seed_variants = [big, big[4096:] + big[:4096], big[:2048] + b"?" * 700 + big[6144:]]
    for limit in range(512, len(big) + 1, 512):
        for si, seedb in enumerate(seed_variants):
            for prior in (None, b"#" * len(big)):
                d = os.path.join(root, f"f{limit}-{si}-{0 if prior is None else 1}")
                os.makedirs(d)
                out, sp = os.path.join(d, "out.bin"), os.path.join(d, "seed.bin")
                with open(sp, "wb") as f:
                    f.write(seedb)
                flags = []
                if prior is not None:
                    with open(out, "wb") as f:
                        f.write(prior)
                    flags = ["-f"]

                def pre(limit=limit):
                    signal.signal(signal.SIGXFSZ, signal.SIG_IGN)
                    resource.setrlimit(resource.RLIMIT_FSIZE, (limit, limit))
                r = subprocess.run([bita, "clone"] + flags + ["--seed", sp, barc, out], env=env(), stdin=subprocess.DEVNULL,
                                   stdout=subprocess.PIPE, stderr=subprocess.PIPE, preexec_fn=pre, timeout=60)
                fault_cases += 1
                if r.returncode == 0:
                    ob = open(out, "rb").read() if os.path.exists(out) else b""
                    if ob != big:
                        viol.add("success-with-wrong-output", {"fault": f"RLIMIT_FSIZE={limit}", "seed_variant": si, "existing_output": prior is not None,
                                                               "differing_bytes": sum(1 for a, b in zip(ob, big) if a != b) + abs(len(ob) - len(big))})
                distinct.add(("fault", limit, si, prior is not None))
    # chunks larger than one write(2) of the runtime takes (2 MiB), supplied by a seed file, by stdin and by the archive
    M = 1 << 20
    blocks = [bytes([97 + k]) * 5 + bytes((i * (k + 7)) % 253 for i in range(3 * M - 5)) for k in range(3)]
    lsrc_b = blocks[0] + blocks[1] + blocks[2] + blocks[0] + b"end" * 1000
    lsrc, larc = os.path.join(root, "large.bin"), os.path.join(root, "large.cba")
    with open(lsrc, "wb") as f:
        f.write(lsrc_b)
    r = sh([bita, "compress", "--fixed-size", "3MiB", "--compression", "none", "-i", lsrc, larc])
    if r.returncode != 0:
        raise RuntimeError("compress failed: " + r.stderr.decode())
    large_cases = 0
    for name, seedb, via_stdin in (("seed-file-one-block", b"junk" * 1000 + blocks[1] + b"more junk", False),
                                   ("stdin-seed-two-blocks", blocks[2] + blocks[0], True),
                                   ("no-seed", None, False)):
        d = os.path.join(root, "large-" + name)
        os.makedirs(d)
        out = os.path.join(d, "out.bin")
        argv = [bita, "clone"]
        stdin_data = None
        if seedb is not None and via_stdin:
            argv += ["--seed", "-"]
            stdin_data = seedb
        elif seedb is not None:
            sp = os.path.join(d, "seed.bin")
            with open(sp, "wb") as f:
                f.write(seedb)
            argv += ["--seed", sp]
        if seedb is None:
            argv.append("--verify-output")
        r = sh(argv + [larc, out], stdin_data=stdin_data, timeout=300)
        large_cases += 1
        detail = {"case": "3 MiB chunks, " + name}
        if r.returncode != 0:
            viol.add("valid-clone-failed", dict(detail, stderr=r.stderr.decode()[-300:]))
        elif open(out, "rb").read() != lsrc_b:
            viol.add("success-with-wrong-output", detail)
        distinct.add(("large", name))
    # scale: thousands of chunks wanted and thousands of seed chunks that are NOT wanted (every miss must leave the
    # bookkeeping of what is still wanted alone)
    import random
    rs = random.Random("c02-scale")
    ssrc_b = rs.randbytes(3 << 20)
    old_version = bytearray(ssrc_b)
    for k in range(0, len(old_version), 40000):
        old_version[k:k + 700] = rs.randbytes(700)
    unrelated = rs.randbytes(3 << 20)
    sd = os.path.join(root, "scale")
    os.makedirs(sd)
    ssrc, sarc = os.path.join(sd, "src.bin"), os.path.join(sd, "a.cba")
    with open(ssrc, "wb") as f:
        f.write(ssrc_b)
    r = sh([bita, "compress", "--hash-chunking", "RollSum", "--min-chunk-size", "256B", "--avg-chunk-size", "1KiB", "--max-chunk-size", "8KiB", "--compression", "none", "-i", ssrc, sarc], timeout=300)
    if r.returncode != 0:
        raise RuntimeError("compress failed: " + r.stderr.decode())
    for nm, b in (("old.bin", bytes(old_version)), ("unrelated.bin", unrelated)):
        with open(os.path.join(sd, nm), "wb") as f:
            f.write(b)
    scale_cases = 0
    for name, sargs, stdin_b in (("older-version", ["--seed", os.path.join(sd, "old.bin")], None),
                                 ("unrelated", ["--seed", os.path.join(sd, "unrelated.bin")], None),
                                 ("unrelated-then-older-version", ["--seed", os.path.join(sd, "unrelated.bin"), "--seed", os.path.join(sd, "old.bin")], None),
                                 ("unrelated-on-stdin", ["--seed", "-"], unrelated)):
        out = os.path.join(sd, name + ".out")
        r = sh([bita, "clone"] + sargs + [sarc, out], stdin_data=stdin_b, timeout=300)
        scale_cases += 1
        detail = {"case": "3 MiB source in ~3000 chunks, seed: " + name}
        if r.returncode != 0:
            viol.add("valid-clone-failed", dict(detail, stderr=r.stderr.decode()[-300:]))
        elif open(out, "rb").read() != ssrc_b:
            viol.add("success-with-wrong-output", detail)
        distinct.add(("scale", name))
        os.remove(out)
    # kinds of seed: the same file given twice plus a third one, a named pipe, a block device
    kind_cases = 0
    a64 = os.path.join(root, "a64.cba")
    seed_a, seed_b = W[1] + J[0] + W[2], W[3] + W[3] + W[0]
    kd = os.path.join(root, "kinds")
    os.makedirs(kd)
    for nm, b in (("sa.bin", seed_a), ("sb.bin", seed_b)):
        with open(os.path.join(kd, nm), "wb") as f:
            f.write(b)
    specs = [("same-seed-twice-plus-one", ["--seed", os.path.join(kd, "sa.bin"), "--seed", os.path.join(kd, "sa.bin"), "--seed", os.path.join(kd, "sb.bin")], None)]
    fifo = os.path.join(kd, "seed.fifo")
    os.mkfifo(fifo)
    specs.append(("seed-is-a-named-pipe", ["--seed", fifo, "--seed", os.path.join(kd, "sb.bin")], (fifo, seed_a)))
    loop = None
    if loop_available(root):
        loop = Loop(kd, size=8192, content=seed_b + J[1] + seed_a)
        specs.append(("seed-is-a-block-device", ["--seed", loop.path], None))
    try:
        for name, sargs, feed in specs:
            out = os.path.join(kd, name + ".out")
            p = subprocess.Popen([bita, "clone"] + sargs + [a64, out], env=env(), stdin=subprocess.DEVNULL, stdout=subprocess.PIPE, stderr=subprocess.PIPE)
            if feed is not None:
                import threading

                def w(path=feed[0], data=feed[1]):
                    try:
                        with open(path, "wb") as f:
                            f.write(data)
                    except OSError:
                        pass
                th = threading.Thread(target=w, daemon=True)
                th.start()
            try:
                so, se = p.communicate(timeout=60)
            except subprocess.TimeoutExpired:
                p.kill()
                so, se = p.communicate()
            if feed is not None:
                try:
                    fd = os.open(feed[0], os.O_RDONLY | os.O_NONBLOCK)
                    th.join(timeout=2)
                    os.close(fd)
                except OSError:
                    pass
            kind_cases += 1
            detail = {"case": name}
            if p.returncode != 0:
                viol.add("valid-clone-failed", dict(detail, stderr=se.decode()[-300:]))
            elif open(out, "rb").read() != source:
                viol.add("success-with-wrong-output", detail)
            distinct.add(("kind", name))
    finally:
        if loop is not None:
            loop.close()
    shutil.rmtree(root, ignore_errors=True)
    cov = {"evaluations": len(cases) + fault_cases + large_cases + kind_cases + scale_cases, "large_chunk_cases": large_cases, "seed_kind_cases": kind_cases, "scale_cases": scale_cases, "write_fault_cases": fault_cases, "distinct_nontrivial": len(distinct), "exhaustive": True, "samples": samples,
           "stdin_seed_cases": sum(1 for c in cases if any(k == "-" for k, _ in c[2])),
           "rule": "real binary, FixedSize(4) archive of a 22-byte source with a duplicate chunk, hash length 64 and 4: every seed of a 7-seed pool (related, unrelated, source itself, empty, shifted by a half word) as stdin seed and as file seed, every ordered pair of 5 seeds as (stdin,file), (file,stdin) and (file,file), one triple; oracle: exit 0 and output == source; plus seeded clones of a 16-chunk source under a file size limit at every chunk boundary (writes beyond it fail with EFBIG) x 3 seed variants x {new, existing output}: reported success implies output == source; plus a source of 3 MiB chunks (more than one write(2) takes) cloned with a seed file, a stdin seed and no seed; a 3 MiB source in ~3000 chunks with an older version / 3 MiB of unrelated data / both / unrelated data on stdin as seeds; the same seed file given twice plus a third, a seed that is a named pipe, a seed that is a loop block device; non-trivial = distinct seed configurations that ran to the end"}
    return result(ctx["pid"], "exploration", cov, viol, t0, ["A5"])


# ------------------------------------------------------------------ C03 / C06 on files and loop devices

LAYOUTS = [
    # (name, source words, prior words) over 4-byte words; '-' = 4 junk bytes
    ("identical", "ABCD", "ABCD"),
    ("shift-right", "ABCD", "-ABC"),
    ("shift-left", "ABCD", "BCD-"),
    ("swap", "ABAC", "BA"),
    ("cycle3", "ABC", "CAB"),
    ("reverse", "ABCD", "DCBA"),
    ("duplicate-needed", "AABA", "-A"),
    ("longer-prior", "AB", "BA--CD"),
    ("shorter-prior", "ABCD", "D"),
    ("nothing-reusable", "ABCD", "----"),
    ("f2-layout", "ABAA", "-A"),
    # a wanted chunk occurs twice in the prior output before other wanted chunks
    ("complete-with-duplicate", "AABC", "AABC"),
    ("duplicate-before-wanted", "ABCA", "AA-BC"),
    ("triple-then-moved", "AAAB", "BAAA"),
    # nothing moves, only the first / the last chunk is missing
    ("first-chunk-differs", "ABCD", "-BCD"),
    ("last-chunk-differs", "ABCD", "ABC-"),
    ("first-chunk-differs-longer-prior", "ABC", "-BC--"),
    # the source ends in a short chunk that the (shorter) prior output also ends in
    ("short-tail-shared", "ABCDt", "Dt"),
    ("short-tail-shared-longer-prior", "ABt", "BA--t"),
]


def words(s, junk_salt=0):
    out = b""
    for i, ch in enumerate(s):
        if ch == "t":
            out += b"xy"       # a 2-byte tail: only meaningful as the last letter (a short, EOF-terminated chunk)
        else:
            out += (bytes([35 + (i + junk_salt) % 9]) * 4) if ch == "-" else ch.encode() * 4
    return out


def run_with_fifo(argv, fifo, data, timeout=60):
    """Run argv while a thread feeds `data` into the named pipe `fifo` (released if the command never opens it)."""
    import threading
    p = subprocess.Popen(argv, env=env(), stdin=subprocess.DEVNULL, stdout=subprocess.PIPE, stderr=subprocess.PIPE)

    def w():
        try:
            with open(fifo, "wb") as f:
                f.write(data)
        except OSError:
            pass
    th = threading.Thread(target=w, daemon=True)
    th.start()
    try:
        so, se = p.communicate(timeout=timeout)
    except subprocess.TimeoutExpired:
        p.kill()
        so, se = p.communicate()
    try:
        fd = os.open(fifo, os.O_RDONLY | os.O_NONBLOCK)
        th.join(timeout=2)
        os.close(fd)
    except OSError:
        pass
    return subprocess.CompletedProcess(argv, p.returncode, so, se)


def _inplace(ctx, pid, observe_fetch):
    t0 = time.time()
    bita = ctx["bita"]
    root = tempfile.mkdtemp(prefix=f"verif-{pid.lower()}-")
    viol = Viol(pid.lower())
    kinds = ["file", "new-file"] + (["block"] if loop_available(root) else [])
    cases = [(l, k) for l in LAYOUTS for k in kinds]
    if observe_fetch:
        # the same contents offered as a SEED of every kind instead of as the output itself
        seed_kinds = ["seed-file", "seed-stdin", "seed-fifo"] + (["seed-block"] if "block" in kinds else [])
        cases += [(l, k) for l in LAYOUTS[:8] + LAYOUTS[-3:] for k in seed_kinds]
    samples = []
    distinct = set()
    cov = {"output_kinds": kinds, "reused_bytes_reported": 0}
    srv = RangeServer({})
    srv.start()
    try:
        def one(i):
            (name, s, p), kind = cases[i]
            d = os.path.join(root, f"c{i}")
            os.makedirs(d)
            source, prior = words(s), words(p, 3)
            src, arc = os.path.join(d, "src.bin"), os.path.join(d, "a.cba")
            with open(src, "wb") as f:
                f.write(source)
            r = sh([bita, "compress", "--fixed-size", "4B", "--compression", "none", "-i", src, arc])
            if r.returncode != 0:
                raise RuntimeError("compress failed: " + r.stderr.decode())
            with open(arc, "rb") as f:
                ab = f.read()
            srv.files[f"a{i}.cba"] = ab
            dev = None
            flags = ["--seed-output"]
            stdin_data, feed = None, None
            if kind.startswith("seed-"):
                out = os.path.join(d, "out.bin")
                if kind == "seed-file":
                    sp = os.path.join(d, "seed.bin")
                    with open(sp, "wb") as f:
                        f.write(prior)
                    flags = ["--seed", sp]
                elif kind == "seed-stdin":
                    flags = ["--seed", "-"]
                    stdin_data = prior
                elif kind == "seed-fifo":
                    sp = os.path.join(d, "seed.fifo")
                    os.mkfifo(sp)
                    flags = ["--seed", sp]
                    feed = sp
                else:
                    dev = Loop(d, 8192, prior)
                    flags = ["--seed", dev.path]
            elif kind == "block":
                dev = Loop(d, 8192, prior)
                out = dev.path
            elif kind == "file":
                out = os.path.join(d, "out.bin")
                with open(out, "wb") as f:
                    f.write(prior)
            else:
                out = os.path.join(d, "out.bin")  # absent: --seed-output creates it
            try:
                argv = [bita, "clone"] + flags + [srv.url(f"a{i}.cba", f"case={i:04d}"), out]
                if feed is None:
                    r = sh(argv, stdin_data=stdin_data)
                else:
                    r = run_with_fifo(argv, feed, prior)
                detail = {"layout": name, "source": s, "prior": p if kind != "new-file" else "", "output_kind": kind}
                if r.returncode != 0:
                    detail["stderr"] = r.stderr.decode()[-300:]
                    viol.add("valid-clone-failed" if r.returncode != 101 else "clone-panicked", detail)
                    return None
                ob = dev.read(len(source)) if (dev and kind == "block") else open(out, "rb").read()
                if ob != source:
                    detail["output"] = ob.hex()
                    viol.add("success-with-wrong-output", detail)
                    return None
                if observe_fetch:
                    # expected: unique source words not present (as aligned 4-byte chunks) in the prior
                    have = set() if kind == "new-file" else {prior[j:j + 4] for j in range(0, len(prior) - 3, 4)}
                    if kind not in ("new-file", "block", "seed-block") and len(prior) % 4:
                        have.add(prior[len(prior) // 4 * 4:])   # the short chunk a file (not a device) ends in
                    if kind in ("block", "seed-block"):
                        have |= {b"\0\0\0\0"}
                    uniq = []
                    for j in range(0, len(source), 4):
                        w = source[j:j + 4]
                        if w not in uniq:
                            uniq.append(w)
                    hdr = len(ab) - sum(len(w) for w in uniq)
                    want = []
                    o = hdr
                    for idx, w in enumerate(uniq):
                        if w not in have:
                            if want and want[-1][1] + 1 == o:
                                want[-1][1] = o + len(w) - 1
                            else:
                                want.append([o, o + len(w) - 1])
                        o += len(w)
                    reqs = [rg for (_t, rg) in srv.requests_for(f"case={i:04d}")]
                    got = []
                    for rg in reqs[2:]:
                        a, b = rg.replace("bytes=", "").split("-")
                        got.append([int(a), int(b)])
                    if got != want:
                        detail["requests"] = got
                        detail["expected"] = want
                        gb = sum(b - a + 1 for a, b in got)
                        wb = sum(b - a + 1 for a, b in want)
                        viol.add("available-chunk-fetched" if gb > wb else ("missing-chunk-not-fetched" if gb < wb else "fetch-requests-differ"), detail)
                return (name, kind)
            finally:
                if dev:
                    dev.close()

        with ThreadPoolExecutor(max_workers=8) as ex:
            for k in ex.map(one, range(len(cases))):
                if k:
                    distinct.add(k)
                    if len(samples) < 4:
                        samples.append({"layout": k[0], "output_kind": k[1]})
    finally:
        srv.stop()
        shutil.rmtree(root, ignore_errors=True)
    cov.update({"evaluations": len(cases), "distinct_nontrivial": len(distinct), "exhaustive": True, "samples": samples,
                "rule": "real binary: `bita clone --seed-output` of a FixedSize(4) archive over HTTP onto {existing regular file, absent file, loop block device} holding each of 11 hand-picked prior layouts (identical, shifts, swap, 3-cycle, reverse, duplicates, longer/shorter prior, nothing reusable, F2's layout); oracle: exit 0, output (first source-length bytes of a device) == source"
                        + ("; the Range requests after the two header reads == maximal runs of the source words not present in the prior output; the same contents offered as a seed file, on stdin, through a named pipe and as a loop block device (a seed of every kind must be scanned)" if observe_fetch else "") + "; non-trivial = distinct (layout, output kind) cells that ran to the end"})
    return result(pid, "exploration", cov, viol, t0, ["A5", "loop devices are zero-filled beyond the prior content: a zero word counts as present there"])


def c03(ctx):
    res = _inplace(ctx, "C03", False)
    # in place AND a stdin seed: whatever stdin delivers must not disturb the re-ordering
    t0 = time.time()
    bita = ctx["bita"]
    root = tempfile.mkdtemp(prefix="verif-c03s-")
    viol = Viol("c03")
    n = 0
    try:
        for li, (name, s, p) in enumerate(LAYOUTS + [("new-first-chunk", "NABC", "ABC"), ("new-middle-chunk", "ANBC", "CAB")]):
            source, prior = words(s), words(p, 3)
            d = os.path.join(root, f"l{li}")
            os.makedirs(d)
            src, arc = os.path.join(d, "src.bin"), os.path.join(d, "a.cba")
            with open(src, "wb") as f:
                f.write(source)
            r = sh([bita, "compress", "--fixed-size", "4B", "--compression", "none", "-i", src, arc])
            if r.returncode != 0:
                raise RuntimeError("compress failed: " + r.stderr.decode())
            seeds = sorted({ch for ch in s if ch != "-"}) + ["-", s]
            for sw in seeds:
                out = os.path.join(d, f"out-{n}.bin")
                with open(out, "wb") as f:
                    f.write(prior)
                r = sh([bita, "clone", "--seed-output", "--seed", "-", arc, out], stdin_data=words(sw, 7))
                n += 1
                detail = {"layout": name, "source": s, "prior": p, "stdin_seed": sw}
                if r.returncode != 0:
                    detail["stderr"] = r.stderr.decode()[-300:]
                    viol.add("valid-clone-failed" if r.returncode != 101 else "clone-panicked", detail)
                elif open(out, "rb").read() != source:
                    detail["output"] = open(out, "rb").read().hex()
                    viol.add("success-with-wrong-output", detail)
        # chunks larger than one read(2) / write(2) of the runtime moves (2 MiB, and one byte more): shifts, a rotation
        # and a swap of whole blocks, in place on a regular file
        M = 1 << 20
        big_n = 0
        for csz in (2 * M + 1, 3 * M):
            blocks = [bytes([65 + k]) * 9 + bytes((i * (k + 3)) % 251 for i in range(csz - 9)) for k in range(4)]
            source = b"".join(blocks[:3]) + b"tail" * 100
            d = os.path.join(root, f"big{csz}")
            os.makedirs(d)
            src, arc = os.path.join(d, "src.bin"), os.path.join(d, "a.cba")
            with open(src, "wb") as f:
                f.write(source)
            r = sh([bita, "compress", "--fixed-size", f"{csz}B", "--compression", "none", "-i", src, arc])
            if r.returncode != 0:
                raise RuntimeError("compress failed: " + r.stderr.decode())
            junk = b"#" * csz
            for lname, prior in (("shift-right", junk + blocks[0] + blocks[1] + blocks[2]), ("shift-left", blocks[1] + blocks[2] + junk),
                                 ("rotate", blocks[2] + blocks[0] + blocks[1]), ("swap", blocks[1] + blocks[0] + blocks[2])):
                out = os.path.join(d, lname + ".bin")
                with open(out, "wb") as f:
                    f.write(prior)
                r = sh([bita, "clone", "--seed-output", arc, out], timeout=300)
                big_n += 1
                detail = {"layout": f"{lname} of whole blocks", "chunk_size": csz}
                if r.returncode != 0:
                    detail["stderr"] = r.stderr.decode()[-300:]
                    viol.add("valid-clone-failed" if r.returncode != 101 else "clone-panicked", detail)
                elif open(out, "rb").read() != source:
                    viol.add("success-with-wrong-output", detail)
                os.remove(out)
        # content-defined chunks of 1-4 MiB: data inserted in front / removed from the front moves every chunk by less
        # than its own size (a chunk's destination overlaps its own old place)
        import random
        big_src = random.Random("c03-cdc").randbytes(12 << 20)
        d = os.path.join(root, "cdc")
        os.makedirs(d)
        src, arc = os.path.join(d, "src.bin"), os.path.join(d, "a.cba")
        with open(src, "wb") as f:
            f.write(big_src)
        r = sh([bita, "compress", "--hash-chunking", "RollSum", "--min-chunk-size", "1MiB", "--avg-chunk-size", "2MiB", "--max-chunk-size", "4MiB", "--compression", "none", "-i", src, arc], timeout=300)
        if r.returncode != 0:
            raise RuntimeError("compress failed: " + r.stderr.decode())
        for lname, prior in (("30 kB inserted in front", b"i" * 30000 + big_src), ("300 kB removed from the front", big_src[300000:]),
                             ("1.5 MiB inserted in front", bytes(1536 * 1024) + big_src)):
            out = os.path.join(d, "out.bin")
            with open(out, "wb") as f:
                f.write(prior)
            r = sh([bita, "clone", "--seed-output", arc, out], timeout=300)
            big_n += 1
            detail = {"layout": lname, "chunks": "RollSum 1-4 MiB", "source_bytes": len(big_src)}
            if r.returncode != 0:
                detail["stderr"] = r.stderr.decode()[-300:]
                viol.add("valid-clone-failed" if r.returncode != 101 else "clone-panicked", detail)
            elif not files_equal(src, out):
                viol.add("success-with-wrong-output", detail)
            os.remove(out)
        n += big_n
    finally:
        shutil.rmtree(root, ignore_errors=True)
    res["coverage"]["evaluations"] += n
    res["coverage"]["large_chunk_in_place_cases"] = big_n
    res["coverage"]["stdin_seed_in_place_cases"] = n - big_n
    res["coverage"]["rule"] += "; plus every layout x every single source word / junk / the whole source piped into `--seed -` together with --seed-output; plus shifts, a rotation and a swap of whole blocks of 2 MiB + 1 and 3 MiB (more than one read(2) / write(2) of the runtime moves), and content-defined chunks of 1-4 MiB with data inserted in front / removed from the front (every chunk moves by less than its own size)"
    res["violation_classes"] += viol.list()
    res["wall_s"] += time.time() - t0
    return res


SEED_EQ_CONFIGS = [
    ("rollsum", ["--hash-chunking", "RollSum", "--rolling-window-size", "16B", "--min-chunk-size", "64B", "--avg-chunk-size", "256B", "--max-chunk-size", "1KiB"], range(0, 40, 3)),
    # the minimum below the window, a window other than the default, BuzHash with its own default window
    ("rollsum-min-below-window", ["--hash-chunking", "RollSum", "--rolling-window-size", "64B", "--min-chunk-size", "16B", "--avg-chunk-size", "128B", "--max-chunk-size", "1KiB"], (0, 7, 29)),
    ("buzhash-min-below-window", ["--hash-chunking", "BuzHash", "--rolling-window-size", "48B", "--min-chunk-size", "8B", "--avg-chunk-size", "64B", "--max-chunk-size", "512B"], (0, 7, 29)),
    ("buzhash-default-window", ["--hash-chunking", "BuzHash", "--min-chunk-size", "64B", "--avg-chunk-size", "256B", "--max-chunk-size", "1KiB"], (0, 11)),
    ("rollsum-window-20", ["--hash-chunking", "RollSum", "--rolling-window-size", "20B", "--min-chunk-size", "64B", "--avg-chunk-size", "256B", "--max-chunk-size", "1KiB"], (0, 11)),
]


def seed_equals_source_http(bita, root, viol, cls):
    """Clone over HTTP with the source itself as seed (file and stdin), several chunker configurations and source
    lengths: nothing is missing, so nothing but the two header reads may be requested. -> number of cases"""
    S = pattern(20040, 5)
    files, cases, n = {}, [], 0
    for cname, cargs, extras in SEED_EQ_CONFIGS:
        for extra in extras:
            St = S[:20000 + extra]
            d = os.path.join(root, f"t-{cname}-{extra}")
            os.makedirs(d)
            src, arc = os.path.join(d, "s.bin"), os.path.join(d, "a.cba")
            with open(src, "wb") as f:
                f.write(St)
            r = sh([bita, "compress", "--compression", "none", "-i", src, arc] + cargs)
            if r.returncode != 0:
                raise RuntimeError("compress failed: " + r.stderr.decode())
            with open(arc, "rb") as f:
                files[f"t-{cname}-{extra}.cba"] = f.read()
            cases.append((cname, extra, d, src, St))
    with RangeServer(files) as srv:
        for cname, extra, d, src, St in cases:
            for how in ("file", "stdin"):
                tag = f"seq={cname}-{extra:03d}{how}"
                argv = [bita, "clone", "--seed", src if how == "file" else "-", srv.url(f"t-{cname}-{extra}.cba", tag), os.path.join(d, f"out-{how}.bin")]
                r = sh(argv, stdin_data=St if how == "stdin" else None)
                n += 1
                reqs = [rg for (_t, rg) in srv.requests_for(tag)]
                detail = {"case": "seed == source over HTTP", "chunker": cname, "source_bytes": len(St), "seed_given_as": how, "requests": reqs}
                if r.returncode != 0:
                    viol.add("valid-clone-failed", dict(detail, stderr=r.stderr.decode()[-300:]))
                elif len(reqs) > 2:
                    viol.add(cls, detail)
    return n


def c07(ctx):
    """C07 at the command line: when nothing is missing no chunk-data request is made, whatever the chunker
    configuration the archive records."""
    t0 = time.time()
    root = tempfile.mkdtemp(prefix="verif-c07-")
    viol = Viol("c07")
    try:
        n = seed_equals_source_http(ctx["bita"], root, viol, "requests-differ-from-maximal-runs-of-missing-chunks")
    finally:
        shutil.rmtree(root, ignore_errors=True)
    # ... and the hand-picked in-place layouts / seed kinds of the C06 leg: requests == maximal runs of the missing words
    inp = _inplace(ctx, "C07", True)
    for c in inp["violation_classes"]:
        viol.add(c["class"], c["examples"][0] if c["examples"] else {})
    n += inp["coverage"]["evaluations"]
    cov = {"evaluations": n, "cli_seed_equals_source_cases": n - inp["coverage"]["evaluations"], "cli_in_place_layout_cases": inp["coverage"]["evaluations"], "exhaustive": True,
           "rule": "real binary over HTTP with the source itself as seed file / stdin seed, 5 chunker configurations (incl. minimum below window, non-default windows) x several source lengths: the maximal runs of missing chunks are empty, so no request beyond the two header reads is made"}
    return result(ctx["pid"], "exploration", cov, viol, t0, ["A5"])


def c06(ctx):
    res = _inplace(ctx, "C06", True)
    t0 = time.time()
    bita = ctx["bita"]
    root = tempfile.mkdtemp(prefix="verif-c06x-")
    viol = Viol("c06")
    n = 0
    try:
        # (a) rolling-hash archives whose last chunk is shorter than the minimum, cloned with the source itself as
        #     seed over HTTP: nothing but the header may be requested
        n += seed_equals_source_http(bita, root, viol, "available-chunk-fetched")
        # (b) a LOCAL archive: the byte ranges read from the archive file (strace) lie inside the header and the stored
        #     ranges of the chunks that are really missing
        import re
        words_src = words("ABCDEFGHAB") + b"xy"
        d = os.path.join(root, "local")
        os.makedirs(d)
        src, arc = os.path.join(d, "s.bin"), os.path.join(d, "a.cba")
        with open(src, "wb") as f:
            f.write(words_src)
        r = sh([bita, "compress", "--fixed-size", "4B", "--compression", "none", "-i", src, arc])
        if r.returncode != 0:
            raise RuntimeError("compress failed: " + r.stderr.decode())
        alen = os.path.getsize(arc)
        uniq = []
        for j in range(0, len(words_src), 4):
            w = words_src[j:j + 4]
            if w not in uniq:
                uniq.append(w)
        hdr = alen - sum(len(w) for w in uniq)
        offs = {}
        o = hdr
        for w in uniq:
            offs[w] = (o, o + len(w))
            o += len(w)
        for sname, seedb in (("no-seed", None), ("all-but-two", words("ABCDEFAB")), ("everything", words_src), ("only-tail-and-H", b"xy" + words("H"))):
            out, log = os.path.join(d, f"o-{sname}.bin"), os.path.join(d, f"{sname}.trace")
            argv = ["strace", "-f", "-qq", "-P", arc, "-e", "trace=read,pread64,lseek", "-o", log, bita, "clone"]
            if seedb is not None:
                sp = os.path.join(d, f"seed-{sname}.bin")
                with open(sp, "wb") as f:
                    f.write(seedb)
                argv += ["--seed", sp]
            r = sh(argv + [arc, out])
            n += 1
            have = set() if seedb is None else {seedb[j:j + 4] for j in range(0, len(seedb), 4)}
            allowed = [(0, hdr)] + [offs[w] for w in uniq if w not in have]
            pos, ranges = 0, []
            for line in open(log, errors="replace"):
                line = line.split(None, 1)[1] if line[:1].isdigit() else line
                if "= " not in line:
                    continue
                try:
                    ret = int(line.rsplit("= ", 1)[1].split()[0])
                except ValueError:
                    continue
                if line.startswith("lseek("):
                    pos = ret
                elif line.startswith("read(") and ret > 0:
                    ranges.append((pos, pos + ret))
                    pos += ret
                elif line.startswith("pread64(") and ret > 0:
                    m = re.search(r",\s*(\d+)\)\s*=", line)
                    if m:
                        ranges.append((int(m.group(1)), int(m.group(1)) + ret))
            detail = {"case": "local archive, seed " + sname, "header_bytes": hdr, "reads_of_the_archive_file": ranges[:12], "allowed": allowed}
            if r.returncode != 0:
                viol.add("valid-clone-failed", dict(detail, stderr=r.stderr.decode()[-300:]))
                continue
            stray = [rg for rg in ranges if not any(a <= rg[0] and rg[1] <= b for a, b in allowed)
                     # a run of adjacent missing chunks is read in one piece
                     and not all(any(a <= x < b for a, b in allowed) for x in range(rg[0], rg[1]))]
            if stray:
                viol.add("read-outside-header-and-missing-chunks", dict(detail, stray=stray[:6]))
    finally:
        shutil.rmtree(root, ignore_errors=True)
    res["coverage"]["evaluations"] += n
    res["coverage"]["tail_and_local_read_cases"] = n
    res["coverage"]["rule"] += "; plus archives of 5 chunker configurations (incl. minimum below window, non-default windows; 14 source lengths under RollSum so that the last chunk is shorter than the minimum) cloned over HTTP with the source itself as seed file / stdin seed: only the header is requested; plus a local archive under strace with 4 seeds: every byte read from the archive file lies in the header or in the stored range of a chunk that is really missing"
    res["violation_classes"] += viol.list()
    res["wall_s"] += time.time() - t0
    return res


# ------------------------------------------------------------------ C11: `bita info` reports what was requested

def c11(ctx):
    t0 = time.time()
    bita = ctx["bita"]
    root = tempfile.mkdtemp(prefix="verif-c11-")
    viol = Viol("c11")
    source = pattern(700, 5)
    src = os.path.join(root, "src.bin")
    with open(src, "wb") as f:
        f.write(source)
    mdfile = os.path.join(root, "md.bin")
    with open(mdfile, "wb") as f:
        f.write(bytes(range(256)) + b"tail")
    cases = []
    for hl in (4, 31, 64):
        for comp, lvl, cname in (("none", None, "None"), ("brotli", 3, "Brotli (level 3)"), ("brotli", 11, "Brotli (level 11)"), ("zstd", 5, "zstd (level 5)"), ("lzma", 2, "LZMA (level 2)")):
            for ch in ("fixed", "rollsum", "buzhash"):
                cases.append((hl, comp, lvl, cname, ch))
    distinct = set()
    samples = []

    def one(i):
        hl, comp, lvl, cname, ch = cases[i]
        arc = os.path.join(root, f"a{i}.cba")
        cmd = [bita, "compress", "--hash-length", str(hl), "--compression", comp]
        if lvl is not None:
            cmd += ["--compression-level", str(lvl)]
        expect = {"Chunk hash length": f"{hl} bytes", "Chunk compression": cname, "Source size": f"{len(source)} bytes",
                  "Source checksum": hashlib.blake2b(source, digest_size=64).hexdigest()}
        if ch == "fixed":
            cmd += ["--fixed-size", "96B"]
            expect.update({"Chunking algorithm": "Fixed Size", "Fixed chunk size": "96 bytes"})
        else:
            cmd += ["--hash-chunking", "RollSum" if ch == "rollsum" else "BuzHash", "--rolling-window-size", "12B", "--min-chunk-size", "20B", "--avg-chunk-size", "64B", "--max-chunk-size", "300B"]
            expect.update({"Chunking algorithm": "RollSum" if ch == "rollsum" else "BuzHash", "Rolling hash window size": "12 bytes",
                           "Chunk minimum size": "20 bytes", "Chunk maximum size": "300 bytes"})
        md = []
        if i % 3 == 0:
            cmd += ["--metadata-value", "zeta", "1", "--metadata-file", "alpha", mdfile]
            md = ["alpha(260)", "zeta(1)"]
        expect["Metadata"] = ", ".join(md) if md else "None"
        r = sh(cmd + ["-i", src, arc])
        detail = {"hash_len": hl, "compression": cname, "chunker": ch, "metadata": md}
        if r.returncode != 0:
            detail["stderr"] = r.stderr.decode()[-300:]
            viol.add("valid-compress-failed", detail)
            return None
        with open(arc, "rb") as f:
            ab = f.read()
        dict_size = int.from_bytes(ab[6:14], "little")
        hdr_len = 14 + dict_size + 72
        expect["Header checksum"] = ab[hdr_len - 64:hdr_len].hex()
        expect["Archive size"] = f"{len(ab)} bytes"
        if hashlib.blake2b(ab[:hdr_len - 64], digest_size=64).digest() != ab[hdr_len - 64:hdr_len]:
            viol.add("header-checksum-wrong", detail)
        r = sh([bita, "info", arc])
        if r.returncode != 0:
            viol.add("info-failed", detail)
            return None
        got = {}
        for line in r.stdout.decode().splitlines():
            if ":" in line:
                k, v = line.split(":", 1)
                got[k.strip()] = v.strip()
        bad = {k: (got.get(k), v) for k, v in expect.items() if got.get(k) != v and not (k == "Chunk maximum size" and got.get(k) is None)}
        # sizes >= 1024 are printed in KiB etc.; all expected values here are < 1024 except the archive size
        if "Archive size" in bad and not got.get("Archive size", "").endswith("bytes"):
            bad.pop("Archive size")
        if bad:
            detail["reported_vs_expected"] = bad
            viol.add("info-reports-different-values", detail)
        if md:
            r = sh([bita, "info", "--metadata-key", "alpha", arc])
            if r.returncode != 0 or r.stdout != bytes(range(256)) + b"tail":
                viol.add("metadata-value-not-returned-verbatim", detail)
        # the same archive inspected over HTTP reports the same values
        srv.files[f"a{i}.cba"] = ab
        local = sh([bita, "info", arc])
        remote = sh([bita, "info", srv.url(f"a{i}.cba")])
        if remote.returncode != 0 or remote.stdout != local.stdout:
            detail["remote_rc"] = remote.returncode
            viol.add("info-over-http-differs-from-local", detail)
        return (hl, cname, ch, bool(md))

    srv = RangeServer({})
    srv.start()
    try:
        with ThreadPoolExecutor(max_workers=16) as ex:
            for k in ex.map(one, range(len(cases))):
                if k:
                    distinct.add(k)
                    if len(samples) < 3:
                        samples.append({"hash_len": k[0], "compression": k[1], "chunker": k[2], "metadata": k[3]})
    finally:
        srv.stop()
    shutil.rmtree(root, ignore_errors=True)
    cov = {"evaluations": len(cases), "distinct_nontrivial": len(distinct), "exhaustive": True, "samples": samples,
           "rule": "real binary: hash length {4,31,64} x {none, brotli 3/11, zstd 5, lzma 2} x {fixed, rollsum, buzhash} (+ binary/str metadata on every 3rd): `bita info` must report exactly the requested hash length, compression and level, chunker parameters, metadata keys with sizes, the true source size and Blake2b-512, the stored header checksum (recomputed here) and the file length; --metadata-key returns the value verbatim; `bita info <url>` over HTTP prints exactly what `bita info <file>` prints"}
    return result(ctx["pid"], "exploration", cov, viol, t0, ["A5"])


# ------------------------------------------------------------------ C12: file vs pipe, buffers, repeated runs

def c12(ctx):
    t0 = time.time()
    bita = ctx["bita"]
    thorough = ctx["tier"] == "thorough"
    root = tempfile.mkdtemp(prefix="verif-c12-")
    viol = Viol("c12")
    groups = []
    for sname, sb in (("dup-words", words("ABACADAB") * 3), ("pattern", pattern(5000, 9)), ("empty", b""), ("zeros", b"\0" * 3000)):
        for cname, cargs in (("fixed", ["--fixed-size", "64B"]), ("rollsum", ["--hash-chunking", "RollSum", "--rolling-window-size", "16B", "--min-chunk-size", "32B", "--avg-chunk-size", "64B", "--max-chunk-size", "256B"]),
                             ("buzhash", ["--hash-chunking", "BuzHash", "--rolling-window-size", "8B", "--min-chunk-size", "16B", "--avg-chunk-size", "32B", "--max-chunk-size", "128B"])):
            for pname, pargs in (("none", ["--compression", "none"]), ("brotli", ["--compression", "brotli"])):
                groups.append((sname, sb, cname, cargs, pname, pargs))
    # several metadata entries (a map inside the dictionary: its encoding order must not vary)
    md = []
    for k in range(9):
        md += ["--metadata-value", f"key-{k * 7 % 9}", f"value {k}"]
    groups.append(("dup-words", words("ABACADAB") * 3, "fixed", ["--fixed-size", "64B"], "none+9-metadata-entries", ["--compression", "none"] + md))
    groups.append(("pattern", pattern(5000, 9), "rollsum", groups[2][3], "brotli+9-metadata-entries", ["--compression", "brotli"] + md))
    # chunks on both sides of 1 MiB in one run (encoder state carried from one chunk to the next would show): 6 runs of
    # 2 MiB of one byte each, then 2.3 MiB of irregular text; only buffered-chunks 2 and 8, file input
    import random
    rnd = random.Random("c12-large")
    vocab = [bytes(rnd.choice(b"abcdefghijklmnopqrstuvwxyz") for _ in range(rnd.randint(2, 11))) for _ in range(4000)]
    text = b" ".join(rnd.choice(vocab) for _ in range(420000))[:2300000]
    groups.append(("large-mixed", b"".join(bytes([65 + k]) * (2 << 20) for k in range(6)) + text, "rollsum-2MiB",
                   ["--hash-chunking", "RollSum", "--min-chunk-size", "16KiB", "--avg-chunk-size", "64KiB", "--max-chunk-size", "2MiB"], "brotli-large", ["--compression", "brotli"]))
    reps = 6 if thorough else 3
    runs = 0
    samples = []
    distinct = set()

    def one(gi):
        sname, sb, cname, cargs, pname, pargs = groups[gi]
        d = os.path.join(root, f"g{gi}")
        os.makedirs(d)
        src = os.path.join(d, "src.bin")
        with open(src, "wb") as f:
            f.write(sb)
        seen = {}
        n = 0
        large = pname == "brotli-large"
        for buffers in ((2, 8) if large else (1, 2, 3, 8, 64)):
            for inp in (("file",) if large else ("file", "stdin", "fifo", "dev-stdin")):
                for rep in range(reps if inp in ("file", "stdin") else 1):
                    if inp in ("fifo", "dev-stdin") and buffers not in (2, 64):
                        continue
                    arc = os.path.join(d, f"a-{buffers}-{inp}-{rep}.cba")
                    cmd = [bita, "compress", "--buffered-chunks", str(buffers)] + cargs + pargs
                    # runtime worker count: tokio honours TOKIO_WORKER_THREADS; rotate 1 / 2 / default
                    workers = [None, "1", "2"][(rep + buffers) % 3]
                    xenv = {"TOKIO_WORKER_THREADS": workers} if workers else {}
                    # ... and the rest of the environment must not leak into the archive either
                    xenv.update([{}, {"TZ": "Asia/Tokyo"}, {"LANG": "tr_TR.UTF-8", "LC_ALL": "tr_TR.UTF-8"}, {"RUST_LOG": "trace"},
                                 {"HOME": "/nonexistent", "USER": "someone-else", "TMPDIR": d}][(rep * 2 + buffers) % 5])
                    # thorough: perturb syscall timing of every 6th run (delay each write(2) by 300 us)
                    if thorough and (rep + buffers) % 6 == 5:
                        cmd = ["strace", "-f", "-qq", "-o", "/dev/null", "-e", "trace=write", "-e", "inject=write:delay_enter=300"] + cmd
                    if inp == "fifo":
                        # the input path is a named pipe: same bytes, not a regular file (no size to stat)
                        fifo = os.path.join(d, f"in-{buffers}.fifo")
                        os.mkfifo(fifo)
                        e2 = env()
                        if xenv:
                            e2.update(xenv)
                        p = subprocess.Popen(cmd + ["-i", fifo, arc], env=e2, stdin=subprocess.DEVNULL, stdout=subprocess.PIPE, stderr=subprocess.PIPE)

                        def feed(fifo=fifo):
                            try:
                                with open(fifo, "wb") as w:   # blocks until the command opens the pipe
                                    w.write(sb)
                            except OSError:
                                pass
                        import threading
                        th = threading.Thread(target=feed, daemon=True)
                        th.start()
                        try:
                            so, se = p.communicate(timeout=60)
                        except subprocess.TimeoutExpired:
                            p.kill()
                            so, se = p.communicate()
                        # a command that never opened the pipe leaves the feeder blocked: release it
                        try:
                            fd = os.open(fifo, os.O_RDONLY | os.O_NONBLOCK)
                            th.join(timeout=2)
                            os.close(fd)
                        except OSError:
                            pass
                        r = subprocess.CompletedProcess(cmd, p.returncode, so, se)
                        os.remove(fifo)
                    elif inp == "dev-stdin":
                        r = sh(cmd + ["-i", "/dev/stdin", arc], stdin_data=sb, extra_env=xenv)
                    else:
                        r = sh(cmd + (["-i", src, arc] if inp == "file" else [arc]), stdin_data=None if inp == "file" else sb, extra_env=xenv)
                    n += 1
                    if r.returncode != 0:
                        viol.add("valid-compress-failed", {"source": sname, "chunker": cname, "compression": pname, "buffers": buffers, "input": inp, "stderr": r.stderr.decode()[-200:]})
                        continue
                    with open(arc, "rb") as f:
                        h = hashlib.sha256(f.read()).hexdigest()
                    seen.setdefault(h, f"buffers={buffers} input={inp} run={rep}")
                    os.remove(arc)
        # history: a temp file left behind by an earlier failed run (larger than this run's chunk data)
        arc = os.path.join(d, "a-stale.cba")
        with open(os.path.join(d, "a-stale..tmp"), "wb") as f:
            f.write(b"stale chunk data " * 4096)
        r = sh([bita, "compress", "--buffered-chunks", "2"] + cargs + pargs + ["-i", src, arc])
        n += 1
        if r.returncode == 0:
            with open(arc, "rb") as f:
                seen.setdefault(hashlib.sha256(f.read()).hexdigest(), "stale temp file of an earlier failed run present")
        else:
            viol.add("valid-compress-failed", {"source": sname, "chunker": cname, "compression": pname, "history": "stale temp file", "stderr": r.stderr.decode()[-200:]})
        # history of the output path: --force-create over an existing, longer file
        arc = os.path.join(d, "a-over.cba")
        with open(arc, "wb") as f:
            f.write(b"an older, much longer archive " * 8192)
        r = sh([bita, "compress", "-f", "--buffered-chunks", "2"] + cargs + pargs + ["-i", src, arc])
        n += 1
        if r.returncode == 0:
            with open(arc, "rb") as f:
                seen.setdefault(hashlib.sha256(f.read()).hexdigest(), "--force-create over an existing longer file")
        else:
            viol.add("valid-compress-failed", {"source": sname, "chunker": cname, "compression": pname, "history": "-f over existing file", "stderr": r.stderr.decode()[-200:]})
        if len(seen) > 1:
            viol.add("archive-differs-between-runs", {"source": sname, "chunker": cname, "compression": pname, "variants": list(seen.values())})
        return n, (sname, cname, pname), list(seen)[:1]

    with ThreadPoolExecutor(max_workers=16) as ex:
        for n, key, h in ex.map(one, range(len(groups))):
            runs += n
            distinct.add((key, tuple(h)))
            if len(samples) < 3:
                samples.append({"source": key[0], "chunker": key[1], "compression": key[2], "archive_sha256": h})
    shutil.rmtree(root, ignore_errors=True)
    cov = {"evaluations": runs, "distinct_nontrivial": len(distinct), "groups": len(groups), "exhaustive": True, "samples": samples,
           "rule": "real binary on the real multi-thread runtime: for each of 24 (source, chunker, compression) groups the archive from buffered-chunks {1,2,3,8,64} x input {file, pipe} x 3 (thorough 6) repeated runs with TOKIO_WORKER_THREADS rotating over {default, 1, 2} (thorough: every 6th run with each write(2) delayed by 300 us through strace fault injection) one run started with a stale temp file of an earlier failed run in place and one --force-create run over an existing longer file, must be one byte string; non-trivial = distinct (group, archive) pairs"}
    return result(ctx["pid"], "exploration", cov, viol, t0, ["A5: repeated real runs sample the OS scheduler; the exhaustive schedule coverage is the in-process gate explorer's"])


# ------------------------------------------------------------------ C13: write log of the real binary (strace)

def big_chunks(bita, root, viol, cov):
    """Chunks larger than one write(2) of the runtime accepts (2 MiB): consecutive writes are merged,
    then every merged piece must be exactly one source chunk at its offset, once, never in place."""
    M = 1 << 20
    blocks = [bytes([65 + k]) * 7 + bytes((i * (k + 3)) % 251 for i in range(3 * M - 7)) for k in range(3)]
    source = blocks[0] + blocks[1] + blocks[2] + b"t" * M
    chunks = {0: 3 * M, 3 * M: 3 * M, 6 * M: 3 * M, 9 * M: M}
    d = os.path.join(root, "big")
    os.makedirs(d)
    src, arc = os.path.join(d, "src.bin"), os.path.join(d, "a.cba")
    with open(src, "wb") as f:
        f.write(source)
    r = sh([bita, "compress", "--fixed-size", "3MiB", "--compression", "none", "-i", src, arc])
    if r.returncode != 0:
        raise RuntimeError("compress failed: " + r.stderr.decode()[-300:])
    cov["large_chunk_cases"] = 0
    for name, prior, in_place in (("empty-output", b"", set()),
                                  ("swapped-blocks", blocks[1] + blocks[0] + blocks[2] + b"t" * M, {6 * M, 9 * M}),
                                  ("tail-differs", blocks[0] + blocks[1] + blocks[2] + b"x" * M, {0, 3 * M, 6 * M})):
        out = os.path.join(d, name + ".img")
        log = os.path.join(d, name + ".trace")
        with open(out, "wb") as f:
            f.write(prior)
        r = sh(["strace", "-f", "-qq", "-s", "0", "-P", out, "-e", "trace=lseek,write,read,pwrite64,pread64,ftruncate", "-o", log,
                bita, "clone", "--seed-output", arc, out], timeout=300)
        cov["large_chunk_cases"] += 1
        detail = {"case": "3 MiB chunks: " + name, "in_place": sorted(in_place)}
        if r.returncode != 0:
            viol.add("valid-clone-failed", dict(detail, stderr=r.stderr.decode()[-300:]))
            continue
        pos, seg, done = 0, None, []
        bad = None
        for line in open(log, errors="replace"):
            line = line.split(None, 1)[1] if line[:1].isdigit() else line
            if "= " not in line:
                continue
            try:
                ret = int(line.rsplit("= ", 1)[1].split()[0])
            except ValueError:
                continue
            if line.startswith("lseek("):
                pos = ret
            elif line.startswith("read("):
                pos += max(ret, 0)
            elif line.startswith(("pwrite64(", "pread64(")):
                bad = "unexpected-pwrite"
            elif line.startswith("write("):
                o, n = pos, max(ret, 0)
                pos += n
                cov["writes_observed"] += 1
                if seg is not None and o == seg[1] and (seg[1] - seg[0]) < chunks.get(seg[0], 0):
                    seg = (seg[0], seg[1] + n)
                else:
                    if seg is not None:
                        done.append(seg)
                    seg = (o, o + n)
        if seg is not None:
            done.append(seg)
        seen = set()
        for a, b in done:
            if b > len(source):
                bad = bad or "write-beyond-source-length"
            elif chunks.get(a) != b - a:
                bad = bad or "write-not-a-source-chunk-at-its-offset"
            elif a in in_place:
                bad = bad or "in-place-location-rewritten"
            elif a in seen:
                bad = bad or "location-written-twice"
            seen.add(a)
        if bad:
            viol.add(bad, dict(detail, merged_writes=done[:12]))
        elif open(out, "rb").read() != source:
            viol.add("success-with-wrong-output", detail)


def c13(ctx):
    t0 = time.time()
    bita = ctx["bita"]
    root = tempfile.mkdtemp(prefix="verif-c13-")
    viol = Viol("c13")
    cases = []
    for lay in LAYOUTS:
        cases.append((lay, "in-place", None))
        cases.append((lay, "new-file", None))
    for seedw in ("B-C", "DCBA", "--", "A"):
        cases.append((("seeded-" + seedw, "ABCDAB", ""), "new-file", seedw))
        cases.append((("seeded-inplace-" + seedw, "ABCDAB", "-B-"), "in-place", seedw))
    cases.append((("force-over-existing", "ABC", "ABXXXXXXXXXX"), "force", None))
    # every case once with full 64-byte chunk hashes and once with hashes truncated to 16 bytes
    # ... and each of those with and without --verify-output (a second pass over the output)
    cases = [c + (hl, vo) for c in cases for hl in (64, 16) for vo in (False, True)]
    distinct = set()
    samples = []
    cov = {"writes_observed": 0, "in_place_locations": 0}

    def one(i):
        (name, s, p), kind, seedw, hl, vo = cases[i]
        d = os.path.join(root, f"c{i}")
        os.makedirs(d)
        source, prior = words(s), words(p, 3)
        src, arc, out = os.path.join(d, "src.bin"), os.path.join(d, "a.cba"), os.path.join(d, "out.bin")
        with open(src, "wb") as f:
            f.write(source)
        r = sh([bita, "compress", "--fixed-size", "4B", "--compression", "none", "--hash-length", str(hl), "-i", src, arc])
        if r.returncode != 0:
            raise RuntimeError("compress failed")
        flags = []
        in_place = set()
        if kind == "in-place":
            with open(out, "wb") as f:
                f.write(prior)
            flags = ["--seed-output"]
            in_place = {j for j in range(0, len(source), 4) if prior[j:j + 4] == source[j:j + 4] and len(prior[j:j + 4]) == 4}
        elif kind == "force":
            with open(out, "wb") as f:
                f.write(prior)
            flags = ["-f"]
        if seedw is not None:
            sp = os.path.join(d, "seed.bin")
            with open(sp, "wb") as f:
                f.write(words(seedw, 5))
            flags += ["--seed", sp]
        if vo:
            flags = flags + ["--verify-output"]
        log = os.path.join(d, "trace.log")
        if kind == "new-file":
            open(out, "wb").close()  # strace -P needs an existing path; an empty file opened with -f... use seed-output on empty file
            flags = flags + ["--seed-output"] if "--seed-output" not in flags else flags
        r = sh(["strace", "-f", "-qq", "-s", "100000", "-P", out, "-e", "trace=lseek,write,read,pwrite64,pread64,ftruncate,truncate", "-o", log,
                bita, "clone"] + flags + [arc, out])
        detail = {"case": name, "source": s, "prior": p, "kind": kind, "seed": seedw, "hash_length": hl, "verify_output": vo}
        if r.returncode != 0:
            detail["stderr"] = r.stderr.decode()[-300:]
            viol.add("valid-clone-failed", detail)
            return None
        if open(out, "rb").read() != source:
            viol.add("success-with-wrong-output", detail)
            return None
        pos = 0
        written = set()
        nwrites = 0
        for line in open(log, errors="replace"):
            line = line.split(None, 1)[1] if line[:1].isdigit() else line
            if line.startswith("lseek("):
                if "= " in line and "SEEK_SET" in line:
                    pos = int(line.rsplit("= ", 1)[1].split()[0])
                elif "SEEK_END" in line or "SEEK_CUR" in line:
                    pos = int(line.rsplit("= ", 1)[1].split()[0])
            elif line.startswith("read("):
                n = int(line.rsplit("= ", 1)[1].split()[0])
                pos += max(n, 0)
            elif line.startswith("write("):
                n = int(line.rsplit("= ", 1)[1].split()[0])
                nwrites += 1
                o = pos
                pos += max(n, 0)
                data = source[o:o + n]
                cls = None
                if o + n > len(source):
                    cls = "write-beyond-source-length"
                elif o % 4 != 0 or n != 4 and not (o + n == len(source)):
                    cls = "write-not-a-source-chunk-at-its-offset"
                elif o in in_place:
                    cls = "in-place-location-rewritten"
                elif o in written:
                    cls = "location-written-twice"
                else:
                    # content check: strace prints the bytes; compare via the escaped literal
                    lit = line[line.index('"') + 1:line.rindex('"')]
                    try:
                        raw = bytes(lit, "latin-1").decode("unicode_escape").encode("latin-1")
                    except Exception:
                        raw = None
                    if raw is not None and raw != data:
                        cls = "write-not-a-source-chunk-at-its-offset"
                if cls:
                    detail["write_offset"] = o
                    detail["write_len"] = n
                    viol.add(cls, detail)
                    return None
                written.add(o)
            elif line.startswith("pwrite64("):
                viol.add("unexpected-pwrite", detail)
                return None
            elif line.startswith("ftruncate("):
                size = int(line.split(",")[1].split(")")[0])
                if size != len(source):
                    detail["ftruncate"] = size
                    viol.add("resized-to-wrong-length", detail)
                    return None
        return (name, kind, seedw), nwrites, len(in_place)

    with ThreadPoolExecutor(max_workers=8) as ex:
        for k in ex.map(one, range(len(cases))):
            if k:
                distinct.add(k[0])
                cov["writes_observed"] += k[1]
                cov["in_place_locations"] += k[2]
                if len(samples) < 4:
                    samples.append({"case": k[0][0], "kind": k[0][1], "seed": k[0][2], "writes": k[1], "in_place_locations": k[2]})
    big_chunks(bita, root, viol, cov)
    shutil.rmtree(root, ignore_errors=True)
    cov.update({"evaluations": len(cases) + cov.get("large_chunk_cases", 0), "distinct_nontrivial": len(distinct), "exhaustive": True, "samples": samples,
                "rule": "real binary under strace -P <output> (lseek/read/write/ftruncate): 11 prior layouts x {in place, onto an empty file} + seeded clones + forced overwrite, each with 64- and 16-byte hashes and with / without --verify-output; 3 MiB chunks (more than one write(2) takes: consecutive writes are merged before judging) onto an empty file and in place over swapped blocks; offsets are reconstructed from the lseek/read/write sequence; oracle: every write(2) on the output is one source chunk at its source offset, no location twice, no location the prior held in place, nothing beyond the source length, ftruncate to exactly the source length"})
    return result(ctx["pid"], "exploration", cov, viol, t0, ["A5; FixedSize(4) archives so that the expected chunking of the prior output is the aligned 4-byte grid"])


# ------------------------------------------------------------------ C09: the chunks found in a byte stream do not depend on its context

def c09(ctx):
    """Differential on the real binary: what the clone finds in a seed must not depend on the seeds given before or
    after it, and the same bytes must yield the same chunks whether they are the prior output (--seed-output) or a
    seed file. Read from the command's own report (bytes used from seeds)."""
    import re
    t0 = time.time()
    bita = ctx["bita"]
    root = tempfile.mkdtemp(prefix="verif-c09-")
    viol = Viol("c09")
    n = 0
    distinct = set()

    def used(r):
        m = re.search(r"and (?:[0-9.]+ [KMG]iB \()?(\d+) bytes\)? from seeds", r.stdout.decode(errors="replace"))
        return int(m.group(1)) if m else None

    try:
        S = pattern(40000, 3)
        chunkers = [("rollsum", ["--hash-chunking", "RollSum", "--rolling-window-size", "16B", "--min-chunk-size", "64B", "--avg-chunk-size", "256B", "--max-chunk-size", "1KiB"]),
                    ("buzhash", ["--hash-chunking", "BuzHash", "--rolling-window-size", "16B", "--min-chunk-size", "64B", "--avg-chunk-size", "256B", "--max-chunk-size", "1KiB"]),
                    ("fixed", ["--fixed-size", "512B"]),
                    # a minimum chunk size below the window size is a valid configuration too
                    ("rollsum-min-below-window", ["--hash-chunking", "RollSum", "--rolling-window-size", "64B", "--min-chunk-size", "16B", "--avg-chunk-size", "128B", "--max-chunk-size", "1KiB"]),
                    ("buzhash-min-below-window", ["--hash-chunking", "BuzHash", "--rolling-window-size", "48B", "--min-chunk-size", "8B", "--avg-chunk-size", "64B", "--max-chunk-size", "512B"])]
        # D0 for sources that end in a chunk shorter than the minimum (and shorter than one fixed chunk)
        for cname, cargs in chunkers:
            for extra in range(1, 40, 3):
                St = S[:20000 + extra]
                dd = os.path.join(root, f"tail-{cname}-{extra}")
                os.makedirs(dd)
                src, arc = os.path.join(dd, "s.bin"), os.path.join(dd, "a.cba")
                with open(src, "wb") as f:
                    f.write(St)
                r = sh([bita, "compress", "--compression", "none", "-i", src, arc] + cargs)
                if r.returncode != 0:
                    raise RuntimeError("compress failed: " + r.stderr.decode())
                r = sh([bita, "clone", "--seed", src, arc, os.path.join(dd, "o.bin")])
                n += 1
                u = used(r)
                if r.returncode != 0:
                    viol.add("valid-clone-failed", {"chunker": cname, "source_bytes": len(St), "stderr": r.stderr.decode()[-300:]})
                elif u != len(St):
                    viol.add("chunks-of-the-source-differ-between-compress-and-clone", {"chunker": cname, "source_bytes": len(St), "bytes_from_seed_equal_to_source": u})
                distinct.add((cname, "tail", extra))
                shutil.rmtree(dd, ignore_errors=True)
        for cname, cargs in chunkers:
            d = os.path.join(root, cname)
            os.makedirs(d)
            src, arc, B = os.path.join(d, "s.bin"), os.path.join(d, "a.cba"), os.path.join(d, "B.bin")
            for pth in (src, B):
                with open(pth, "wb") as f:
                    f.write(S)
            r = sh([bita, "compress", "--compression", "none", "-i", src, arc] + cargs)
            if r.returncode != 0:
                raise RuntimeError("compress failed: " + r.stderr.decode())
            r = sh([bita, "clone", "--seed", B, arc, os.path.join(d, "o-base")])
            base = used(r)
            if r.returncode != 0 or base is None:
                raise RuntimeError("baseline clone failed / report line not understood: " + r.stdout.decode()[-200:])
            # D0: re-chunking the source itself at clone time gives the chunks compress made: everything is found
            n += 1
            if base != len(S):
                viol.add("chunks-of-the-source-differ-between-compress-and-clone", {"chunker": cname, "source_bytes": len(S), "bytes_from_seed_equal_to_source": base})
            # D1: an unrelated seed before or after B changes nothing
            for k in (1, 63, 1001, 4097):
                A = os.path.join(d, f"A{k}.bin")
                with open(A, "wb") as f:
                    f.write(bytes((i * 7 + k) % 251 for i in range(k)))
                for order in ("A,B", "B,A", "A,A,B"):
                    seeds = []
                    for x in order.split(","):
                        seeds += ["--seed", A if x == "A" else B]
                    out = os.path.join(d, f"o-{k}-{order}")
                    r = sh([bita, "clone"] + seeds + [arc, out])
                    n += 1
                    u = used(r)
                    detail = {"chunker": cname, "unrelated_seed_bytes": k, "seed_order": order, "bytes_from_seeds": u, "with_B_alone": base}
                    if r.returncode != 0:
                        viol.add("valid-clone-failed", dict(detail, stderr=r.stderr.decode()[-300:]))
                    elif u != base:
                        viol.add("chunks-found-in-a-seed-depend-on-the-other-seeds", detail)
                    distinct.add((cname, k, order))
                    os.remove(out)
            # D2: the same bytes as prior output and as seed file
            for pname, P in (("junk+source+tail", bytes((i * 13 + 5) % 241 for i in range(3001)) + S + b"tail" * 300),
                             ("rotated", S[15000:] + S[:15000]),
                             ("first-half", S[:20000])):
                pf, po = os.path.join(d, f"P-{pname}.bin"), os.path.join(d, f"out-{pname}.bin")
                for pth in (pf, po):
                    with open(pth, "wb") as f:
                        f.write(P)
                r1 = sh([bita, "clone", "--seed", pf, arc, os.path.join(d, f"fresh-{pname}.bin")])
                u1 = used(r1)
                # ... whatever else is on the command line next to --seed-output
                for extra in ([], ["-f"], ["--verify-output"], ["--buffered-chunks", "1"], ["-f", "--verify-output", "--buffered-chunks", "3"]):
                    with open(po, "wb") as f:
                        f.write(P)
                    r2 = sh([bita, "clone", "--seed-output"] + extra + [arc, po])
                    n += 1
                    u2 = used(r2)
                    detail = {"chunker": cname, "bytes": pname, "other_options": extra, "bytes_used_as_seed_file": u1, "bytes_used_as_prior_output": u2}
                    if r1.returncode != 0 or r2.returncode != 0:
                        viol.add("valid-clone-failed", dict(detail, stderr=(r1.stderr + r2.stderr).decode()[-300:]))
                    elif u1 != u2:
                        viol.add("chunks-found-differ-between-seed-file-and-prior-output", detail)
                    distinct.add((cname, pname, tuple(extra)))
    finally:
        shutil.rmtree(root, ignore_errors=True)
    cov = {"evaluations": n, "cli_context_cases": n, "distinct_nontrivial": len(distinct), "exhaustive": True,
           "rule": "real binary, differential: a 40 kB source under {RollSum, BuzHash, FixedSize, RollSum / BuzHash with the minimum below the window}; a clone seeded with the source itself takes every byte from the seed (13 source lengths per chunker, so that the last chunk is shorter than the minimum); the bytes the clone reports as taken from seeds with seed B alone must equal those with an unrelated seed of 1 / 63 / 1001 / 4097 bytes given before B, after B, or twice before B; and the same bytes {junk+source+tail, rotated source, first half} must yield the same reuse as a seed file and as prior output (--seed-output alone and next to -f / --verify-output / --buffered-chunks)"}
    return result(ctx["pid"], "exploration", cov, viol, t0, ["A5; the command's own report line is the observation"])


# ------------------------------------------------------------------ C10 at the command line: shared data behind differing prefixes is found

def c10(ctx):
    """new = P1+S cloned with old = P2+S as seed file and as prior output (|P2| > |P1|, so S sits further back and the
    old data is longer than the new): once the boundaries have resynchronised every chunk of S is found, i.e. the
    bytes fetched from the archive are bounded by |P1| plus a few chunks."""
    import re
    t0 = time.time()
    bita = ctx["bita"]
    root = tempfile.mkdtemp(prefix="verif-c10-")
    viol = Viol("c10")
    n = 0
    distinct = set()

    def fetched(r):
        m = re.search(r"using (?:[0-9.]+ [KMG]iB \()?(\d+) bytes\)? from archive", r.stdout.decode(errors="replace"))
        return int(m.group(1)) if m else None

    try:
        S = pattern(60000, 17)
        P1 = bytes((i * 29 + 7) % 253 for i in range(4096))
        chunkers = [("rollsum", ["--hash-chunking", "RollSum", "--rolling-window-size", "16B", "--min-chunk-size", "64B", "--avg-chunk-size", "256B", "--max-chunk-size", "1KiB"], 1024),
                    ("buzhash", ["--hash-chunking", "BuzHash", "--rolling-window-size", "16B", "--min-chunk-size", "64B", "--avg-chunk-size", "256B", "--max-chunk-size", "1KiB"], 1024),
                    # a minimum chunk size below the window size is a valid configuration too
                    ("rollsum-min-below-window", ["--hash-chunking", "RollSum", "--rolling-window-size", "64B", "--min-chunk-size", "16B", "--avg-chunk-size", "128B", "--max-chunk-size", "1KiB"], 1024),
                    ("buzhash-min-below-window", ["--hash-chunking", "BuzHash", "--rolling-window-size", "48B", "--min-chunk-size", "8B", "--avg-chunk-size", "64B", "--max-chunk-size", "512B"], 512)]
        # the second kind of shared data has long constant runs: there the MAXIMUM chunk size places the boundaries, and
        # it has to be the same maximum whenever the data is chunked (compress, seed scan, output scan)
        S_runs = pattern(5000, 23) + b"\0" * 20000 + pattern(5000, 29) + b"\xff" * 15000 + pattern(15000, 31)
        chunkers = [(c[0] + k, c[1], c[2], sv) for c in chunkers for k, sv in (("", S), ("/runs", S_runs))]
        for cname, cargs, maxc, S in chunkers:
            d = os.path.join(root, cname.replace("/", "-"))
            os.makedirs(d)
            src, arc = os.path.join(d, "new.bin"), os.path.join(d, "a.cba")
            with open(src, "wb") as f:
                f.write(P1 + S)
            r = sh([bita, "compress", "--compression", "none", "-i", src, arc] + cargs)
            if r.returncode != 0:
                raise RuntimeError("compress failed: " + r.stderr.decode())
            bound = len(P1) + 4 * maxc
            for p2len in (4097, 5000, 9001, 20000):
                P2 = bytes((i * 31 + p2len) % 251 for i in range(p2len))
                for how in ("seed-file", "prior-output"):
                    old = os.path.join(d, f"old-{p2len}-{how}.bin")
                    with open(old, "wb") as f:
                        f.write(P2 + S)
                    if how == "seed-file":
                        r = sh([bita, "clone", "--seed", old, arc, os.path.join(d, f"out-{p2len}.bin")])
                    else:
                        r = sh([bita, "clone", "--seed-output", arc, old])
                    n += 1
                    fb = fetched(r)
                    detail = {"chunker": cname, "new_prefix_bytes": len(P1), "old_prefix_bytes": p2len, "shared_bytes": len(S), "old_data_given_as": how,
                              "bytes_fetched_from_archive": fb, "bound": bound}
                    if r.returncode != 0 or fb is None:
                        viol.add("valid-clone-failed", dict(detail, stderr=r.stderr.decode()[-300:]))
                    elif fb > bound:
                        viol.add("shared-data-behind-a-different-prefix-not-found", detail)
                    distinct.add((cname, p2len, how))
                    if how == "seed-file" and p2len in (4097, 9001):
                        # the old data found again must not depend on what was found before it: with a FIRST seed that
                        # already holds all of the new data but its last 2 KiB, no more may be fetched than with the old data alone
                        first = os.path.join(d, f"first-{p2len}.bin")
                        with open(first, "wb") as f:
                            f.write((P1 + S)[:-2048] + bytes((i * 17 + 3) % 239 for i in range(2048)))
                        r3 = sh([bita, "clone", "--seed", first, "--seed", old, arc, os.path.join(d, f"out2-{p2len}.bin")])
                        n += 1
                        fb3 = fetched(r3)
                        d3 = dict(detail, first_seed="the new data with its last 2 KiB replaced", bytes_fetched_with_both_seeds=fb3)
                        if r3.returncode != 0 or fb3 is None:
                            viol.add("valid-clone-failed", dict(d3, stderr=r3.stderr.decode()[-300:]))
                        elif fb3 > fb:
                            viol.add("shared-data-not-found-after-an-earlier-seed", d3)
    finally:
        shutil.rmtree(root, ignore_errors=True)
    cov = {"evaluations": n, "cli_resync_cases": n, "distinct_nontrivial": len(distinct), "exhaustive": True,
           "rule": "real binary: new = P1+S (4 KiB + 60 kB) cloned with old = P2+S, |P2| in {4097, 5000, 9001, 20000}, given as seed file and as prior output, RollSum and BuzHash, S irregular text or text with constant runs of 15-20 kB (boundaries placed by the maximum chunk size): the bytes fetched from the archive stay below |P1| + 4 maximal chunks (every chunk of S after the resynchronisation point is found); configurations incl. a minimum chunk size below the window; and with a first seed that already holds the new data but its last 2 KiB no more is fetched than with the old data alone"}
    return result(ctx["pid"], "exploration", cov, viol, t0, ["A5; the command's own report line is the observation"])


def replay(ctx, detail):
    fn = {"c07": c07, "c10": c10, "c09": c09, "c01": c01, "c02": c02, "c03": c03, "c06": c06, "c11": c11, "c12": c12, "c13": c13}[detail.get("function", "c01")]
    res = fn(dict(ctx, tier="quick"))
    return bool(res["violation_classes"])


if __name__ == "__main__":
    import json
    import sys
    fn = sys.argv[1]
    tier = sys.argv[2] if len(sys.argv) > 2 else "quick"
    r = {"c07": c07, "c10": c10, "c09": c09, "c01": c01, "c02": c02, "c03": c03, "c06": c06, "c11": c11, "c12": c12, "c13": c13}[fn]({"pid": fn.upper(), "tier": tier, "seed": 0, "bita": "/verif/build/bita/release/bita", "vh": "", "verif": "/verif", "build": "/verif/build"})
    print(json.dumps(r, indent=1)[:5000])
