"""C05, level L2: the real bita binary under an LD_PRELOAD fault injector (shim/verif_io.c).

For each clone scenario and output kind (regular file, loop block device) the number W of
write(2) calls on the output is learnt from a counting run; then for EVERY k in 1..W
  * the k-th write fails with EIO / ENOSPC / is short and the next one fails  -> exit status must be != 0
  * the k-th write is torn after t bytes (t in {0, 1, len/2, len-1, len}) and the process dies
    (_exit)  -> re-running `bita clone --seed-output` without the shim must succeed and leave the source.
This binds the library-level crash model (harness c05.rs) to the real tokio::fs::File behaviour,
where a write is acknowledged before it is performed.
"""
import hashlib
import os
import shutil
import subprocess
import tempfile
import time
from concurrent.futures import ThreadPoolExecutor

LEG = "c05l2"


def sh(cmd, env=None, stdin=None, timeout=60):
    return subprocess.run(cmd, env=env, stdin=stdin or subprocess.DEVNULL, stdout=subprocess.PIPE,
                          stderr=subprocess.PIPE, timeout=timeout)


def base_env():
    e = dict(os.environ)
    e["RUST_BACKTRACE"] = "0"
    e["SSL_CERT_FILE"] = "/dev/null"
    for k in list(e):
        if k.startswith("VERIF_IO_") or k == "LD_PRELOAD":
            del e[k]
    return e


SCENARIOS = [
    # name, compress args, source, prior output (None = absent), seed, clone flags
    ("plain", ["--fixed-size", "4B", "--compression", "none"], b"AAAABBBBCCCCDDDDEE", None, None, []),
    ("seeded", ["--fixed-size", "4B", "--compression", "none"], b"AAAABBBBCCCCDDDD", None, b"XXXXCCCCYYYYAAAA", []),
    ("in-place-moves", ["--fixed-size", "4B", "--compression", "none"], b"AAAABBBBCCCCDDDD", b"CCCCAAAAXXXXBBBBZZZZ", None, ["--seed-output"]),
    ("in-place-swap", ["--fixed-size", "4B", "--compression", "none"], b"AAAABBBBAAAACCCC", b"BBBBAAAA", None, ["--seed-output"]),
    # nothing to fetch: the last output write is a re-order move
    ("in-place-permutation-only", ["--fixed-size", "4B", "--compression", "none"], b"AAAABBBBCCCCDDDD", b"CCCCAAAADDDDBBBB", None, ["--seed-output"]),
    ("in-place-rotation-only", ["--fixed-size", "4B", "--compression", "none"], b"AAAABBBBCCCC", b"BBBBCCCCAAAA", None, ["--seed-output"]),
    ("force-over-existing", ["--fixed-size", "4B", "--compression", "none"], b"AAAABBBBCCCC", b"0123456789abcdefghij", None, ["-f"]),
    # chunks larger than one read(2)/write(2) of the runtime moves (2 MiB); B is needed twice, so a run that dies
    # between its two copies leaves a re-run that must copy 3 MiB from the output itself
    ("large-chunk-twice", ["--fixed-size", "3MiB", "--compression", "none"],
     (b"B" * 9 + bytes((i * 5) % 251 for i in range(3 * (1 << 20) - 9))) * 2 + b"C" * 11 + bytes((i * 11) % 249 for i in range(3 * (1 << 20) - 11)), None, None, []),
    # an update to a SMALLER image: the prior output is much longer than the source
    ("in-place-to-smaller", ["--fixed-size", "4B", "--compression", "none"], b"AAAABBBBCC", b"BBBBAAAAXXXXYYYYZZZZWWWW", None, ["--seed-output"]),
    # in place AND a seed file: the seed's chunk lands where a chunk sits that the output still needs elsewhere
    ("in-place-with-seed", ["--fixed-size", "4B", "--compression", "none"], b"ZZZZYYYYPPPPQQQQ", b"YYYYPPPPQQQQ", b"ZZZZ", ["--seed-output"]),
    ("in-place-with-seed-swap", ["--fixed-size", "4B", "--compression", "none"], b"AAAABBBBCCCC", b"BBBBAAAAXXXX", b"CCCCAAAA", ["--seed-output"]),
    # truncated chunk hashes together with a larger number of chunks in flight; a chunk needed twice
    ("dup-truncated-hash", ["--fixed-size", "4B", "--compression", "none", "--hash-length", "4"], b"AAAABBBBAAAACCCCBBBB", b"BBBB", None, ["--seed-output", "--buffered-chunks", "16"]),
    ("dup-truncated-hash-fresh", ["--fixed-size", "4B", "--compression", "none", "--hash-length", "5"], b"AAAABBBBAAAACCCC", None, None, ["--buffered-chunks", "9"]),
    ("brotli-16", ["--fixed-size", "16B", "--compression", "brotli"], b"x" * 16 + b"y" * 16 + bytes(range(16)) + b"x" * 16, b"y" * 16 + b"q" * 16, None, ["--seed-output"]),
]


def gen_scenarios(thorough):
    """Enumerated family: every source of <= 2/3 words over {A,B,C} (up to renaming), every prior output of
    <= 2/3 letters over {A,B,C,X} (and none), seeds {none, B, CA}; the output is updated in place when it
    exists. Hash length 64 / 4 and a 2-byte tail alternate with the scenario number."""
    import itertools
    n = 3 if thorough else 2
    letters = "ABCX" if thorough else "ABX"
    srcs = []
    for ln in range(1, n + 1):
        for t in itertools.product("ABC", repeat=ln):
            first = []
            for ch in t:
                if ch not in first:
                    first.append(ch)
            if first == sorted(first) and first[0] == "A" and all(ord(b) - ord(a) == 1 for a, b in zip(first, first[1:])):
                srcs.append("".join(t))
    priors = [None] + ["".join(t) for ln in range(0, n + 1) for t in itertools.product(letters, repeat=ln)]
    seeds = [None, "B", "CA"] if thorough else [None, "B"]
    out = []
    i = 0
    for s_, p_, e_ in itertools.product(srcs, priors, seeds):
        w = lambda x: b"".join(ch.encode() * 4 for ch in x)
        source = w(s_) + (b"EE" if i % 3 == 0 else b"")
        cargs = ["--fixed-size", "4B", "--compression", "none"] + (["--hash-length", "4"] if i % 2 else [])
        flags = [] if p_ is None else ["--seed-output"]
        out.append((f"gen:{s_}/{p_}/{e_}/{i % 6}", cargs, source, None if p_ is None else w(p_), None if e_ is None else w(e_), flags))
        i += 1
    return out


class Dev:
    """A loop device of 4 KiB (or None when unavailable)."""

    def __init__(self, dirpath, tag):
        self.img = os.path.join(dirpath, f"{tag}.img")
        with open(self.img, "wb") as f:
            f.write(b"\0" * 4096)
        r = sh(["losetup", "-f", "--show", self.img])
        if r.returncode != 0:
            raise RuntimeError("losetup failed: " + r.stderr.decode())
        self.path = r.stdout.decode().strip()
        self.rdev = os.stat(self.path).st_rdev

    def restore_node(self):
        # a command under test that unlinks its output removes the device node: put it back
        if not os.path.exists(self.path):
            import stat as _stat
            os.mknod(self.path, 0o660 | _stat.S_IFBLK, self.rdev)

    def fill(self, content):
        self.restore_node()
        with open(self.path, "r+b") as f:
            f.write((content or b"") + b"\0" * (4096 - len(content or b"")))
            f.flush()
            os.fsync(f.fileno())

    def read(self, n):
        self.restore_node()
        with open(self.path, "rb") as f:
            return f.read(n)

    def close(self):
        self.restore_node()
        sh(["losetup", "-d", self.path])


def run(ctx):
    t0 = time.time()
    bita = ctx["bita"]
    shim = os.path.join(ctx["build"], "verif_io.so")
    src_c = os.path.join(ctx["verif"], "shim", "verif_io.c")
    if not os.path.exists(shim) or os.path.getmtime(shim) < os.path.getmtime(src_c):
        r = sh(["gcc", "-O1", "-shared", "-fPIC", "-o", shim, src_c, "-ldl"])
        if r.returncode != 0:
            raise RuntimeError("cannot build shim: " + r.stderr.decode())
    thorough = ctx["tier"] == "thorough"
    root = tempfile.mkdtemp(prefix="verif-c05-")
    viol = {}
    cov = {"fault_runs": 0, "tear_runs": 0, "faults_injected": 0, "tears_injected": 0, "scenarios": 0,
           "output_kinds": [], "writes_per_scenario": {}}
    samples = []
    distinct = set()

    def add_viol(cls, detail):
        v = viol.setdefault(cls, {"class": cls, "count": 0, "examples": []})
        v["count"] += 1
        if len(v["examples"]) < 3:
            d = dict(detail)
            d["leg_module"] = LEG
            v["examples"].append(d)

    def one_scenario(idx_kind):
        idx, kind = idx_kind
        name, cargs, source, prior, seed, flags = ALL[idx]
        d = os.path.join(root, f"s{idx}-{kind}")
        os.makedirs(d)
        srcp, arc, seedp = os.path.join(d, "src.bin"), os.path.join(d, "a.cba"), os.path.join(d, "seed.bin")
        with open(srcp, "wb") as f:
            f.write(source)
        r = sh([bita, "compress"] + cargs + ["-i", srcp, arc], env=base_env())
        if r.returncode != 0:
            raise RuntimeError(f"compress failed for scenario {name}: {r.stderr.decode()}")
        if seed is not None:
            with open(seedp, "wb") as f:
                f.write(seed)
        dev = None
        if kind == "block":
            dev = Dev(d, "dev")
            outp = dev.path
        else:
            outp = os.path.join(d, "out.bin")
        local = {"fault_runs": 0, "tear_runs": 0, "faults_injected": 0, "tears_injected": 0}
        try:
            def reset():
                if dev:
                    dev.fill(prior)
                else:
                    if os.path.exists(outp):
                        os.remove(outp)
                    if prior is not None:
                        with open(outp, "wb") as f:
                            f.write(prior)

            def clone_cmd(extra_flags):
                c = [bita, "clone"] + extra_flags
                if "--buffered-chunks" not in extra_flags:
                    # the re-run after a crash keeps the scenario's setting
                    bc = flags[flags.index("--buffered-chunks") + 1] if "--buffered-chunks" in flags else "2"
                    c += ["--buffered-chunks", bc]
                if seed is not None:
                    c += ["--seed", seedp]
                return c + [arc, outp]

            def first_flags():
                fl = list(flags)
                if dev and "--seed-output" not in fl and "-f" not in fl:
                    fl.append("-f")  # a device always exists
                return fl

            def read_out():
                if dev:
                    return dev.read(len(source))
                with open(outp, "rb") as f:
                    return f.read()

            def shim_env(**kw):
                e = base_env()
                e["LD_PRELOAD"] = shim
                e["VERIF_IO_PATH"] = os.path.realpath(outp)
                for k, v in kw.items():
                    e["VERIF_IO_" + k] = str(v)
                return e

            # counting run
            reset()
            report = os.path.join(d, "report.txt")
            r = sh(clone_cmd(first_flags()), env=shim_env(REPORT=report))
            if r.returncode != 0 or read_out() != source:
                add_viol("valid-operation-failed", {"scenario": name, "kind": kind, "stderr": r.stderr.decode()[-300:]})
                return local, name, kind, []
            sizes = [int(x) for x in open(report).read().split()]
            w = len(sizes)
            for k in range(1, w + 1):
                ln = sizes[k - 1]
                for mode, tear in [("eio", 0), ("enospc", 0), ("short", 1)]:
                    reset()
                    r = sh(clone_cmd(first_flags()), env=shim_env(FAIL_AT=k, MODE=mode, TEAR=tear))
                    local["fault_runs"] += 1
                    local["faults_injected"] += 1
                    distinct.add((name, kind, k, mode))
                    if r.returncode == 0:
                        add_viol("failed-write-reported-as-success",
                                 {"scenario": name, "kind": kind, "write": k, "of": w, "mode": mode,
                                  "output_equals_source": read_out() == source})
                tears = sorted(set([0, 1, ln // 2, max(ln - 1, 0), ln])) if (not thorough or ln > 4096) else list(range(0, ln + 1))
                for t in tears:
                    reset()
                    r = sh(clone_cmd(first_flags()), env=shim_env(FAIL_AT=k, MODE="tear", TEAR=t))
                    local["tear_runs"] += 1
                    if r.returncode != 137:
                        raise RuntimeError(f"tear injection did not kill the process (status {r.returncode}) {name}/{kind} k={k} t={t}")
                    local["tears_injected"] += 1
                    distinct.add((name, kind, k, "tear", t))
                    # re-run in place without the shim (every other tear: with --verify-output as well - whoever checks
                    # the result of the completed clone must find it complete)
                    # (regular files only: on a device larger than the source --verify-output hashes the whole device)
                    fl = ["--seed-output"] + (["--verify-output"] if (k + t) % 2 == 1 and not dev else [])
                    r2 = sh(clone_cmd(fl), env=base_env())
                    detail = {"scenario": name, "kind": kind, "write": k, "of": w, "tear": t, "len": ln}
                    if r2.returncode != 0:
                        detail["stderr"] = r2.stderr.decode()[-300:]
                        add_viol("rerun-failed", detail)
                    elif read_out() != source:
                        detail["output"] = read_out()[:4096].hex()
                        add_viol("rerun-success-with-wrong-output", detail)
            return local, name, kind, sizes
        finally:
            if dev:
                dev.close()

    generated = gen_scenarios(thorough)
    ALL = SCENARIOS + generated
    cov["generated_scenarios"] = len(generated)
    kinds = ["file"]
    try:
        probe = Dev(root, "probe")
        probe.close()
        kinds.append("block")
    except Exception:
        cov["block_device"] = "unavailable: loop devices cannot be created here; block kind skipped"
    cov["output_kinds"] = kinds
    jobs = [(i, k) for i in range(len(SCENARIOS)) for k in kinds if not (k == "block" and len(SCENARIOS[i][2]) > 4096)]
    jobs += [(len(SCENARIOS) + i, "file") for i in range(len(generated))]
    try:
        with ThreadPoolExecutor(max_workers=16) as ex:
            for local, name, kind, sizes in ex.map(one_scenario, jobs):
                for k, v in local.items():
                    cov[k] += v
                cov["scenarios"] += 1
                if not name.startswith("gen:"):
                    cov["writes_per_scenario"][f"{name}/{kind}"] = sizes
                if len(samples) < 4 and sizes:
                    samples.append({"scenario": name, "output_kind": kind, "write_sizes": sizes,
                                    "faults": "k-th write: EIO | ENOSPC | short+EIO | torn after t bytes + _exit, for every k"})
    finally:
        shutil.rmtree(root, ignore_errors=True)
    cov["evaluations"] = cov["fault_runs"] + cov["tear_runs"]
    cov["distinct_nontrivial"] = len(distinct)
    cov["exhaustive"] = True
    cov["samples"] = samples
    cov["rule"] = ("real binary under LD_PRELOAD: every write index k of the uninterrupted run x {EIO, ENOSPC, short then EIO} must "
                   "give exit != 0; every k x tear offsets {0,1,len/2,len-1,len} (thorough: every offset) kills the process mid-write and "
                   "the in-place re-run must restore the source; scenarios plain / seeded / in-place with moves / in-place swap / "
                   "in-place permutation / rotation only (the last write is a move) / forced over existing / brotli / 3 MiB chunks with one needed twice, on a regular file and a loop block device; "
                   "plus the ENUMERATED family on regular files: every source of <= 2 (quick) / 3 (thorough) words up to renaming x every prior output of <= 2 / 3 letters over source words and junk (or none) x seeds {none, B, CA}, "
                   "hash length 64 / 4 and a short tail alternating - each with every write index x every fault / tear as above; non-trivial = distinct injected cases")
    return {"property_id": ctx["pid"], "level": "fault_enumeration", "coverage": cov,
            "assumptions": ["the shim intercepts write(2) through the PLT; bita's output writes all go through std::fs::File::write on the blocking pool"],
            "violation_classes": list(viol.values()), "wall_s": time.time() - t0}


def replay(ctx, detail):
    res = run(dict(ctx, tier="quick"))
    return any(v["class"] == detail.get("class", v["class"]) for v in res["violation_classes"]) or bool(res["violation_classes"])


if __name__ == "__main__":
    import json
    import sys
    tier = sys.argv[1] if len(sys.argv) > 1 else "quick"
    r = run({"pid": "C05", "tier": tier, "seed": 0, "bita": "/verif/build/bita/release/bita", "vh": "", "verif": "/verif", "build": "/verif/build"})
    print(json.dumps(r, indent=1)[:6000])
