"""C14 - "A refused operation leaves the output untouched" (real-binary leg).

The full finite grid
    command  in {clone from a local archive, clone from an http URL, compress}
    output   in {absent, regular file: empty / shorter / longer / identical / other,
                 block device large enough, block device smaller than the source}   (devices: clone only)
    flags    in {none, -f, --seed-output, -f --seed-output}                         (compress: none, -f)
    archive  in {valid, bad magic, flipped dictionary byte, truncated header,
                 wrong --verify-header, right --verify-header}                      (compress: input valid / missing)
is run against the real binary; existence, kind, size and sha256 of the output are taken before and
after every run (mtime is deliberately not compared).  Which cells are *refusals* is decided from
the property statement alone (`classify`), never from what bita does.

Block devices are real loop devices (`losetup`); when those cannot be had the verification hook
BITA_VERIF_BLOCKDEV (regular file takes the block-device code path) is used and reported.
The compress cells run under strace (helpers from c16.py) so that "temp file not even created on a
refused output" is observed and not only "not left behind".
"""
import concurrent.futures
import os
import random
import shutil
import stat
import subprocess
import sys
import tempfile
import threading
import time

sys.path.insert(0, os.path.dirname(os.path.abspath(__file__)))
import c16  # noqa: E402  (strace helpers, snapshot, build_archive)
from c16 import Machinery, sha  # noqa: E402
from httpserv import RangeServer  # noqa: E402

TIMEOUT = 30
WORKERS = 16
MAGIC = b"BITA1\0"

CLONE_STATES = ["absent", "empty", "shorter", "longer", "identical", "other", "blockdev-large", "blockdev-small"]
COMPRESS_STATES = ["absent", "empty", "shorter", "longer", "identical", "other"]
CLONE_FLAGS = [[], ["-f"], ["--seed-output"], ["-f", "--seed-output"]]
COMPRESS_FLAGS = [[], ["-f"]]
ARCHIVE_KINDS = ["valid", "bad-magic", "flipped-header-byte", "truncated-header", "wrong-verify-header",
                 # an expected checksum that is only a prefix of the right one, and the empty one (`--verify-header "$SUM"`
                 # with SUM unset): neither EQUALS the archive's checksum
                 "prefix-verify-header", "empty-verify-header",
                 "right-verify-header"]
INVALID_KINDS = {"bad-magic", "flipped-header-byte", "truncated-header", "wrong-verify-header", "prefix-verify-header",
                 "empty-verify-header"}
COMPRESS_INPUTS = ["valid-input", "missing-input"]

# source / archive variants: name -> (source length, compress arguments)
VARIANTS = {
    "A": (12 * 1024, ["--fixed-size", "1KiB", "--compression", "none"]),
    "B": (12 * 1024 + 512, ["--fixed-size", "1KiB", "--compression", "brotli"]),     # thorough
    "C": (7001, ["--fixed-size", "1KiB", "--compression", "none"]),                  # thorough: second size
}


# ------------------------------------------------------------------------------------------------
# the grid and the oracle's case classification (from the property statement only)
# ------------------------------------------------------------------------------------------------
def grid(tier):
    variants = ["A"] if tier == "quick" else ["A", "B", "C"]
    extras = [[]] if tier == "quick" else [[], ["--verify-output"]]
    clone_states = CLONE_STATES if tier == "quick" else CLONE_STATES[:2] + ["one-byte"] + CLONE_STATES[2:]
    compress_states = COMPRESS_STATES if tier == "quick" else COMPRESS_STATES[:2] + ["one-byte"] + COMPRESS_STATES[2:]
    cases = []
    for variant in variants:
        for command in ("clone-local", "clone-http"):
            for state in clone_states:
                for flags in CLONE_FLAGS:
                    for kind in ARCHIVE_KINDS:
                        for extra in extras:
                            cases.append({"command": command, "state": state, "flags": flags, "archive": kind,
                                          "variant": variant, "extra": extra})
        for inp in COMPRESS_INPUTS:
            # compress onto an existing block device is one more "output already exists" cell
            for state in compress_states + ["blockdev-large"]:
                for flags in COMPRESS_FLAGS:
                    cases.append({"command": "compress", "state": state, "flags": flags, "archive": inp,
                                  "variant": variant, "extra": []})
    # a block device named through a symbolic link (as under /dev/disk/by-*) is still a block device
    for command in ("clone-local", "clone-http"):
        for state in ("blockdev-small", "blockdev-large"):
            for flags in CLONE_FLAGS:
                cases.append({"command": command, "state": state, "flags": flags, "archive": "valid",
                              "variant": "A", "extra": [], "symlink": True})
    if tier == "quick":
        # no extra option may weaken the "output already exists" refusal
        for command in ("clone-local", "clone-http"):
            for state in ("empty", "shorter", "longer", "other"):
                cases.append({"command": command, "state": state, "flags": [], "archive": "valid",
                              "variant": "A", "extra": ["--verify-output"]})
        # the device-too-small refusal must compare with the SOURCE size: a compressible source whose
        # archive is much smaller than the device, in the quick tier as well
        for command in ("clone-local", "clone-http"):
            for flags in CLONE_FLAGS:
                for kind in ("valid", "right-verify-header"):
                    cases.append({"command": command, "state": "blockdev-small", "flags": flags, "archive": kind,
                                  "variant": "B", "extra": []})
    return cases


def classify(case):
    """-> the refusal rule of the property that applies ("R1".."R4"), "missing-input" (compress input
    absent: must fail, the output is not promised anything), or None (the operation must succeed)."""
    exists = case["state"] != "absent"
    if case["command"] == "compress":
        if exists and "-f" not in case["flags"]:
            return "R4"
        if case["archive"] == "missing-input":
            return "missing-input"
        return None
    if case["archive"] in INVALID_KINDS:
        return "R2"
    if exists and not case["flags"]:
        return "R1"
    if case["state"] == "blockdev-small":
        return "R3"
    return None


def cell_key(case):
    return (case["command"], case["state"] + ("-via-symlink" if case.get("symlink") else ""), " ".join(case["flags"]) or "none", case["archive"])


# ------------------------------------------------------------------------------------------------
# inputs
# ------------------------------------------------------------------------------------------------
def gen_source(seed, variant):
    """Patterned, compressible, every 1 KiB block different (no repeated chunk -> known defect F2,
    the in-place underflow on repeated chunks, stays out of this leg)."""
    n = VARIANTS[variant][0]
    salt = (seed * 31 + ord(variant)) & 0xFF
    return bytes(((i * 7 + (i >> 8) * 13 + (i >> 10) * 101 + salt) & 0xFF) for i in range(n))


def state_content(state, source, seed, variant):
    """Bytes of the pre-existing regular file / device for a state; None for absent."""
    rnd = random.Random("c14-%d-%s-%s" % (seed, variant, state))
    n = len(source)
    if state == "absent":
        return None
    if state == "empty":
        return b""
    if state == "one-byte":
        return b"\x5a"
    if state == "shorter":
        return source[:n * 5 // 12 - 120]
    if state == "longer":
        return source + bytes((i * 11 + 3) & 0xFF for i in range(3000))
    if state == "identical":
        return source
    if state == "other":
        return rnd.randbytes(max(1, n - 777))
    if state == "blockdev-large":
        return rnd.randbytes((n + 511) // 512 * 512 + 4096)
    if state == "blockdev-small":
        # the largest device (multiple of 512) that is still smaller than the source
        return rnd.randbytes(max(512, (n - 1) // 512 * 512))
    raise ValueError(state)


def header_length(archive):
    if archive[:6] != MAGIC:
        raise Machinery("setup: fresh archive has no BITA1 magic")
    return 14 + int.from_bytes(archive[6:14], "little") + 8 + 64


def archive_kinds(archive):
    """name -> archive bytes for every archive kind of the grid."""
    hl = header_length(archive)
    dict_len = hl - 14 - 72
    bad = bytearray(archive)
    bad[0] ^= 0x01
    flip = bytearray(archive)
    flip[14 + dict_len // 2] ^= 0x20
    out = {"valid": archive, "bad-magic": bytes(bad), "flipped-header-byte": bytes(flip),
           "truncated-header": archive[:14 + dict_len * 2 // 3],
           "wrong-verify-header": archive, "right-verify-header": archive,
           "prefix-verify-header": archive, "empty-verify-header": archive}
    return out


def wrong_checksum(hexsum):
    b = bytearray.fromhex(hexsum)
    if len(b) != 64:
        raise Machinery("setup: header checksum is not 64 bytes: %r" % hexsum)
    b[-1] ^= 0x01           # same length, differs in the very last byte only
    return b.hex()


# ------------------------------------------------------------------------------------------------
# block devices
# ------------------------------------------------------------------------------------------------
_loop_lock = threading.Lock()


def loop_attach(img):
    with _loop_lock:
        p = subprocess.run(["losetup", "-f", "--show", img], stdin=subprocess.DEVNULL, stdout=subprocess.PIPE,
                           stderr=subprocess.PIPE, timeout=TIMEOUT)
    if p.returncode != 0:
        raise OSError("losetup failed: %s" % p.stderr.decode("utf-8", "replace").strip())
    dev = p.stdout.decode().strip()
    if not dev.startswith("/dev/") or not stat.S_ISBLK(os.stat(dev).st_mode):
        raise OSError("losetup gave no block device: %r" % dev)
    _loop_rdev[dev] = os.stat(dev).st_rdev
    return dev


_loop_rdev = {}


def loop_restore_node(dev):
    """A command under test that unlinks its output removes the device NODE: put it back (the
    before/after comparison has already recorded the removal) so that the device can be detached."""
    if not os.path.exists(dev) and dev in _loop_rdev:
        try:
            os.mknod(dev, 0o660 | stat.S_IFBLK, _loop_rdev[dev])
        except OSError:
            pass


def loop_detach(dev):
    loop_restore_node(dev)
    for _ in range(20):
        with _loop_lock:
            p = subprocess.run(["losetup", "-d", dev], stdin=subprocess.DEVNULL, stdout=subprocess.PIPE,
                               stderr=subprocess.PIPE, timeout=TIMEOUT)
        if p.returncode == 0:
            return True
        time.sleep(0.05)
    return False


def probe_loop(root):
    """Can we make, read and detach a loop device? -> bool"""
    img = os.path.join(root, "probe.img")
    dev = None
    try:
        with open(img, "wb") as f:
            f.write(b"\xa5" * 4096)
        dev = loop_attach(img)
        with open(dev, "rb") as f:
            ok = f.read() == b"\xa5" * 4096
        return ok
    except (OSError, subprocess.SubprocessError):
        return False
    finally:
        if dev:
            loop_detach(dev)


def leftover_loops(root):
    """Loop devices whose backing file lives under root (should be none after a run)."""
    try:
        p = subprocess.run(["losetup", "-l", "-n", "-O", "NAME,BACK-FILE"], stdin=subprocess.DEVNULL,
                           stdout=subprocess.PIPE, stderr=subprocess.PIPE, timeout=TIMEOUT)
    except (OSError, subprocess.SubprocessError):
        return []
    out = []
    for ln in p.stdout.decode("utf-8", "replace").splitlines():
        parts = ln.split(None, 1)
        if len(parts) == 2 and parts[1].strip().startswith(root):
            out.append(parts[0])
    return out


# ------------------------------------------------------------------------------------------------
# observation of the output
# ------------------------------------------------------------------------------------------------
def probe_output(path):
    """-> {"exists", "kind", "size", "sha256"}; content is read through the path itself."""
    try:
        st = os.lstat(path)
    except FileNotFoundError:
        return {"exists": False, "kind": None, "size": None, "sha256": None}
    kind = ("blk" if stat.S_ISBLK(st.st_mode) else "file" if stat.S_ISREG(st.st_mode) else
            "dir" if stat.S_ISDIR(st.st_mode) else "link" if stat.S_ISLNK(st.st_mode) else "other")
    if kind in ("blk", "file"):
        with open(path, "rb") as f:
            data = f.read()
        return {"exists": True, "kind": kind, "size": len(data), "sha256": sha(data), "_data": data}
    if kind == "link":
        # an output named through a symbolic link (/dev/disk/by-*): what is behind it is what counts
        try:
            with open(path, "rb") as f:
                data = f.read()
            return {"exists": True, "kind": "link->" + os.readlink(path), "size": len(data), "sha256": sha(data), "_data": data}
        except OSError:
            return {"exists": True, "kind": "link->" + os.readlink(path), "size": None, "sha256": None}
    return {"exists": True, "kind": kind, "size": None, "sha256": None}


def public(p):
    return {k: v for k, v in p.items() if not k.startswith("_")}


# ------------------------------------------------------------------------------------------------
# one case
# ------------------------------------------------------------------------------------------------
def run_case(env_, idx, case):
    """-> (case, rule, violations [(class, info)], facts)"""
    bita = env_["bita"]
    var = env_["variants"][case["variant"]]
    source = var["source"]
    rule = classify(case)
    case_dir = os.path.join(env_["root"], "cases", "k%05d" % idx)
    os.makedirs(os.path.join(case_dir, "out"))
    is_dev = case["state"].startswith("blockdev")
    content = state_content(case["state"], source, env_["seed"], case["variant"])
    dev = None
    run_env = c16.child_env()
    facts = {"rule": rule, "rc": None, "block": None}
    try:
        # ---- pre-existing output ----------------------------------------------------------------
        if is_dev:
            if env_["block_device"] == "loop":
                img = os.path.join(env_["root"], "images", "k%05d.img" % idx)
                with open(img, "wb") as f:
                    f.write(content)
                try:
                    dev = loop_attach(img)
                except (OSError, subprocess.SubprocessError) as e:
                    raise Machinery("loop device vanished mid-run: %s" % e)
                output = dev
            else:
                output = os.path.join(case_dir, "out", "device.img")
                with open(output, "wb") as f:
                    f.write(content)
                run_env = c16.child_env({"BITA_VERIF_BLOCKDEV": "1"})
            facts["block"] = env_["block_device"]
            if case.get("symlink"):
                link = os.path.join(case_dir, "out", "by-label-link")
                os.symlink(output, link)
                output = link
        else:
            output = os.path.join(case_dir, "out", "output.cba" if case["command"] == "compress" else "output.img")
            if content is not None:
                with open(output, "wb") as f:
                    f.write(content)

        # ---- command ----------------------------------------------------------------------------
        stdin_data = None
        if case["command"] == "compress":
            os.makedirs(os.path.join(case_dir, "in"))
            inp = os.path.join(case_dir, "in", "input.bin")
            if case["archive"] == "valid-input":
                with open(inp, "wb") as f:
                    f.write(source)
            argv = [bita, "compress"] + VARIANTS[case["variant"]][1] + case["flags"] + case["extra"] + ["-i", inp, output]
            success_content_differs = True            # an archive never equals these pre-contents
        else:
            os.makedirs(os.path.join(case_dir, "arch"))
            argv = [bita, "clone"] + case["flags"] + case["extra"]
            if case["archive"] == "wrong-verify-header":
                argv += ["--verify-header", wrong_checksum(var["checksum"])]
            elif case["archive"] == "right-verify-header":
                argv += ["--verify-header", var["checksum"]]
            elif case["archive"] == "prefix-verify-header":
                argv += ["--verify-header", var["checksum"][:len(var["checksum"]) // 2]]
            elif case["archive"] == "empty-verify-header":
                argv += ["--verify-header", ""]
            if case["command"] == "clone-local":
                arch = os.path.join(case_dir, "arch", "a.cba")
                with open(arch, "wb") as f:
                    f.write(var["kinds"][case["archive"]])
                argv.append(arch)
            else:
                argv.append(env_["server"].url("%s-%s.cba" % (case["variant"], case["archive"]), "c14=k%05d" % idx))
            argv.append(output)
            success_content_differs = content is None or content[:len(source)] != source or \
                (not is_dev and len(content) != len(source))

        before = probe_output(output)
        dir_before = c16.snapshot(case_dir)
        obs = None
        if case["command"] == "compress":
            r = c16.observed_run(argv, case_dir, os.path.join(env_["root"], "logs", "k%05d.strace" % idx), env=run_env)
            rc, timed_out, stderr, obs = r["rc"], r["timed_out"], r["stderr"], r["obs"]
        else:
            try:
                p = subprocess.run(argv, cwd=case_dir, env=run_env, stdin=subprocess.DEVNULL, stdout=subprocess.PIPE,
                                   stderr=subprocess.PIPE, timeout=TIMEOUT)
                rc, timed_out, stderr = p.returncode, False, p.stderr
            except subprocess.TimeoutExpired as e:
                rc, timed_out, stderr = None, True, e.stderr or b""
        after = probe_output(output)
        dir_after = c16.snapshot(case_dir)
        facts["rc"] = rc
        facts["nontrivial"] = bool(rule in ("R1", "R2", "R3", "R4") and (not before["exists"] or success_content_differs))

        # ---- oracle -----------------------------------------------------------------------------
        v = []
        info = {"argv": argv[1:], "rc": rc, "before": public(before), "after": public(after),
                "stderr": stderr.decode("utf-8", "replace").split("Stack backtrace")[0][-300:]}
        if timed_out:
            v.append(("command-timeout", info))
        unchanged = (before["exists"] == after["exists"] and before["kind"] == after["kind"] and
                     before["size"] == after["size"] and before["sha256"] == after["sha256"])
        out_rel = os.path.relpath(output, case_dir) if not output.startswith("/dev/") else None
        side = [(p_, w) for p_, w in c16.snapshot_diff(dir_before, dir_after) if p_ != out_rel]
        temp_rel = os.path.relpath(c16.rust_with_extension(output, ".tmp"), case_dir) if case["command"] == "compress" else None

        if rule in ("R1", "R2", "R3", "R4"):
            if not timed_out and rc == 0:
                v.append(("exit-zero-on-refusal", info))
            if before["exists"] and not after["exists"]:
                v.append(("output-removed-on-refusal", info))
            elif before["exists"] and not unchanged:
                v.append(("output-modified-on-refusal", info))
            elif not before["exists"] and after["exists"]:
                v.append(("output-created-on-archive-refusal" if rule == "R2" else "output-created-on-refusal", info))
            for p_, w in side:
                cls = "temp-file-left-behind" if p_ == temp_rel else "side-file-left-on-refusal"
                v.append((cls, dict(info, path=p_, what=w)))
            if obs is not None:                      # compress refusal: nothing may even be created
                for o in obs["opens"]:
                    if o["write"] and o["ok"] and not c16.is_allowed_nonfile(o["path"]):
                        real = os.path.realpath(o["path"])
                        if real == os.path.realpath(os.path.join(case_dir, temp_rel)):
                            v.append(("temp-file-created-on-refusal", dict(info, path=o["path"], flags=o["flags"])))
                        elif real == os.path.realpath(output):
                            v.append(("output-opened-for-write-on-refusal", dict(info, path=o["path"], flags=o["flags"])))
                        else:
                            v.append(("foreign-file-written", dict(info, path=o["path"], flags=o["flags"])))
                for m in obs["mutations"]:
                    if m["ok"]:
                        v.append(("unexpected-" + m["kind"], dict(info, paths=m["paths"])))
        elif rule == "missing-input":
            if not timed_out and rc == 0:
                v.append(("exit-zero-on-refusal", info))
            # the property promises nothing about the output here: recorded, not flagged
            facts["missing_input_effect"] = ("unchanged" if unchanged else "created" if not before["exists"] else
                                             "removed" if not after["exists"] else
                                             "truncated-to-empty" if after["size"] == 0 else "modified")
            facts["missing_input_temp_left"] = any(p_ == temp_rel for p_, _ in side)
        else:
            # must succeed: guards against a grid in which everything is refused
            good = False
            if after["exists"] and "_data" in after:
                if case["command"] == "compress":
                    good = after["_data"][:6] == MAGIC and len(after["_data"]) > 14 + 72 and \
                        after["kind"] == ("file" if not is_dev else before["kind"])
                elif is_dev:
                    good = after["_data"][:len(source)] == source and after["size"] == before["size"] and \
                        after["kind"] == before["kind"]
                else:
                    good = after["_data"] == source and after["kind"] == "file"
            tolerated = False
            if (not timed_out and rc != 0 and good and is_dev and "--verify-output" in case["extra"]
                    and before["size"] > len(source) and b"Checksum mismatch" in stderr):
                # bita hashes the whole device, not the first source-size bytes: --verify-output on a device
                # larger than the source reports a mismatch although the clone is right. Not C14's business.
                tolerated = True
                facts["verify_output_larger_device_mismatch"] = True
            if not timed_out and (rc != 0 or not good) and not tolerated:
                v.append(("valid-operation-failed", dict(info, output_good=good)))
            for p_, w in side:
                if p_ == temp_rel:
                    v.append(("temp-file-left-behind", dict(info, path=p_, what=w)))
            if obs is not None:
                facts["temp_names"] = sorted({os.path.basename(o["path"]) for o in obs["opens"]
                                              if o["write"] and o["ok"] and os.path.realpath(o["path"]) != os.path.realpath(output)
                                              and not c16.is_allowed_nonfile(o["path"])})
        return case, rule, v, facts
    finally:
        if dev is not None:
            if not loop_detach(dev):
                env_["detach_failures"].append(dev)
        if not env_.get("keep"):
            shutil.rmtree(case_dir, ignore_errors=True)
            for leftover in (os.path.join(env_["root"], "images", "k%05d.img" % idx),
                             os.path.join(env_["root"], "logs", "k%05d.strace" % idx)):
                try:
                    os.remove(leftover)
                except OSError:
                    pass


# ------------------------------------------------------------------------------------------------
# environment shared by run() and replay()
# ------------------------------------------------------------------------------------------------
class Env:
    def __init__(self, ctx, seed, variants):
        self.ctx, self.seed, self.variant_names = ctx, seed, variants
        self.root = None
        self.server = None

    def __enter__(self):
        c16.trace_syscalls()                      # strace missing -> Machinery
        bita = self.ctx["bita"]
        if not os.access(bita, os.X_OK):
            raise Machinery("bita binary missing: %s" % bita)
        self.root = tempfile.mkdtemp(prefix="verif-c14-")
        try:
            for sub in ("cases", "logs", "setup", "images"):
                os.makedirs(os.path.join(self.root, sub))
            variants, files, attempts = {}, {}, {}
            for name in self.variant_names:
                source = gen_source(self.seed, name)
                archive, checksum, tries = c16.build_archive(bita, os.path.join(self.root, "setup", name), source,
                                                             VARIANTS[name][1])
                kinds = archive_kinds(archive)
                variants[name] = {"source": source, "archive": archive, "checksum": checksum, "kinds": kinds}
                attempts[name] = tries
                for kind, data in kinds.items():
                    files["%s-%s.cba" % (name, kind)] = data
            block = "loop" if (shutil.which("losetup") and probe_loop(self.root)) else "hook"
            if block == "hook":
                self._check_hook(bita, variants[self.variant_names[0]])
            self.server = RangeServer(files).start()
            self.env = {"bita": bita, "root": self.root, "server": self.server, "variants": variants,
                        "seed": self.seed, "block_device": block, "detach_failures": [],
                        "setup_attempts": attempts}
        except BaseException:
            self.__exit__(None, None, None)
            raise
        return self.env

    def _check_hook(self, bita, var):
        """The fallback only works in a hook build: a too-small regular file must be refused under the hook."""
        d = os.path.join(self.root, "setup", "hookprobe")
        os.makedirs(d)
        arch, out = os.path.join(d, "a.cba"), os.path.join(d, "dev.img")
        with open(arch, "wb") as f:
            f.write(var["archive"])
        with open(out, "wb") as f:
            f.write(b"\0" * 512)
        p = subprocess.run([bita, "clone", "-f", arch, out], env=c16.child_env({"BITA_VERIF_BLOCKDEV": "1"}),
                           stdin=subprocess.DEVNULL, stdout=subprocess.PIPE, stderr=subprocess.PIPE, timeout=TIMEOUT)
        if p.returncode == 0 or b"Size of output device" not in p.stderr:
            raise Machinery("no loop devices and the binary has no BITA_VERIF_BLOCKDEV hook")

    def __exit__(self, *exc):
        if self.server is not None:
            self.server.stop()
            self.server = None
        if self.root:
            for dev in leftover_loops(self.root):
                loop_detach(dev)
            shutil.rmtree(self.root, ignore_errors=True)
            self.root = None
        return False


def run(ctx):
    t0 = time.time()
    tier = ctx.get("tier", "quick")
    seed = int(ctx.get("seed", 0))
    cases = grid(tier)
    variants = sorted({c["variant"] for c in cases})
    with Env(ctx, seed, variants) as env_:
        with concurrent.futures.ThreadPoolExecutor(max_workers=WORKERS) as pool:
            futures = [pool.submit(run_case, env_, i, c) for i, c in enumerate(cases)]
            results = [f.result() for f in futures]
        block = env_["block_device"]
        http_requests = len(env_["server"].log)
        server_errors = list(env_["server"].errors)
        leftovers = leftover_loops(env_["root"])
        detach_failures = list(env_["detach_failures"])
        attempts = env_["setup_attempts"]
    if server_errors:
        raise Machinery("RangeServer reported errors: %r" % server_errors[:3])
    if leftovers or detach_failures:
        raise Machinery("loop devices could not be detached: %r" % (leftovers or detach_failures))

    classes = {}
    cells, nontrivial_cells = set(), set()
    by_rule = {}
    refusal_exit_codes = {}
    missing_input = {}
    temp_names = set()
    verify_dev = 0
    for case, rule, v, facts in results:
        cells.add(cell_key(case))
        by_rule[rule or "must-succeed"] = by_rule.get(rule or "must-succeed", 0) + 1
        if facts.get("nontrivial"):
            nontrivial_cells.add(cell_key(case))
        if rule is not None:
            k = str(facts["rc"])
            refusal_exit_codes[k] = refusal_exit_codes.get(k, 0) + 1
        if "missing_input_effect" in facts:
            k = "%s/%s -> %s%s" % (case["state"], " ".join(case["flags"]) or "none", facts["missing_input_effect"],
                                   " +temp-left" if facts.get("missing_input_temp_left") else "")
            missing_input[k] = missing_input.get(k, 0) + 1
        temp_names.update(facts.get("temp_names", []))
        verify_dev += 1 if facts.get("verify_output_larger_device_mismatch") else 0
        seen = set()
        for cls, info in v:
            c = classes.setdefault(cls, {"class": cls, "count": 0, "examples": []})
            if cls in seen:
                continue
            seen.add(cls)
            c["count"] += 1
            if len(c["examples"]) < 3:
                c["examples"].append({"leg_module": "c14", "class": cls, "seed": seed, "case": case, "rule": rule,
                                      "observed": info})
    samples = []
    for want in (("clone-local", "longer", "none", "valid"), ("clone-http", "absent", "-f --seed-output", "truncated-header"),
                 ("clone-local", "blockdev-small", "-f", "right-verify-header"), ("compress", "other", "none", "valid-input"),
                 ("clone-http", "shorter", "--seed-output", "valid"), ("clone-local", "other", "-f", "wrong-verify-header")):
        for case, rule, v, facts in results:
            if cell_key(case) == want:
                samples.append({"case": case, "rule": rule or "must-succeed", "rc": facts["rc"],
                                "nontrivial": facts.get("nontrivial", False), "violations": sorted({c for c, _ in v})})
                break
    coverage = {
        "evaluations": len(results),
        "distinct_nontrivial": len(nontrivial_cells),
        "distinct_cells": len(cells),
        "rule": "full grid {clone-local, clone-http} x output states x {none, -f, --seed-output, both} x {valid, bad magic,"
                " flipped dictionary byte, truncated header, wrong / right --verify-header} plus compress x {input valid, missing}"
                " x regular-file states x {none, -f} (thorough: x archive variants %s x {[], --verify-output}, plus a 1-byte"
                " output). A cell (command, output state, flags, archive kind) is non-trivial when the property makes it a refusal"
                " (R1 exists without -f/--seed-output, R2 invalid archive or header mismatch, R3 device too small, R4 compress"
                " output exists without -f) and either the output was absent (existence oracle) or its prior bytes differ from"
                " what a successful run would have written (so a write would be seen)" % variants,
        "samples": samples,
        "exhaustive": True,
        "block_device": block,
        "cases_by_rule": by_rule,
        "refusal_exit_codes": refusal_exit_codes,
        "http_requests": http_requests,
        "compress_missing_input_recorded_not_flagged": missing_input,
        "compress_temp_file_names_observed": sorted(temp_names),
        "verify_output_mismatch_on_larger_device_tolerated": verify_dev,
        "setup_archive_build_attempts": attempts,
    }
    assumptions = [
        "content is compared by sha256 + size + kind + existence, read through the path after the command exited; mtime is not compared",
        "refusal cells are decided from the property statement only (classify), not from bita's behaviour",
        "compress with a missing input file must exit non-zero, but what happens to the output is only recorded",
        "sources have no repeated chunk, so known defect F2 (in-place underflow) is not exercised here",
        "--verify-output on a block device larger than the source fails with 'Checksum mismatch' although the content is right"
        " (bita hashes the whole device); such runs are counted, not flagged, because the output content is what C14 is about",
    ]
    if block == "hook":
        assumptions.append("no loop device available: block devices are regular files under BITA_VERIF_BLOCKDEV (hook H1)")
    return {"property_id": ctx.get("pid", "C14"), "level": "exploration", "coverage": coverage,
            "assumptions": assumptions,
            "violation_classes": sorted(classes.values(), key=lambda c: c["class"]),
            "wall_s": round(time.time() - t0, 2)}


def replay(ctx, detail):
    case = detail["case"]
    seed = int(detail.get("seed", 0))
    with Env(ctx, seed, [case["variant"]]) as env_:
        _, _, v, _ = run_case(env_, 0, case)
        if env_["detach_failures"]:
            raise Machinery("loop device could not be detached: %r" % env_["detach_failures"])
    want = detail.get("class")
    return any(cls == want for cls, _ in v) if want else bool(v)


if __name__ == "__main__":
    import json
    tier_ = sys.argv[1] if len(sys.argv) > 1 else "quick"
    verif = os.path.dirname(os.path.dirname(os.path.abspath(__file__)))
    res = run({"pid": "C14", "tier": tier_, "seed": int(os.environ.get("VERIF_SEED", "0")),
               "bita": os.path.join(verif, "build", "bita", "release", "bita"),
               "vh": os.path.join(verif, "build", "harness", "release", "vh"),
               "verif": verif, "build": os.path.join(verif, "build")})
    print(json.dumps(res, indent=1))
