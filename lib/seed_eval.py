#!/usr/bin/env python3
"""Confirm a seeded property-breaking change in a scratch worktree (never in /repo):

  seed_eval.py <dir-with-diff-and-demo> <variant>     e.g.  seed_eval.py /root/work/seed/C03 a

1. the diff applies to a clean checkout of /repo's HEAD and the project builds,
2. the repository's own test suite (92 tests) still passes with it,
3. the demonstration fails with the change and passes without it.
Prints a JSON summary; exit 0 iff all three hold.
"""
import json
import os
import re
import shutil
import subprocess
import sys

WT = os.environ.get("EVAL_WT", "/root/work/wt/eval")


def sh(cmd, cwd=None, timeout=1800):
    return subprocess.run(cmd, cwd=cwd, stdout=subprocess.PIPE, stderr=subprocess.STDOUT, text=True, timeout=timeout,
                          env=dict(os.environ, CARGO_NET_OFFLINE="true", RUST_BACKTRACE="0"))


def ensure_wt():
    head = sh(["git", "-C", "/repo", "rev-parse", "HEAD"]).stdout.strip()
    if not os.path.isdir(WT):
        r = sh(["git", "-C", "/repo", "worktree", "add", "-q", "--detach", WT, head])
        if r.returncode != 0:
            raise SystemExit("cannot create worktree: " + r.stdout)
    sh(["git", "-C", WT, "checkout", "-q", "--detach", head])
    sh(["git", "-C", WT, "checkout", "--", "."])
    sh(["git", "-C", WT, "clean", "-fdq", "-e", "target"])


def suite(cwd):
    r = sh(["cargo", "test", "--workspace", "--no-fail-fast", "--offline"], cwd=cwd)
    passed = sum(int(m) for m in re.findall(r"test result: \w+\. (\d+) passed", r.stdout))
    failed = sum(int(m) for m in re.findall(r"test result: \w+\. \d+ passed; (\d+) failed", r.stdout))
    compiled = "error: could not compile" not in r.stdout and "error[" not in r.stdout
    return {"compiled": compiled, "passed": passed, "failed": failed, "tail": r.stdout[-600:] if (failed or not compiled) else ""}


def demo(d, variant, cwd):
    rs = os.path.join(d, f"{variant}_demo.rs")
    shf = os.path.join(d, f"{variant}_demo.sh")
    if os.path.exists(rs):
        dst = os.path.join(cwd, "bitar", "tests", f"seed_{variant}_demo.rs")
        shutil.copy(rs, dst)
        try:
            r = sh(["cargo", "test", "--offline", "-p", "bitar", "--features", "compress", "--test", f"seed_{variant}_demo"], cwd=cwd)
        finally:
            os.remove(dst)
        ok = r.returncode == 0 and "test result: ok" in r.stdout
        return {"kind": "rust-test", "holds": ok, "tail": r.stdout[-700:]}
    if os.path.exists(shf):
        b = sh(["cargo", "build", "--offline"], cwd=cwd)
        if b.returncode != 0:
            return {"kind": "shell", "holds": None, "tail": b.stdout[-500:]}
        r = sh(["bash", shf, os.path.join(cwd, "target", "debug", "bita")], cwd="/tmp", timeout=900)
        return {"kind": "shell", "holds": r.returncode == 0, "tail": r.stdout[-700:]}
    return {"kind": "missing", "holds": None, "tail": "no demonstration found"}


def main():
    d, variant = sys.argv[1], sys.argv[2]
    diff = os.path.join(d, f"{variant}.diff")
    ensure_wt()
    out = {"dir": d, "variant": variant}
    out["demo_without_change"] = demo(d, variant, WT)
    r = sh(["git", "-C", WT, "apply", diff])
    out["applies"] = r.returncode == 0
    if not out["applies"]:
        out["apply_error"] = r.stdout[-400:]
        print(json.dumps(out, indent=1))
        return 1
    out["files_changed"] = sh(["git", "-C", WT, "diff", "--stat"]).stdout.strip().splitlines()[-1:]
    out["suite_with_change"] = suite(WT)
    out["demo_with_change"] = demo(d, variant, WT)
    sh(["git", "-C", WT, "checkout", "--", "."])
    ok = (out["suite_with_change"]["compiled"] and out["suite_with_change"]["failed"] == 0 and out["suite_with_change"]["passed"] >= 92
          and out["demo_without_change"]["holds"] is True and out["demo_with_change"]["holds"] is False)
    out["confirmed"] = ok
    print(json.dumps(out, indent=1))
    return 0 if ok else 1


if __name__ == "__main__":
    sys.exit(main())
