#!/usr/bin/env python3
"""seed_prompt.py <v1> <v2> [ID ...] - write the red-team prompt of one round of seeded changes for each
property to $SEED_ROOT/<ID>.prompt.<v1><v2>.txt and (re)create the author's scratch worktree $WT_ROOT/<ID>.
The author gets the property's text and the one-line titles of the changes already kept under
/verif/seeded (as 'already taken'), nothing else from /verif."""
import glob, json, os, subprocess, sys

SEED = os.environ.get("SEED_ROOT", "/root/work/seed")
WT = os.environ.get("WT_ROOT", "/root/work/wt")
v1, v2 = sys.argv[1], sys.argv[2]
ids = sys.argv[3:] or [f"C{i:02d}" for i in range(1, 18)]
props = {}
for l in open("/verif/properties.jsonl"):
    d = json.loads(l)
    props[d["id"]] = d

TMPL = r'''You are a careful Rust engineer acting as a "red team": your job is to write realistic, subtle BUGS into a copy of an open-source project so that an independent verification effort can be evaluated. You work ONLY inside your own scratch git worktree of the project at __WT__/__ID__ (a checkout of oll3/bita: Rust CLI `bita` + library `bitar` for content-defined-chunked, compressed archives cloned over HTTP range requests, reusing seed data and reordering chunks in place) and write your deliverables to __SEED__/__ID__/. Do NOT read, list or use anything under /verif (it does not concern you), do not touch /repo, and do not use the network (there is none; build with `--offline`).

## The semantic property you must break

__PROP__

__NOTE__## Already taken - do NOT repeat these (earlier red teams delivered them; find different mechanisms AND different code sites)

__TAKEN__

Look for bugs of a different flavour than those: e.g. the wiring in the CLI layer (src/*.rs) versus the library, the interplay of two options, environment conditions (input from a pipe vs a file, an output that already exists / is a block device / is longer or shorter than the source, HTTP vs local archives, retries), numeric boundaries (sizes exactly equal to a limit, values around 2^16 / 2^32, chunk sizes equal to min / max / window), truncated hash lengths, duplicate chunks, empty inputs, very large inputs, ordering between phases of a command, state carried from one item of a stream to the next, behaviour that depends on which of two concurrently running pieces of work (blocking-pool tasks, buffered stream stages, file operations still in flight) finishes first, or on what an earlier, interrupted or failed run left behind. Files under __SEED__/__ID__/ with other letters belong to earlier teams: ignore them and do not overwrite them.

## What to deliver: TWO independent bug-introducing changes (variant __V1__ and variant __V2__)

Each variant is a small source change to the project (typically 1-15 lines in bitar/src/** or src/**) such that:
1. the project still compiles (`cargo build --offline` in the worktree) and the ENTIRE existing test suite still passes: run `cd __WT__/__ID__ && cargo test --workspace --no-fail-fast --offline 2>&1 | grep -E "^test result|FAILED|panicked"` and confirm every line says `ok` (92 tests in total). A change that makes an existing test fail is useless - discard it.
2. it breaks the property above for SOME inputs/schedules/fault sequences/histories, while ordinary simple use still works. Prefer bugs that need something specific to manifest: a particular interleaving or timing, a crash or I/O fault at a particular point, a multi-step sequence of operations, an unusual but valid input or configuration (boundary sizes, duplicate chunks, overlapping moves, truncated hash lengths, non-default options), or two cooperating sites that each look fine alone. Do NOT deliver bugs that any normal invocation would expose immediately (e.g. "always return an error", "always corrupt the output").
3. it looks like a plausible mistake or a well-meant "optimisation"/"refactoring" a real contributor could make (off-by-one, wrong variable, dropped `?`, reordered statements, wrong comparison, stale state not reset, removed flush/seek, cached value not invalidated...). Do not add comments that announce the bug. Do not touch tests, Cargo files, or anything guarded by `cfg(oll3_bita_verif)` (those are instrumentation hooks; leave them as they are).
4. the two variants use DIFFERENT mechanisms / code sites.

For each variant write into __SEED__/__ID__/:
- `__V1__.diff` / `__V2__.diff`: the change as a unified diff produced by `git -C __WT__/__ID__ diff` (relative to the unmodified worktree HEAD; it must apply with `git apply` to a clean checkout). Produce variant __V1__, save the diff, `git -C __WT__/__ID__ checkout -- .`, then produce variant __V2__ the same way, so the two diffs are independent.
- a DEMONSTRATION that fails with the change and passes without it: either a Rust integration test file `__V1___demo.rs` / `__V2___demo.rs` that can be dropped into __WT__/__ID__/bitar/tests/ and is run with `cargo test --offline -p bitar --features compress --test <name>` (library-level; look at the existing files there and at bitar/tests/common.rs for style; dev-dependencies available: tokio with macros/rt-multi-thread/fs, tempfile, rand, hyper, hyper-util, http-body-util), or - for CLI-level behaviour - a shell script `__V1___demo.sh` / `__V2___demo.sh` that builds nothing itself but takes the path of a built `bita` binary as $1 (you can build one with `cargo build --offline` -> __WT__/__ID__/target/debug/bita), sets up files in a fresh `mktemp -d`, runs the scenario, and exits 0 iff the property holds for that scenario (non-zero iff violated); python3 is available to a script (e.g. for a small HTTP range server). A `#[cfg(test)]` module inside src/ is NOT wanted. A demo may need a loop/repetition to hit a timing window; make it deterministic if at all possible (e.g. inject the fault or choose the input so that it always manifests). You MUST actually run each demo against the unmodified worktree (must pass) and against the modified one (must fail) and report both outputs.
- `__V1___notes.md` / `__V2___notes.md`: first line a one-line title `# __ID__ variant <letter> - <what the change is>`, then 5-15 lines: what the change is, why existing tests still pass, what exactly is needed for it to manifest (input / configuration / fault / schedule / sequence), and the observable consequence in terms of the property.

Three more rules. (1) The change must break the property AS STATED, not vacuously: a change that merely moves the boundary of the property's premise (e.g. makes an input count as valid/invalid, or empties the set the statement quantifies over) does not count. (2) Keep every message you write short (a few hundred words at most) and never paste whole files or long logs into a message; write long content to files instead. (3) Safety: neither the change nor the demonstration may delete, truncate or overwrite anything outside the scenario's own temporary directory (no removal of device nodes, nothing under /dev, /root, /repo, /verif), whatever the failure mode.

When you are done, leave the worktree clean (`git -C __WT__/__ID__ checkout -- . && git -C __WT__/__ID__ status --short` prints nothing; remove any test files you dropped into it) and reply with a short summary of both variants (files changed, trigger, demo results with and without the change, confirmation that all 92 existing tests pass with each change).
'''

head = subprocess.run(["git", "-C", "/repo", "rev-parse", "HEAD"], capture_output=True, text=True).stdout.strip()
os.makedirs(SEED, exist_ok=True)
os.makedirs(WT, exist_ok=True)
for pid in ids:
    taken = []
    for d in sorted(glob.glob(f"/verif/seeded/{pid}?")):
        n = os.path.join(d, "notes.md")
        t = open(n).read().strip().splitlines()[0].lstrip("# ").strip() if os.path.exists(n) and open(n).read().strip() else os.path.basename(d)
        files = ", ".join(sorted({l.split("|")[0].strip() for l in subprocess.run(["git", "apply", "--stat", os.path.join(d, "patch.diff")], capture_output=True, text=True, cwd="/repo").stdout.splitlines() if "|" in l}))
        taken.append(f"- {t} ({files})")
    # changes of a round that is still being trialled (not yet under /verif/seeded)
    stored = {os.path.basename(d)[-1] for d in glob.glob(f"/verif/seeded/{pid}?")}
    for n in sorted(glob.glob(f"{SEED}/{pid}/?_notes.md")):
        letter = os.path.basename(n)[0]
        if letter in stored or letter in (v1, v2) or not open(n).read().strip():
            continue
        t = open(n).read().strip().splitlines()[0].lstrip("# ").strip()
        files = ", ".join(sorted({l.split("|")[0].strip() for l in subprocess.run(["git", "apply", "--stat", f"{SEED}/{pid}/{letter}.diff"], capture_output=True, text=True, cwd="/repo").stdout.splitlines() if "|" in l}))
        taken.append(f"- {t} ({files})")
    p = props[pid]
    note = ""
    if pid == "C15":
        note = ("NOTE for this property: the current code base already has a few KNOWN crash sites for hostile chunker parameters in a checksum-valid header (filter bits 0 or >= 31, window size 0 or huge, min > max, fixed size 0, a corrupted dictionary-size field, stored size 0 over HTTP). Do not re-introduce or merely vary those: introduce NEW ways in which a hostile archive or server makes bita panic, abort, hang or allocate without bound.\n\n")
    t = (TMPL.replace("__PROP__", f"{pid}: {p['title']}\n\n{p['statement']}").replace("__NOTE__", note).replace("__TAKEN__", "\n".join(taken))
         .replace("__V1__", v1).replace("__V2__", v2).replace("__ID__", pid).replace("__SEED__", SEED).replace("__WT__", WT))
    open(f"{SEED}/{pid}.prompt.{v1}{v2}.txt", "w").write(t)
    os.makedirs(f"{SEED}/{pid}", exist_ok=True)
    wt = f"{WT}/{pid}"
    if not os.path.isdir(wt):
        subprocess.run(["git", "-C", "/repo", "worktree", "add", "-q", "--detach", wt, head], check=True)
    else:
        subprocess.run(["git", "-C", wt, "checkout", "-q", "--detach", head])
        subprocess.run(["git", "-C", wt, "checkout", "--", "."])
        subprocess.run(["git", "-C", wt, "clean", "-fdq", "-e", "target"])
    print(pid, len(t), "bytes,", len(taken), "taken")
