#!/usr/bin/env python3
"""seed_trial.py <dir> <variant> [tier] [ID ...] - apply <dir>/<variant>.diff to /repo, run the checks
(all properties by default), revert. Prints/records which checks report a violation."""
import json, os, subprocess, sys, time
d, v = sys.argv[1], sys.argv[2]
tier = sys.argv[3] if len(sys.argv) > 3 and sys.argv[3] in ("quick", "thorough") else "quick"
ids = [a for a in sys.argv[3:] if a not in ("quick", "thorough")] or [f"C{i:02d}" for i in range(1, 18)]
diff = os.path.join(d, f"{v}.diff")
# /repo is shared with whoever runs checks on the unchanged tree: hold a lock while it carries the change
import fcntl
_lock = open("/root/work/seed/repo.lock", "w")
fcntl.flock(_lock, fcntl.LOCK_EX)
assert subprocess.run(["git", "-C", "/repo", "status", "--porcelain", "-uno"], capture_output=True, text=True).stdout.strip() == "", "/repo not clean"
r = subprocess.run(["git", "-C", "/repo", "apply", diff], capture_output=True, text=True)
if r.returncode != 0:
    print("patch does not apply:", r.stderr); sys.exit(2)
res = {}
try:
    for pid in ids:
        t0 = time.time()
        p = subprocess.run([os.environ.get("VERIF_CHECK", "/verif/check"), pid, tier], capture_output=True, text=True)
        viol = [l for l in p.stdout.splitlines() if l.startswith("VIOLATION")]
        mach = [l for l in p.stdout.splitlines() if l.startswith("MACHINERY")]
        classes = sorted({os.path.basename(l.split("replay=")[1]).rsplit("-", 1)[0] for l in viol if "replay=" in l})
        res[pid] = {"rc": p.returncode, "classes": classes, "machinery": mach[:1], "s": round(time.time() - t0, 1)}
        print(pid, p.returncode, classes, mach[:1], flush=True)
finally:
    subprocess.run(["git", "-C", "/repo", "checkout", "--", "."])
out = os.path.join(d, f"{v}.trial.{tier}{os.environ.get('TRIAL_TAG', '')}.json")
if os.path.exists(out):
    old = json.load(open(out))
    old.update(res)
    res = old
json.dump(res, open(out, "w"), indent=1)
print("detected by:", [k for k, x in res.items() if x["rc"] == 1])
