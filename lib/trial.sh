#!/bin/bash
# usage: trial.sh <patch-file> <ID>...   apply a patch to /repo, run quick checks, revert
set -u
P=$1; shift
git -C /repo apply "$P" || { echo "patch does not apply"; exit 2; }
for id in "$@"; do
  out=$(/verif/check $id ${TIER:-quick} 2>&1); rc=$?
  echo "$id rc=$rc $(echo "$out" | grep -E 'VIOLATION|MACHINERY' | head -2 | cut -c1-200)"
done
git -C /repo checkout -- .
