"""Explicit-state search over command HISTORIES on the real binary (legs of C01 C03 C05 C12 C14 C16).

The CLI grid (cligrid.py) starts every cell from a state that the test wrote; this leg starts from
the states the tool itself leaves behind. A state is the content of a working directory; a
transition runs ONE real command (in a fresh copy of that directory):

  c1    bita compress -i v1.bin a.cba                  (no -f)
  c2f   bita compress -f -i v2.bin a.cba
  c1f   bita compress -f -i v1.bin a.cba
  c2fx  bita compress -f -i v2.bin a.cba     killed inside its 1st write(2) to the archive (3 bytes written):
                                              leaves a broken archive and the temp file of chunk data
  k     bita clone a.cba out.img
  kf    bita clone -f a.cba out.img
  ks    bita clone --seed-output a.cba out.img
  ksv   bita clone --seed-output --verify-output --seed v1.bin a.cba out.img
  kfx   bita clone -f a.cba out.img          killed inside its 2nd write(2) to the output (LD_PRELOAD shim)
  ksx   bita clone --seed-output a.cba out.img   killed inside its 1st write(2) to the output

Breadth-first from the empty directory (only the two sources v1 / v2 present), states deduplicated
by a hash of the directory content, to the depth of the tier (or until no new state appears). A
small model (which version the archive holds, whether an output exists) says what every transition
must do; each departure is a class of exactly one property:

  C14  a refusal (compress onto an existing archive without -f, clone onto an existing output without
       -f / --seed-output, any clone without an archive or of the broken one) exits non-zero and leaves the directory as it was
  C12  a.cba always equals the archive of that source written in an empty directory, whatever happened before
  C16  the directory never holds anything but v1.bin, v2.bin, a.cba, out.img (and the temp file after a killed
       compress, until the next successful compress, which must remove it)
  C05  from a state left by a killed clone, a clone that reports success has produced the source (and
       the in-place re-run does succeed)
  C03  an in-place clone that reports success has produced the source
  C01  any other clone that reports success has produced the source the archive was made from
"""
import hashlib
import os
import shutil
import subprocess
import tempfile
import time
from concurrent.futures import ThreadPoolExecutor

LEG = "clihist"
FACETS = {
    "C14": ("hist-refusal-expected-but-exit-zero", "hist-refused-but-directory-changed"),
    "C12": ("hist-archive-depends-on-history", "hist-valid-compress-failed"),
    "C16": ("hist-unexpected-file-in-directory", "hist-temp-file-left-behind"),
    "C05": ("hist-rerun-after-interruption-wrong-output", "hist-rerun-after-interruption-failed"),
    "C03": ("hist-in-place-success-with-wrong-output", "hist-valid-in-place-clone-failed"),
    "C01": ("hist-success-with-wrong-output", "hist-valid-clone-failed"),
}
COMMANDS = ["c1", "c2f", "c1f", "c2fx", "k", "kf", "ks", "ksv", "kfx", "ksx"]
ALLOWED = {"v1.bin", "v2.bin", "a.cba", "out.img"}


def words(s):
    return b"".join((b"\0" if ch == "0" else ch.encode()) * 4 for ch in s)


CONFIGS = [
    # name, compress options, v1, v2
    ("fixed4-hl8", ["--fixed-size", "4B", "--compression", "none", "--hash-length", "8"], words("ABCDAB0F") + b"xy", words("BA0DEFABGG")),
    ("rollsum-brotli", ["--hash-chunking", "RollSum", "--rolling-window-size", "16B", "--min-chunk-size", "32B", "--avg-chunk-size", "64B", "--max-chunk-size", "256B",
                        "--compression", "brotli", "--compression-level", "3", "--hash-length", "12"], None, None),
]


def pattern(n, salt=1):
    out = bytearray()
    x = salt * 2654435761 % (1 << 32)
    while len(out) < n:
        x = (x * 1103515245 + 12345) % (1 << 31)
        out += bytes([65 + (x >> 8) % 6]) * 3 + bytes([48 + (x >> 16) % 10])
    return bytes(out[:n])


def base_env():
    e = dict(os.environ)
    e["RUST_BACKTRACE"] = "0"
    e["SSL_CERT_FILE"] = "/dev/null"
    for k in list(e):
        if k.startswith("VERIF_IO_") or k == "LD_PRELOAD":
            del e[k]
    return e


def sh(cmd, cwd, env=None, timeout=60):
    return subprocess.run(cmd, cwd=cwd, env=env or base_env(), stdin=subprocess.DEVNULL, stdout=subprocess.PIPE, stderr=subprocess.PIPE, timeout=timeout)


def snap(d):
    out = {}
    for name in sorted(os.listdir(d)):
        p = os.path.join(d, name)
        if os.path.isfile(p) and not os.path.islink(p):
            with open(p, "rb") as f:
                out[name] = f.read()
        else:
            out[name] = b"<not a regular file>"
    return out


def key_of(s):
    h = hashlib.sha256()
    for k in sorted(s):
        h.update(k.encode() + b"\0" + hashlib.sha256(s[k]).digest())
    return h.hexdigest()


def ensure_shim(ctx):
    shim = os.path.join(ctx["build"], "verif_io.so")
    src_c = os.path.join(ctx["verif"], "shim", "verif_io.c")
    if not os.path.exists(shim) or os.path.getmtime(shim) < os.path.getmtime(src_c):
        os.makedirs(ctx["build"], exist_ok=True)
        r = subprocess.run(["gcc", "-O1", "-shared", "-fPIC", "-o", shim, src_c, "-ldl"], stdout=subprocess.PIPE, stderr=subprocess.PIPE)
        if r.returncode != 0:
            raise RuntimeError("cannot build shim: " + r.stderr.decode())
    return shim


class Viol:
    def __init__(self):
        self.v = {}

    def add(self, cls, detail):
        e = self.v.setdefault(cls, {"class": cls, "count": 0, "examples": []})
        e["count"] += 1
        if len(e["examples"]) < 3:
            d = dict(detail)
            d["leg_module"] = LEG
            d["function"] = "leg"
            e["examples"].append(d)


def explore(ctx, cfg, depth, viol, only_history=None):
    bita, shim = ctx["bita"], ensure_shim(ctx)
    name, copts, v1, v2 = cfg
    if v1 is None:
        v1 = pattern(1500, 7) + b"\0" * 700 + pattern(800, 9)
        v2 = pattern(300, 11) + v1[900:2400] + pattern(500, 13) + v1[:600]
    root = tempfile.mkdtemp(prefix="verif-hist-")
    stats = {"states": 0, "transitions": 0, "max_depth": 0, "outcomes": {}}
    try:
        # reference archives: each source compressed in an otherwise empty directory
        refs = {}
        for ver, data in ((1, v1), (2, v2)):
            d = os.path.join(root, f"ref{ver}")
            os.makedirs(d)
            with open(os.path.join(d, "s.bin"), "wb") as f:
                f.write(data)
            r = sh([bita, "compress", "-i", "s.bin"] + copts + ["a.cba"], d)
            if r.returncode != 0:
                raise RuntimeError("reference compress failed: " + r.stderr.decode()[-300:])
            with open(os.path.join(d, "a.cba"), "rb") as f:
                refs[ver] = f.read()
        source = {1: v1, 2: v2}
        init = {"v1.bin": v1, "v2.bin": v2}
        # a state: (snapshot, model, history); model = (archive version or 0, output: "none" | "v1" | "v2" | "damaged")
        # (third component: a temp file of a killed compress may be lying around)
        frontier = [(init, (0, "none", False), [])]
        seen = {key_of(init)}
        stats["states"] = 1
        counter = [0]

        def run_one(job):
            state, model, hist, cmd = job
            counter[0] += 1
            d = os.path.join(root, f"t{counter[0]}-{os.getpid()}-{id(job) % 100000}")
            os.makedirs(d)
            for n, b in state.items():
                with open(os.path.join(d, n), "wb") as f:
                    f.write(b)
            env = None
            if cmd == "c1":
                argv = [bita, "compress", "-i", "v1.bin"] + copts + ["a.cba"]
            elif cmd in ("c2f", "c2fx"):
                argv = [bita, "compress", "-f", "-i", "v2.bin"] + copts + ["a.cba"]
            elif cmd == "c1f":
                argv = [bita, "compress", "-f", "-i", "v1.bin"] + copts + ["a.cba"]
            elif cmd == "k":
                argv = [bita, "clone", "a.cba", "out.img"]
            elif cmd in ("kf", "kfx"):
                argv = [bita, "clone", "-f", "a.cba", "out.img"]
            elif cmd in ("ks", "ksx"):
                argv = [bita, "clone", "--seed-output", "a.cba", "out.img"]
            else:
                argv = [bita, "clone", "--seed-output", "--verify-output", "--seed", "v1.bin", "a.cba", "out.img"]
            if cmd in ("kfx", "ksx", "c2fx"):
                env = base_env()
                env["LD_PRELOAD"] = shim
                env["VERIF_IO_PATH"] = os.path.realpath(os.path.join(d, "a.cba" if cmd == "c2fx" else "out.img"))
                env["VERIF_IO_FAIL_AT"] = "2" if cmd == "kfx" else "1"
                env["VERIF_IO_MODE"] = "tear"
                env["VERIF_IO_TEAR"] = "3" if cmd == "c2fx" else "2" if cmd == "kfx" else "1"
            r = sh(argv, d, env=env)
            after = snap(d)
            shutil.rmtree(d, ignore_errors=True)
            return job, r.returncode, r.stderr.decode(errors="replace")[-300:], after

        level = 0
        while frontier and level < depth:
            level += 1
            jobs = [(s, m, h, c) for (s, m, h) in frontier for c in COMMANDS]
            if only_history is not None:
                jobs = [j for j in jobs if only_history[:level] == j[2] + [j[3]]]
            nxt = []
            with ThreadPoolExecutor(max_workers=min(16, os.cpu_count() or 4)) as ex:
                results = list(ex.map(run_one, jobs))
            for (state, model, hist, cmd), rc, stderr, after in results:
                stats["transitions"] += 1
                arch, out, temp = model
                h2 = hist + [cmd]
                detail = {"config": name, "history": h2, "exit": rc, "model_before": {"archive_holds": arch, "output": out, "temp_file_of_killed_compress": temp}, "stderr": stderr,
                          "files_after": {k: len(v) for k, v in after.items()}}
                changed = key_of(after) != key_of(state)
                extra = sorted(set(after) - ALLOWED - ({"a..tmp"} if (temp or cmd == "c2fx") else set()))
                if extra:
                    viol.add("hist-unexpected-file-in-directory", dict(detail, unexpected=extra))
                is_clone = cmd.startswith("k")
                refuse = (cmd == "c1" and arch != 0) or (is_clone and arch in (0, "broken")) or (cmd == "k" and out != "none")
                new_model = model
                if refuse:
                    if rc == 0:
                        viol.add("hist-refusal-expected-but-exit-zero", detail)
                    if changed:
                        viol.add("hist-refused-but-directory-changed", detail)
                    outcome = "refused" if rc != 0 else "not-refused"
                elif cmd == "c2fx":
                    if rc == 137:
                        new_model = ("broken", out, True)
                        outcome = "compress-killed"
                    else:
                        viol.add("hist-valid-compress-failed", dict(detail, note="the kill point inside the first write to the archive was not reached"))
                        outcome = "compress-not-killed"
                elif not is_clone:
                    ver = 1 if cmd in ("c1", "c1f") else 2
                    if rc != 0:
                        viol.add("hist-valid-compress-failed", detail)
                        outcome = "compress-failed"
                    else:
                        if after.get("a.cba") != refs[ver]:
                            viol.add("hist-archive-depends-on-history", dict(detail, archive_len=len(after.get("a.cba", b"")), reference_len=len(refs[ver])))
                        if "a..tmp" in after:
                            viol.add("hist-temp-file-left-behind", detail)
                        new_model = (ver, out, False)
                        outcome = "compressed"
                else:
                    want = source[arch]
                    killed = cmd in ("kfx", "ksx") and rc == 137
                    from_damaged = out == "damaged"
                    in_place = cmd in ("ks", "ksv", "ksx")
                    if killed:
                        new_model = (arch, "damaged", temp)
                        outcome = "killed"
                    elif rc != 0:
                        cls = "hist-rerun-after-interruption-failed" if from_damaged and in_place else "hist-valid-in-place-clone-failed" if in_place else "hist-valid-clone-failed"
                        viol.add(cls, detail)
                        outcome = "clone-failed"
                        new_model = (arch, "damaged" if "out.img" in after else "none", temp)
                    else:
                        if after.get("out.img") != want:
                            cls = "hist-rerun-after-interruption-wrong-output" if from_damaged else "hist-in-place-success-with-wrong-output" if in_place else "hist-success-with-wrong-output"
                            viol.add(cls, dict(detail, output_len=len(after.get("out.img", b"")), source_len=len(want)))
                        new_model = (arch, f"v{arch}", temp)
                        outcome = "cloned"
                stats["outcomes"][outcome] = stats["outcomes"].get(outcome, 0) + 1
                k = key_of(after)
                if k not in seen:
                    seen.add(k)
                    stats["states"] += 1
                    stats["max_depth"] = level
                    nxt.append((after, new_model, h2))
            frontier = nxt
        stats["frontier_left"] = len(frontier)
        return stats
    finally:
        shutil.rmtree(root, ignore_errors=True)


def leg(ctx):
    t0 = time.time()
    pid = ctx["pid"]
    thorough = ctx["tier"] == "thorough"
    viol = Viol()
    per_cfg = {}
    total = {"states": 0, "transitions": 0}
    for i, cfg in enumerate(CONFIGS):
        if i > 0 and not thorough:
            continue
        st = explore(ctx, cfg, 14 if thorough else 10, viol)
        per_cfg[cfg[0]] = st
        total["states"] += st["states"]
        total["transitions"] += st["transitions"]
    mine = [c for c in viol.v.values() if c["class"] in FACETS[pid]]
    cov = {
        "evaluations": total["transitions"],
        "states": total["states"],
        "transitions": total["transitions"],
        "distinct_nontrivial": total["states"],
        "history_search": per_cfg,
        "exhaustive": all(s["frontier_left"] == 0 for s in per_cfg.values()),
        "samples": [{"history": ["c1", "kfx", "ks", "c2f"], "meaning": "compress v1; clone killed inside its 2nd write; in-place re-run; compress v2 over the archive"}],
        "rule": "breadth-first search over histories of real commands (alphabet: " + ", ".join(COMMANDS) + ") from the directory holding only the two sources; a state is the content of the directory "
                "(deduplicated by hash), a transition is one run of the real binary in a copy of it; depth " + ("6" if thorough else "4") + " or until no new state appears; a model of (which source the archive holds, "
                "whether an output exists / was left by a killed clone) says what each transition must do; non-trivial = distinct directory states reached; "
                f"classes judged for {pid}: {', '.join(FACETS[pid])}",
    }
    return {"property_id": pid, "level": "model_checking", "coverage": cov,
            "assumptions": ["two sources of a few dozen bytes (fixed 4-byte chunks incl. an all-zero chunk and a short tail); thorough adds a content-defined, brotli-compressed pair",
                            "kill points: 2nd write of a forced clone, 1st write of an in-place clone (every write index x tear offset is C05's own leg)"],
            "violation_classes": mine, "wall_s": time.time() - t0}


def replay(ctx, detail):
    viol = Viol()
    cfg = [c for c in CONFIGS if c[0] == detail.get("config")] or CONFIGS[:1]
    explore(ctx, cfg[0], len(detail.get("history", [])), viol, only_history=detail.get("history"))
    for c in viol.v.values():
        print(f"replay: class={c['class']} count={c['count']}")
    return bool(viol.v)


if __name__ == "__main__":
    import json
    import sys
    pid = sys.argv[1] if len(sys.argv) > 1 else "C14"
    tier = sys.argv[2] if len(sys.argv) > 2 else "quick"
    r = leg({"pid": pid, "tier": tier, "seed": 0, "bita": "/verif/build/bita/release/bita", "vh": "", "verif": "/verif", "build": "/verif/build"})
    r["coverage"].pop("samples", None)
    print(json.dumps(r, indent=1)[:5000])
