"""C16 - "Clone writes no file but the output; compress leaves only the archive" (real-binary leg).

Observation: the real `bita` binary runs under `strace -f` restricted to the file-creating /
-removing system calls (see TRACE_WANTED; auxiliary calls in TRACE_AUX are traced only to keep the
fd table and the "one process, fixed cwd" model honest).  Every line of the log is parsed
(`<unfinished ...>` / `resumed` pairs are joined, tid prefixes handled); relative paths and
AT_FDCWD are resolved against the cwd the command was started in.  In addition every case
directory is snapshotted recursively (type, size, sha256) before and after the run.

Enumeration: the finite grid of clone modes x archive location x verification flag x path style,
and a fixed list of compress configurations x path style (see `clone_cases` / `compress_cases`).

Also exports the strace helpers (`trace_syscalls`, `run_traced`, `observe`) used by c14.py.
"""
import concurrent.futures
import hashlib
import os
import random
import re
import shutil
import stat
import subprocess
import sys
import tempfile
import threading
import time

sys.path.insert(0, os.path.dirname(os.path.abspath(__file__)))
from httpserv import RangeServer  # noqa: E402

TIMEOUT = 30
WORKERS = 16

# The calls the property is about ...
TRACE_WANTED = ["open", "openat", "openat2", "creat", "unlink", "unlinkat", "rename", "renameat",
                "renameat2", "mkdir", "mkdirat", "rmdir", "link", "linkat", "symlink", "symlinkat",
                "truncate", "ftruncate", "mknod", "mknodat"]
# ... and the ones only needed to interpret them (fd table, process model, cwd).
TRACE_AUX = ["close", "dup", "dup2", "dup3", "fcntl", "clone", "clone3", "fork", "vfork", "execve",
             "chdir", "fchdir"]
TRACE_REQUIRED = {"openat", "unlink", "unlinkat", "rename", "renameat", "renameat2", "ftruncate",
                  "close", "execve"}

WRITE_FLAGS = {"O_WRONLY", "O_RDWR", "O_CREAT", "O_TRUNC", "O_APPEND", "O_TMPFILE"}

_trace_lock = threading.Lock()
_trace_cache = None


class Machinery(Exception):
    """The observation machinery (not bita) failed; never a verdict."""


def child_env(extra=None):
    """Environment of every bita run: the caller's, minus backtrace symbolication (slow, noisy)."""
    env = dict(os.environ)
    env["RUST_BACKTRACE"] = "0"
    env["RUST_LIB_BACKTRACE"] = "0"
    if extra:
        env.update(extra)
    return env


# ------------------------------------------------------------------------------------------------
# strace: probing, running, parsing
# ------------------------------------------------------------------------------------------------
def _strace_accepts(names):
    r = subprocess.run(["strace", "-qq", "-o", "/dev/null", "-e", "trace=" + ",".join(names), "true"],
                       stdin=subprocess.DEVNULL, stdout=subprocess.DEVNULL, stderr=subprocess.PIPE,
                       timeout=TIMEOUT)
    return r.returncode == 0


def trace_syscalls():
    """The syscall names handed to strace: the wanted + auxiliary ones this strace knows."""
    global _trace_cache
    with _trace_lock:
        if _trace_cache is not None:
            return _trace_cache
        if shutil.which("strace") is None:
            raise Machinery("strace not found in PATH")
        try:
            if not _strace_accepts(["execve"]):
                raise Machinery("strace cannot trace a trivial command (ptrace not permitted?)")
            names = TRACE_WANTED + TRACE_AUX
            if not _strace_accepts(names):
                names = [n for n in names if _strace_accepts([n])]
        except (OSError, subprocess.TimeoutExpired) as e:
            raise Machinery("strace probe failed: %r" % (e,))
        missing = TRACE_REQUIRED - set(names)
        if missing:
            raise Machinery("strace does not know required syscalls: %s" % sorted(missing))
        _trace_cache = names
        return names


def run_traced(argv, cwd, log_path, stdin_data=None, env=None, timeout=TIMEOUT, stdin_path=None):
    """Run argv under strace. -> dict(rc, stdout, stderr, timed_out, log_text).
    stdin_path: redirect stdin from that regular file (`< file`) instead of feeding a pipe."""
    cmd = ["strace", "-f", "-qq", "-o", log_path, "-e", "trace=" + ",".join(trace_syscalls())] + list(argv)
    timed_out = False
    stdin_f = open(stdin_path, "rb") if stdin_path is not None else None
    p = subprocess.Popen(cmd, cwd=cwd, env=env if env is not None else child_env(),
                         stdin=stdin_f if stdin_f is not None else subprocess.PIPE if stdin_data is not None else subprocess.DEVNULL,
                         stdout=subprocess.PIPE, stderr=subprocess.PIPE, start_new_session=True)
    if stdin_f is not None:
        stdin_f.close()
    try:
        out, err = p.communicate(stdin_data, timeout=timeout)
    except subprocess.TimeoutExpired:
        timed_out = True
        try:
            os.killpg(p.pid, 9)
        except OSError:
            pass
        out, err = p.communicate()
    try:
        with open(log_path, "r", errors="surrogateescape") as f:
            text = f.read()
    except OSError as e:
        raise Machinery("strace wrote no log (%s); stderr: %s" % (e, err[-300:]))
    return {"rc": p.returncode, "stdout": out, "stderr": err, "timed_out": timed_out, "log_text": text}


_RE_DONE = re.compile(r"^(\d+)\s+(\w+)\((.*)\)\s+=\s+(-?\d+|0x[0-9a-f]+|\?)(?:\s+(.*))?$")
_RE_UNFIN = re.compile(r"^(\d+)\s+(\w+)\((.*?)\s*<unfinished \.\.\.>$")
_RE_RESUMED = re.compile(r"^(\d+)\s+<\.\.\.\s+(\w+) resumed>(.*)\)\s+=\s+(-?\d+|0x[0-9a-f]+|\?)(?:\s+(.*))?$")
_RE_NOISE = re.compile(r"^(\d+)\s+(---|\+\+\+)\s")


def split_args(s):
    """Split a strace argument list at top-level commas (quotes, (), [], {} respected)."""
    out, cur, depth, i, n = [], [], 0, 0, len(s)
    while i < n:
        c = s[i]
        if c == '"':
            j = i + 1
            while j < n and s[j] != '"':
                j += 2 if s[j] == "\\" else 1
            cur.append(s[i:j + 1])
            i = j + 1
            continue
        if c in "([{":
            depth += 1
        elif c in ")]}":
            depth -= 1
        if c == "," and depth == 0:
            out.append("".join(cur).strip())
            cur = []
        else:
            cur.append(c)
        i += 1
    last = "".join(cur).strip()
    if last or out:
        out.append(last)
    return out


_ESC = {"n": "\n", "t": "\t", "r": "\r", "\\": "\\", '"': '"', "v": "\v", "f": "\f", "a": "\a", "b": "\b"}


def unquote(tok):
    """'"a\\tb"' -> 'a<TAB>b'; None when the token is not a string literal (e.g. NULL, 0x7f..)."""
    tok = tok.strip()
    if not tok.startswith('"'):
        return None
    end = tok.rfind('"')
    body = tok[1:end]
    out, i, n = bytearray(), 0, len(body)
    while i < n:
        c = body[i]
        if c != "\\":
            out += c.encode("utf-8", "surrogateescape")
            i += 1
            continue
        i += 1
        c = body[i] if i < n else "\\"
        if c in _ESC:
            out += _ESC[c].encode()
            i += 1
        elif c == "x":
            out.append(int(body[i + 1:i + 3], 16))
            i += 3
        elif c in "01234567":
            j = i
            while j < n and j < i + 3 and body[j] in "01234567":
                j += 1
            out.append(int(body[i:j], 8) & 0xFF)
            i = j
        else:
            out += c.encode()
            i += 1
    return out.decode("utf-8", "surrogateescape")


def parse_log(text):
    """-> (events, unparsed_lines). event = dict(tid, call, args[list of raw tokens], ret, err)."""
    events, unparsed, pending = [], [], {}
    for line in text.splitlines():
        if not line.strip():
            continue
        m = _RE_RESUMED.match(line)
        if m:
            tid, call, rest, ret, tail = m.groups()
            head = pending.pop((tid, call), None)
            if head is None:
                unparsed.append(line)
                continue
            events.append(_event(tid, call, head + rest, ret, tail))
            continue
        m = _RE_UNFIN.match(line)
        if m:
            tid, call, head = m.groups()
            pending[(tid, call)] = head
            continue
        m = _RE_DONE.match(line)
        if m:
            tid, call, args, ret, tail = m.groups()
            events.append(_event(tid, call, args, ret, tail))
            continue
        if _RE_NOISE.match(line):
            continue
        unparsed.append(line)
    for (tid, call), head in pending.items():      # killed / exited inside the call
        events.append(_event(tid, call, head, "?", None))
    return events, unparsed


def _event(tid, call, args, ret, tail):
    if ret == "?":
        r = None
    elif ret.startswith("0x"):
        r = int(ret, 16)
    else:
        r = int(ret)
    err = None
    if r is not None and r < 0 and tail:
        err = tail.split()[0]
    return {"tid": int(tid), "call": call, "args": split_args(args), "ret": r, "err": err}


def _flags_of(tok):
    tok = tok.strip()
    m = re.search(r"flags=([A-Z0-9_|x]+)", tok)
    if m:
        tok = m.group(1)
    return set(t for t in tok.split("|") if t)


def observe(events, cwd):
    """Interpret the events. -> dict with
         opens      [{path, raw, flags, write, ok, fd, call}]
         mutations  [{kind, call, paths, ok, err}]      kind in unlink/rmdir/rename/mkdir/link/symlink/truncate/mknod
         ftruncates [{fd, path|None, ok}]
         model      {execs, forks, chdirs}               (all must be 1 / 0 / 0 for the tracking to be valid)
    One fd table for all tids: bita's threads are CLONE_FILES threads of one process (checked)."""
    fds = {}
    obs = {"opens": [], "mutations": [], "ftruncates": [], "model": {"execs": 0, "forks": 0, "chdirs": 0}}

    def norm(p):
        # no textual folding of `x/..`: x may be a symbolic link (the kernel resolves it, so does realpath() later)
        parts = [c for c in p.split("/") if c not in ("", ".")]
        return "/" + "/".join(parts)

    def at(dirtok, pathtok):
        p = unquote(pathtok)
        if p is None:
            return "<unparsed:%s>" % pathtok
        if os.path.isabs(p):
            return norm(p)
        d = dirtok.strip() if dirtok is not None else "AT_FDCWD"
        if d.startswith("AT_FDCWD"):
            return norm(os.path.join(cwd, p))
        try:
            base = fds.get(int(d))
        except ValueError:
            base = None
        if base is None:
            return "<fd %s>/%s" % (d, p)
        return norm(os.path.join(base, p))

    for ev in events:
        c, a, ret = ev["call"], ev["args"], ev["ret"]
        ok = ret is not None and ret >= 0
        try:
            if c in ("open", "openat", "openat2", "creat"):
                if c == "open":
                    path, flags = at(None, a[0]), _flags_of(a[1])
                elif c == "creat":
                    path, flags = at(None, a[0]), {"O_CREAT", "O_WRONLY", "O_TRUNC"}
                else:
                    path, flags = at(a[0], a[1]), _flags_of(a[2])
                obs["opens"].append({"path": path, "flags": sorted(flags), "write": bool(flags & WRITE_FLAGS),
                                     "ok": ok, "fd": ret if ok else None, "call": c, "err": ev["err"]})
                if ok:
                    fds[ret] = path
            elif c == "close":
                if ok:
                    fds.pop(int(a[0]), None)
            elif c in ("dup", "dup2", "dup3"):
                if ok:
                    src = fds.get(int(a[0]))
                    if src is not None:
                        fds[ret] = src
                    else:
                        fds.pop(ret, None)
            elif c == "fcntl":
                if ok and len(a) > 1 and a[1].strip().startswith("F_DUPFD"):
                    src = fds.get(int(a[0]))
                    if src is not None:
                        fds[ret] = src
                    else:
                        fds.pop(ret, None)
            elif c == "ftruncate":
                fd = int(a[0])
                obs["ftruncates"].append({"fd": fd, "path": fds.get(fd), "ok": ok, "len": a[1] if len(a) > 1 else None})
            elif c in ("unlink", "rmdir", "mkdir", "truncate", "mknod"):
                kind = {"unlink": "unlink", "rmdir": "rmdir", "mkdir": "mkdir", "truncate": "truncate", "mknod": "mknod"}[c]
                obs["mutations"].append({"kind": kind, "call": c, "paths": [at(None, a[0])], "ok": ok, "err": ev["err"]})
            elif c in ("unlinkat", "mkdirat", "mknodat"):
                kind = {"unlinkat": "unlink", "mkdirat": "mkdir", "mknodat": "mknod"}[c]
                if c == "unlinkat" and len(a) > 2 and "AT_REMOVEDIR" in a[2]:
                    kind = "rmdir"
                obs["mutations"].append({"kind": kind, "call": c, "paths": [at(a[0], a[1])], "ok": ok, "err": ev["err"]})
            elif c in ("rename", "link"):
                obs["mutations"].append({"kind": c, "call": c, "paths": [at(None, a[0]), at(None, a[1])], "ok": ok, "err": ev["err"]})
            elif c in ("renameat", "renameat2", "linkat"):
                kind = "link" if c == "linkat" else "rename"
                obs["mutations"].append({"kind": kind, "call": c, "paths": [at(a[0], a[1]), at(a[2], a[3])], "ok": ok, "err": ev["err"]})
            elif c == "symlink":
                obs["mutations"].append({"kind": "symlink", "call": c, "paths": [at(None, a[1])], "ok": ok, "err": ev["err"]})
            elif c == "symlinkat":
                obs["mutations"].append({"kind": "symlink", "call": c, "paths": [at(a[1], a[2])], "ok": ok, "err": ev["err"]})
            elif c == "execve":
                if ok:
                    obs["model"]["execs"] += 1
            elif c in ("fork", "vfork"):
                if ok:
                    obs["model"]["forks"] += 1
            elif c in ("clone", "clone3"):
                if ok and not ("CLONE_THREAD" in " ".join(a) and "CLONE_FILES" in " ".join(a)):
                    obs["model"]["forks"] += 1
            elif c in ("chdir", "fchdir"):
                if ok:
                    obs["model"]["chdirs"] += 1
        except (IndexError, ValueError) as e:
            raise Machinery("cannot interpret strace event %r: %r" % (ev, e))
    return obs


def observed_run(argv, cwd, log_path, stdin_data=None, env=None, stdin_path=None):
    """run_traced + parse + observe, with the model checks that make the interpretation valid."""
    r = run_traced(argv, cwd, log_path, stdin_data=stdin_data, env=env, stdin_path=stdin_path)
    events, unparsed = parse_log(r["log_text"])
    if unparsed:
        raise Machinery("unparsed strace lines, e.g. %r" % unparsed[:3])
    obs = observe(events, cwd)
    if obs["model"]["execs"] < 1 and not r["timed_out"]:
        raise Machinery("strace log shows no successful execve: %r" % r["stderr"][-300:])
    if obs["model"]["execs"] > 1 or obs["model"]["forks"] or obs["model"]["chdirs"]:
        raise Machinery("process model of the fd/cwd tracking broken (execs/forks/chdirs = %r)" % obs["model"])
    r["events"] = len(events)
    r["obs"] = obs
    return r


# ------------------------------------------------------------------------------------------------
# small helpers
# ------------------------------------------------------------------------------------------------
def sha(b):
    return hashlib.sha256(b).hexdigest()


def snapshot(root):
    """Recursive listing: relpath -> ("f", size, sha256) | ("d",) | ("l", target) | ("o", mode)."""
    snap = {}
    for d, dirs, files in os.walk(root):
        for name in dirs + files:
            p = os.path.join(d, name)
            rel = os.path.relpath(p, root)
            st = os.lstat(p)
            if stat.S_ISLNK(st.st_mode):
                snap[rel] = ("l", os.readlink(p))
            elif stat.S_ISDIR(st.st_mode):
                snap[rel] = ("d",)
            elif stat.S_ISREG(st.st_mode):
                with open(p, "rb") as f:
                    data = f.read()
                snap[rel] = ("f", len(data), sha(data))
            else:
                snap[rel] = ("o", oct(st.st_mode))
    return snap


def snapshot_diff(before, after):
    """-> sorted list of (relpath, "added"|"removed"|"changed")."""
    out = []
    for k in after:
        if k not in before:
            out.append((k, "added"))
        elif before[k] != after[k]:
            out.append((k, "changed"))
    for k in before:
        if k not in after:
            out.append((k, "removed"))
    return sorted(out)


def rust_with_extension(path, ext):
    """Python rendering of Rust's Path::with_extension (cli.rs: with_extension(output, ".tmp"))."""
    d, name = os.path.split(path)
    i = name.rfind(".")
    stem = name if i <= 0 else name[:i]
    return os.path.join(d, stem + "." + ext) if ext else os.path.join(d, stem)


def is_allowed_nonfile(path):
    """The only write-opens that are not the output and still fine (not files on a disk)."""
    return path in ("/dev/null", "/dev/tty") or re.match(r"^/proc/(self|\d+)/", path) is not None


def run_plain(argv, cwd=None, stdin_data=None, env=None):
    p = subprocess.run(argv, cwd=cwd, env=env if env is not None else child_env(), input=stdin_data,
                       stdin=subprocess.DEVNULL if stdin_data is None else None,
                       stdout=subprocess.PIPE, stderr=subprocess.PIPE, timeout=TIMEOUT)
    return p


def parse_info(bita, archive_path):
    """-> (header_checksum_hex, declared_archive_size) from `bita info`."""
    p = run_plain([bita, "info", archive_path])
    if p.returncode != 0:
        raise Machinery("bita info %s failed: %s" % (archive_path, p.stderr[-300:]))
    text = p.stdout.decode("utf-8", "replace")
    m = re.search(r"Header checksum:\s*([0-9a-f]+)", text)
    s = re.search(r"Archive size:.*\((\d+) bytes\)", text) or re.search(r"Archive size:\s*(\d+) bytes", text)
    if not m or not s:
        raise Machinery("cannot parse bita info output: %r" % text[:400])
    return m.group(1), int(s.group(1))


def build_archive(bita, workdir, source, compress_args, tries=16):
    """Setup helper: a *good* archive of `source` (bytes). Known defect F4 (CLI compress reads its temp
    file back while the last write is still in flight) makes `bita compress` produce a short archive -
    for some inputs nearly always. An archive is only accepted when its size is the one its own header
    declares and it clones back to the source. The first attempts are plain runs; later ones run under
    `strace -P <temp file> -e inject=openat:delay_enter=...`, which holds up the re-opening of the temp
    file long enough for the write to land (setup only - never used for a checked run).
    -> (archive_bytes, header_checksum_hex, "plain:<n>" | "delayed:<n>")"""
    os.makedirs(workdir, exist_ok=True)
    src = os.path.join(workdir, "source.bin")
    with open(src, "wb") as f:
        f.write(source)
    last = ""
    for attempt in range(1, tries + 1):
        arch = os.path.join(workdir, "a%d.cba" % attempt)
        argv = [bita, "compress", "-i", src] + list(compress_args) + [arch]
        how = "plain"
        if attempt > 3:
            how = "delayed"
            argv = ["strace", "-f", "-qq", "-o", "/dev/null", "-P", rust_with_extension(arch, ".tmp"),
                    "-e", "trace=openat", "-e", "inject=openat:delay_enter=150000"] + argv
        p = run_plain(argv)
        if p.returncode != 0:
            raise Machinery("setup: bita compress failed: %s" % p.stderr[-400:])
        checksum, declared = parse_info(bita, arch)
        if os.path.getsize(arch) != declared:
            last = "archive is %d bytes, header declares %d" % (os.path.getsize(arch), declared)
            continue
        out = os.path.join(workdir, "rt%d.bin" % attempt)
        c = run_plain([bita, "clone", arch, out])
        if c.returncode != 0:
            last = "clone of fresh archive failed: %s" % c.stderr[-200:]
            continue
        with open(out, "rb") as f:
            if f.read() != source:
                last = "clone of fresh archive differs from source"
                continue
        with open(arch, "rb") as f:
            return f.read(), checksum, "%s:%d" % (how, attempt)
    raise Machinery("setup: no good archive after %d attempts (%s)" % (tries, last))


def gen_source(seed, variant):
    """Deterministic sources with all-unique chunks (no repeated chunk: keeps known defect F2,
    the in-place underflow on repeated chunks, out of this leg)."""
    rnd = random.Random("c16-%d-%s" % (seed, variant))
    if variant == "fixed":
        # 12 KiB: patterned, every 1 KiB block different
        return bytes(((i * 7 + (i >> 8) * 13 + (i >> 10) * 101) & 0xFF) for i in range(12 * 1024))
    if variant == "rollsum":
        return rnd.randbytes(24 * 1024)
    if variant == "buzhash":
        return rnd.randbytes(16 * 1024 + 123)
    if variant == "bigfixed":
        # three blocks of 2 MiB (more than any in-memory shortcut for "small" chunks) and a tail
        M = 1 << 20
        return b"".join(bytes([65 + k]) * 11 + bytes((i * (k + 3)) % 251 for i in range(2 * M - 11)) for k in range(3)) + b"tail" * 300
    raise ValueError(variant)


VARIANTS = {
    "fixed": ["--fixed-size", "1KiB", "--compression", "none"],
    "bigfixed": ["--fixed-size", "2MiB", "--compression", "none"],
    "rollsum": ["--hash-chunking", "RollSum", "--avg-chunk-size", "1KiB", "--min-chunk-size", "256B",
                "--max-chunk-size", "4KiB", "--rolling-window-size", "64B", "--compression", "brotli"],
    "buzhash": ["--hash-chunking", "BuzHash", "--avg-chunk-size", "512B", "--min-chunk-size", "128B",
                "--max-chunk-size", "2KiB", "--rolling-window-size", "16B", "--compression", "zstd"],
}

CLONE_MODES = ["plain", "force", "seed1", "seed2", "stdin-seed", "in-place", "seed+in-place",
               # stdin redirected from a regular file (`< seed.bin`) instead of a pipe, alone and in place
               "stdin-file-seed", "stdin-file-seed+in-place",
               # the prior output has a second hard link (a snapshot made with `ln`): an update in place updates the
               # file behind both names and replaces nothing
               "in-place-hardlink",
               # which file "the given output" is, is for the operating system to say: a symbolic link with a relative target
               # in another directory than the current one, and a path that leaves a symlinked directory through `..`
               "force-symlink-elsewhere", "in-place-dotdot-through-symlink"]
LOCS = ["local", "http"]
VERIFY = ["none", "verify-output", "verify-header"]
STYLES = ["rel", "abs"]

CHUNKERS = {
    "fixed": ["--fixed-size", "1KiB"],
    "rollsum": ["--hash-chunking", "RollSum", "--avg-chunk-size", "1KiB", "--min-chunk-size", "256B",
                "--max-chunk-size", "4KiB", "--rolling-window-size", "64B"],
    "buzhash": ["--hash-chunking", "BuzHash", "--avg-chunk-size", "512B", "--min-chunk-size", "128B",
                "--max-chunk-size", "2KiB", "--rolling-window-size", "16B"],
}
# archive file names exercise Path::with_extension: with, without and with several extensions
ARCHIVE_NAMES = {"fixed": "archive.cba", "rollsum": "archive", "buzhash": "my.archive.v2.cba"}


def available_compressions(bita):
    """Compression types this build of bita offers (zstd / lzma are cargo features)."""
    p = run_plain([bita, "compress", "--help"])
    text = p.stdout.decode("utf-8", "replace")
    m = re.search(r"--compression <TYPE>.*?\[possible values: ([^\]]+)\]", text, re.S)
    if p.returncode != 0 or not m:
        raise Machinery("cannot read the compression types from `bita compress --help`")
    return [t.strip() for t in m.group(1).split(",")]


def variant_args(name, comps):
    args = list(VARIANTS[name])
    if args[-1] not in comps:          # feature not built in: fall back
        args[-1] = "brotli"
    return args


# clones that fail AFTER the output has been opened: the promise "nothing is removed or renamed, no
# other file is written" holds for them as well
FAIL_MODES = ["fail-missing-seed", "fail-missing-seed-in-place", "fail-corrupt-chunk", "fail-corrupt-chunk-in-place",
              "fail-dangling-symlink", "fail-busy-executable",
              # the archive path is a named pipe (not seekable): whatever the command does about it, it writes nowhere else
              "fail-archive-is-fifo"]


def clone_cases(tier):
    variants = ["fixed"] if tier == "quick" else ["fixed", "rollsum", "buzhash"]
    cases = []
    # verbosity must not change what is written where
    for verbose in ("-v", "-vv"):
        for mode in ("plain", "seed1", "in-place"):
            cases.append({"kind": "clone", "mode": mode, "loc": LOCS[0], "verify": VERIFY[1], "style": STYLES[0],
                          "variant": variants[0], "verbose": verbose})
    # chunks of 2 MiB moved in a cycle, in place (local and HTTP)
    for loc in LOCS:
        for mode in ("in-place", "seed+in-place"):
            cases.append({"kind": "clone", "mode": mode, "loc": loc, "verify": VERIFY[0], "style": STYLES[0], "variant": "bigfixed"})
    for variant in variants:
        for mode in FAIL_MODES:
            for loc in LOCS:
                if mode == "fail-archive-is-fifo" and loc != "local":
                    continue
                for style in STYLES:
                    cases.append({"kind": "clone", "mode": mode, "loc": loc, "verify": VERIFY[0],
                                  "style": style, "variant": variant})
    for variant in variants:
        for mode in CLONE_MODES:
            for loc in LOCS:
                for verify in VERIFY:
                    for style in STYLES:
                        cases.append({"kind": "clone", "mode": mode, "loc": loc, "verify": verify,
                                      "style": style, "variant": variant})
    return cases


def compress_cases(tier, available=("none", "brotli", "zstd", "lzma")):
    comps = ["none", "brotli"] if tier == "quick" else [c for c in ("none", "brotli", "zstd", "lzma") if c in available]
    cases = []
    for inp in ("file", "stdin"):
        for chunker in ("fixed", "rollsum", "buzhash"):
            for comp in comps:
                for style in STYLES:
                    cases.append({"kind": "compress", "input": inp, "chunker": chunker, "compression": comp,
                                  "style": style})
        for verbose in ("-v", "-vv"):
            cases.append({"kind": "compress", "input": inp, "chunker": "fixed", "compression": comps[0],
                          "style": STYLES[0], "verbose": verbose})
        # the empty source: zero chunks, the temp file is created all the same
        for chunker in ("fixed", "rollsum"):
            cases.append({"kind": "compress", "input": inp, "chunker": chunker, "compression": comps[-1],
                          "style": STYLES[0], "empty": True})
    return cases


def mode_key(case):
    if case["kind"] == "clone":
        return ("clone", case["variant"], case["mode"], case["loc"], case["verify"], case.get("verbose"))
    return ("compress", case["input"], case["chunker"], case["compression"], bool(case.get("empty")), case.get("verbose"))


# ------------------------------------------------------------------------------------------------
# one case
# ------------------------------------------------------------------------------------------------
def _seed_material(source, variant, seed):
    """Seeds / prior output that share part of the source (1 KiB aligned so that the fixed-size
    variant finds the chunks too) plus unrelated bytes."""
    rnd = random.Random("c16-seeds-%d-%s" % (seed, variant))
    if variant == "bigfixed":
        # the prior output holds the first two 2 MiB blocks swapped (a cycle: one of them has to be held back)
        M2 = 2 << 20
        prior = source[M2:2 * M2] + source[:M2] + source[2 * M2:] + b"old tail" * 50
        return {"s1": source[:M2] + b"x" * 100, "s2": source[2 * M2:], "stdin": source[M2:2 * M2], "prior": prior, "junk": rnd.randbytes(4096)}
    k = 1024
    n = len(source) // k
    a, b = n // 3, 2 * n // 3
    s1 = source[:a * k] + rnd.randbytes(2 * k)
    s2 = rnd.randbytes(k) + source[b * k:] + source[a * k:(a + 1) * k]
    stdin_seed = source[(a + 1) * k:b * k] + rnd.randbytes(k)
    # prior output for in-place: blocks present but mostly at the wrong place, plus junk, longer than the source
    # (block 2 already where it belongs)
    prior = source[b * k:(b + 2) * k] + source[2 * k:3 * k] + source[:2 * k] + source[3 * k:4 * k] + rnd.randbytes(len(source))
    junk = rnd.randbytes(len(source) + 3000)
    return {"s1": s1, "s2": s2, "stdin": stdin_seed, "prior": prior, "junk": junk}


def run_clone_case(env_, case, case_dir, log_path):
    """-> (violations [(class, info)], facts dict)"""
    bita, srv = env_["bita"], env_["server"]
    var = env_["variants"][case["variant"]]
    source, mat = var["source"], var["material"]
    for sub in ("arch", "seeds", "out"):
        os.makedirs(os.path.join(case_dir, sub))
    rel = case["style"] == "rel"

    def P(relpath):
        return relpath if rel else os.path.join(case_dir, relpath)

    out_rel = os.path.join("out", "output.img")
    out_abs = os.path.join(case_dir, out_rel)
    argv = [bita, "clone"]
    readonly = []          # absolute paths of seeds + archive
    stdin_data = None
    mode = case["mode"]
    failing = mode.startswith("fail-")
    if mode in ("force", "fail-missing-seed", "fail-corrupt-chunk"):
        argv.append("-f")
        with open(out_abs, "wb") as f:
            f.write(mat["junk"])
    busy = None
    if mode == "fail-dangling-symlink":
        # -f onto a symlink that points into a directory that does not exist: the open fails
        argv.append("-f")
        os.symlink(os.path.join(case_dir, "no-such-dir", "target.img"), out_abs)
    if mode == "fail-busy-executable":
        # -f onto a running executable: the open fails with ETXTBSY
        argv.append("-f")
        shutil.copy("/bin/sleep", out_abs)
        os.chmod(out_abs, 0o755)
        # (exec fails with ETXTBSY while any process still holds the copy open for writing - e.g. a child that another
        # thread of this pool forked a moment ago and that has not reached its own exec yet: wait for it)
        for attempt in range(200):
            try:
                busy = subprocess.Popen([out_abs, "30"], stdin=subprocess.DEVNULL, stdout=subprocess.DEVNULL, stderr=subprocess.DEVNULL)
                break
            except OSError as e:
                if e.errno != 26 or attempt == 199:
                    raise
                time.sleep(0.02)
    if mode == "fail-missing-seed":
        argv += ["--seed", P(os.path.join("seeds", "no-such-seed.bin"))]
    if mode == "fail-missing-seed-in-place":
        argv += ["--seed-output", "--seed", P(os.path.join("seeds", "no-such-seed.bin"))]
        with open(out_abs, "wb") as f:
            f.write(mat["prior"])
    if mode == "fail-corrupt-chunk-in-place":
        argv.append("--seed-output")
        with open(out_abs, "wb") as f:
            f.write(mat["junk"])
    archive_bytes = var["archive"]
    if mode.startswith("fail-corrupt-chunk"):
        archive_bytes = archive_bytes[:-1] + bytes([archive_bytes[-1] ^ 0x40])      # last payload byte
    if mode in ("seed1", "seed2", "seed+in-place"):
        with open(os.path.join(case_dir, "seeds", "s1.bin"), "wb") as f:
            f.write(mat["s1"])
        argv += ["--seed", P(os.path.join("seeds", "s1.bin"))]
        readonly.append(os.path.join(case_dir, "seeds", "s1.bin"))
    if mode == "seed2":
        with open(os.path.join(case_dir, "seeds", "s2.bin"), "wb") as f:
            f.write(mat["s2"])
        argv += ["--seed", P(os.path.join("seeds", "s2.bin"))]
        readonly.append(os.path.join(case_dir, "seeds", "s2.bin"))
    if mode == "stdin-seed":
        argv += ["--seed", "-"]
        stdin_data = mat["stdin"]
    stdin_path = None
    if mode in ("stdin-file-seed", "stdin-file-seed+in-place"):
        argv += ["--seed", "-"]
        stdin_path = os.path.join(case_dir, "seeds", "stdin.bin")
        with open(stdin_path, "wb") as f:
            f.write(mat["stdin"])
        readonly.append(stdin_path)
    out_arg = out_rel
    if mode == "force-symlink-elsewhere":
        argv.append("-f")
        with open(os.path.join(case_dir, "out", "target.img"), "wb") as f:
            f.write(mat["junk"])
        os.symlink("target.img", out_abs)            # out/output.img -> target.img, resolved against out/, not the cwd
    if mode == "in-place-dotdot-through-symlink":
        argv.append("--seed-output")
        for dd in ("releases/v1", "releases/images", "images"):
            os.makedirs(os.path.join(case_dir, "out", dd))
        os.symlink(os.path.join("releases", "v1"), os.path.join(case_dir, "out", "current"))
        with open(os.path.join(case_dir, "out", "releases", "images", "output.img"), "wb") as f:
            f.write(mat["prior"])
        with open(os.path.join(case_dir, "out", "images", "output.img"), "wb") as f:
            f.write(mat["junk"])                     # an unrelated file where a textual reading of the path ends up
        out_arg = os.path.join("out", "current", "..", "images", "output.img")
        out_abs = os.path.join(case_dir, "out", "releases", "images", "output.img")
    if mode in ("in-place", "seed+in-place", "stdin-file-seed+in-place", "in-place-hardlink"):
        argv.append("--seed-output")
        with open(out_abs, "wb") as f:
            f.write(mat["prior"])
        if mode == "in-place-hardlink":
            os.link(out_abs, os.path.join(case_dir, "out", "snapshot.img"))
    if case["verify"] == "verify-output":
        argv.append("--verify-output")
    elif case["verify"] == "verify-header":
        argv += ["--verify-header", var["checksum"]]
    feeder = None
    if case["loc"] == "local" and mode == "fail-archive-is-fifo":
        import threading
        fifo = os.path.join(case_dir, "arch", "a.cba")
        os.mkfifo(fifo)

        def feed(fifo=fifo, data=archive_bytes):
            try:
                with open(fifo, "wb") as f:
                    f.write(data)
            except OSError:
                pass
        feeder = (threading.Thread(target=feed, daemon=True), fifo)
        feeder[0].start()
        argv.append(P(os.path.join("arch", "a.cba")))
    elif case["loc"] == "local":
        with open(os.path.join(case_dir, "arch", "a.cba"), "wb") as f:
            f.write(archive_bytes)
        argv.append(P(os.path.join("arch", "a.cba")))
        readonly.append(os.path.join(case_dir, "arch", "a.cba"))
    else:
        name = var["name"]
        if archive_bytes is not var["archive"]:
            name = "corrupt-" + var["name"]
            srv.files[name] = archive_bytes
        argv.append(srv.url(name, "c16=" + os.path.basename(case_dir)))
    argv.append(P(out_arg))

    if case.get("verbose"):
        argv.insert(1, case["verbose"])
    before = snapshot(case_dir)
    try:
        r = observed_run(argv, case_dir, log_path, stdin_data=stdin_data, stdin_path=stdin_path)
    finally:
        if busy is not None:
            busy.kill()
            busy.wait()
        if feeder is not None:
            try:
                fd = os.open(feeder[1], os.O_RDONLY | os.O_NONBLOCK)   # releases a feeder nobody listened to
                feeder[0].join(timeout=2)
                os.close(fd)
            except OSError:
                pass
    after = snapshot(case_dir)
    obs = r["obs"]
    out_real = os.path.realpath(out_abs)
    if mode == "fail-dangling-symlink":
        # the link itself is the output path: it must still be there, still a link, and nothing opened behind it
        out_real = out_abs
        if not os.path.islink(out_abs):
            pass  # reported below through the snapshot diff / mutations
    ro_real = {os.path.realpath(p) for p in readonly}
    v = []
    facts = {"output_write_opens": 0, "readonly_opens": 0, "allowed_nonfile_writes": [], "failed_foreign_attempts": 0,
             "events": r["events"], "rc": r["rc"], "ftruncates": 0}

    if r["timed_out"]:
        v.append(("command-timeout", {"argv": argv[1:]}))
    for o in obs["opens"]:
        real = os.path.realpath(o["path"]) if not o["path"].startswith(("/proc/", "<")) else o["path"]
        if not o["write"]:
            if real in ro_real and o["ok"]:
                facts["readonly_opens"] += 1
            continue
        if real == out_real:
            if o["ok"]:
                facts["output_write_opens"] += 1
            continue
        if is_allowed_nonfile(o["path"]):
            facts["allowed_nonfile_writes"].append(o["path"])
            continue
        if not o["ok"]:
            facts["failed_foreign_attempts"] += 1
            continue
        if real in ro_real:
            v.append(("seed-or-archive-opened-for-write", {"path": o["path"], "flags": o["flags"]}))
        else:
            v.append(("foreign-file-written", {"path": o["path"], "flags": o["flags"]}))
    for m in obs["mutations"]:
        if m["ok"]:
            v.append(("unexpected-" + m["kind"], {"call": m["call"], "paths": m["paths"]}))
        else:
            facts["failed_foreign_attempts"] += 1
    for t in obs["ftruncates"]:
        facts["ftruncates"] += 1
        if t["path"] is None:
            v.append(("ftruncate-unknown-fd", {"fd": t["fd"]}))
        elif os.path.realpath(t["path"]) != out_real:
            v.append(("foreign-file-truncated", {"path": t["path"]}))
    for relp, what in snapshot_diff(before, after):
        if os.path.realpath(os.path.join(case_dir, relp)) != out_real:
            if mode == "in-place-hardlink" and relp == os.path.join("out", "snapshot.img") and what == "changed":
                # the second name of the output: it changes with it as long as both are still the same file
                try:
                    if os.path.samefile(os.path.join(case_dir, relp), out_abs):
                        continue
                except OSError:
                    pass
            v.append(("side-file-left", {"path": relp, "what": what}))
    if mode == "in-place-hardlink":
        try:
            same = os.path.samefile(os.path.join(case_dir, "out", "snapshot.img"), out_abs)
        except OSError:
            same = False
        if not same:
            v.append(("output-replaced-instead-of-updated-in-place", {"mode": mode}))
    ok_out = False
    try:
        with open(out_abs, "rb") as f:
            ok_out = f.read() == source
    except OSError:
        pass
    if failing:
        facts["failing_mode_rc"] = r["rc"]
        if not r["timed_out"] and r["rc"] == 0 and not ok_out:
            v.append(("failing-clone-reported-success", {"rc": r["rc"], "mode": mode}))
    elif not r["timed_out"] and (r["rc"] != 0 or not ok_out):
        v.append(("valid-operation-failed", {"rc": r["rc"], "output_equals_source": ok_out,
                                             "stderr": r["stderr"].decode("utf-8", "replace")[:300]}))
    if case["loc"] == "http":
        facts["http_requests"] = len(srv.requests_for("c16=" + os.path.basename(case_dir)))
    return v, facts


def run_compress_case(env_, case, case_dir, log_path):
    bita = env_["bita"]
    source = b"" if case.get("empty") else env_["compress_source"]
    for sub in ("in", "out"):
        os.makedirs(os.path.join(case_dir, sub))
    rel = case["style"] == "rel"

    def P(relpath):
        return relpath if rel else os.path.join(case_dir, relpath)

    arch_rel = os.path.join("out", ARCHIVE_NAMES[case["chunker"]])
    arch_abs = os.path.join(case_dir, arch_rel)
    temp_abs = rust_with_extension(arch_abs, ".tmp")
    argv = [bita, "compress"] + CHUNKERS[case["chunker"]] + ["--compression", case["compression"]]
    stdin_data = None
    in_abs = None
    if case["input"] == "file":
        in_abs = os.path.join(case_dir, "in", "input.bin")
        with open(in_abs, "wb") as f:
            f.write(source)
        argv += ["-i", P(os.path.join("in", "input.bin"))]
    else:
        stdin_data = source
    argv.append(P(arch_rel))
    if case.get("verbose"):
        argv.insert(1, case["verbose"])

    before = snapshot(case_dir)
    r = observed_run(argv, case_dir, log_path, stdin_data=stdin_data)
    after = snapshot(case_dir)
    obs = r["obs"]
    arch_real, temp_real = os.path.realpath(arch_abs), os.path.realpath(temp_abs)
    in_real = os.path.realpath(in_abs) if in_abs else None
    v = []
    facts = {"output_write_opens": 0, "temp_write_opens": 0, "allowed_nonfile_writes": [], "failed_foreign_attempts": 0,
             "events": r["events"], "rc": r["rc"], "temp_unlinks": 0, "temp_name": None}
    if r["timed_out"]:
        v.append(("command-timeout", {"argv": argv[1:]}))
    for o in obs["opens"]:
        if not o["write"]:
            continue
        real = os.path.realpath(o["path"]) if not o["path"].startswith(("/proc/", "<")) else o["path"]
        if real == arch_real:
            facts["output_write_opens"] += 1 if o["ok"] else 0
        elif real == temp_real:
            facts["temp_write_opens"] += 1 if o["ok"] else 0
            facts["temp_name"] = os.path.basename(o["path"])
        elif is_allowed_nonfile(o["path"]):
            facts["allowed_nonfile_writes"].append(o["path"])
        elif not o["ok"]:
            facts["failed_foreign_attempts"] += 1
        elif in_real and real == in_real:
            v.append(("input-opened-for-write", {"path": o["path"], "flags": o["flags"]}))
        else:
            v.append(("foreign-file-written", {"path": o["path"], "flags": o["flags"]}))
    for m in obs["mutations"]:
        if not m["ok"]:
            facts["failed_foreign_attempts"] += 1
            continue
        if m["kind"] == "unlink" and os.path.realpath(m["paths"][0]) == temp_real:
            facts["temp_unlinks"] += 1
            continue
        v.append(("unexpected-" + m["kind"], {"call": m["call"], "paths": m["paths"]}))
    if facts["temp_unlinks"] > 1:
        v.append(("unexpected-unlink", {"paths": [temp_abs], "note": "temp file unlinked %d times" % facts["temp_unlinks"]}))
    for t in obs["ftruncates"]:
        if t["path"] is None:
            v.append(("ftruncate-unknown-fd", {"fd": t["fd"]}))
        elif os.path.realpath(t["path"]) not in (arch_real, temp_real):
            v.append(("foreign-file-truncated", {"path": t["path"]}))
    diff = snapshot_diff(before, after)
    for relp, what in diff:
        real = os.path.realpath(os.path.join(case_dir, relp))
        if real == arch_real and what == "added":
            continue
        if real == temp_real:
            v.append(("temp-file-left-behind", {"path": relp}))
        elif in_real and real == in_real:
            v.append(("input-modified", {"path": relp, "what": what}))
        else:
            v.append(("side-file-left", {"path": relp, "what": what}))
    produced = (os.path.relpath(arch_abs, case_dir), "added") in diff
    if not r["timed_out"] and (r["rc"] != 0 or not produced):
        v.append(("valid-operation-failed", {"rc": r["rc"], "archive_created": produced,
                                             "stderr": r["stderr"].decode("utf-8", "replace")[:300]}))
    elif not r["timed_out"]:
        if facts["temp_unlinks"] == 0 and not any(c == "temp-file-left-behind" for c, _ in v):
            v.append(("temp-file-not-removed-by-unlink", {"temp": temp_abs}))
        # sanity: the archive clones back to the input (outside the snapshotted directory)
        rt = os.path.join(env_["rt_dir"], os.path.basename(case_dir) + ".bin")
        c = run_plain([bita, "clone", arch_abs, rt])
        same = False
        if c.returncode == 0:
            with open(rt, "rb") as f:
                same = f.read() == source
        if not same:
            declared = None
            try:
                declared = parse_info(bita, arch_abs)[1]
            except Machinery:
                pass
            on_disk = os.path.getsize(arch_abs)
            cls = "compress-archive-truncated" if declared is not None and on_disk < declared else "compress-roundtrip-mismatch"
            v.append((cls, {"clone_rc": c.returncode, "archive_bytes": on_disk, "declared_bytes": declared,
                            "stderr": c.stderr.decode("utf-8", "replace")[:200]}))
    return v, facts


def run_case(env_, idx, case):
    case_dir = os.path.join(env_["root"], "cases", "k%04d" % idx)
    os.makedirs(case_dir)
    log_path = os.path.join(env_["root"], "logs", "k%04d.strace" % idx)
    if case["kind"] == "clone":
        v, facts = run_clone_case(env_, case, case_dir, log_path)
    else:
        v, facts = run_compress_case(env_, case, case_dir, log_path)
    if not env_.get("keep"):
        shutil.rmtree(case_dir, ignore_errors=True)
        try:
            os.remove(log_path)
        except OSError:
            pass
    return case, v, facts


# ------------------------------------------------------------------------------------------------
# environment (sources, archives, server) shared by run() and replay()
# ------------------------------------------------------------------------------------------------
class Env:
    def __init__(self, ctx, seed, variants):
        self.ctx, self.seed, self.variant_names = ctx, seed, variants
        self.root = None
        self.server = None
        self.env = None

    def __enter__(self):
        trace_syscalls()
        bita = self.ctx["bita"]
        if not os.access(bita, os.X_OK):
            raise Machinery("bita binary missing: %s" % bita)
        self.root = tempfile.mkdtemp(prefix="verif-c16-")
        try:
            for sub in ("cases", "logs", "setup", "rt"):
                os.makedirs(os.path.join(self.root, sub))
            variants, files, attempts = {}, {}, {}
            for name in self.variant_names:
                source = gen_source(self.seed, name)
                archive, checksum, tries = build_archive(bita, os.path.join(self.root, "setup", name), source,
                                                         variant_args(name, available_compressions(bita)))
                variants[name] = {"source": source, "archive": archive, "checksum": checksum, "name": name + ".cba",
                                  "material": _seed_material(source, name, self.seed)}
                files[name + ".cba"] = archive
                attempts[name] = tries
            self.server = RangeServer(files).start()
            self.env = {"bita": bita, "root": self.root, "server": self.server, "variants": variants,
                        "compress_source": random.Random("c16-compress-%d" % self.seed).randbytes(20 * 1024 + 77),
                        "rt_dir": os.path.join(self.root, "rt"), "setup_attempts": attempts}
        except BaseException:
            self.__exit__(None, None, None)
            raise
        return self.env

    def __exit__(self, *exc):
        if self.server is not None:
            self.server.stop()
            self.server = None
        if self.root:
            shutil.rmtree(self.root, ignore_errors=True)
            self.root = None
        return False


def _example(case, cls, info, seed):
    ex = {"leg_module": "c16", "class": cls, "seed": seed, "case": case, "observed": info}
    return ex


def run(ctx):
    t0 = time.time()
    tier = ctx.get("tier", "quick")
    seed = int(ctx.get("seed", 0))
    comps = available_compressions(ctx["bita"])
    cases = clone_cases(tier) + compress_cases(tier, comps)
    variants = sorted({c["variant"] for c in cases if c["kind"] == "clone"})
    classes = {}
    modes_all, modes_blind = set(), set()
    counters = {"clone_runs": 0, "compress_runs": 0, "strace_events": 0, "failed_foreign_attempts": 0,
                "http_requests": 0, "readonly_opens_of_seed_or_archive": 0, "ftruncate_calls": 0}
    nonfile_writes = set()
    temp_names = set()
    samples = []
    with Env(ctx, seed, variants) as env_:
        with concurrent.futures.ThreadPoolExecutor(max_workers=WORKERS) as pool:
            futures = [pool.submit(run_case, env_, i, c) for i, c in enumerate(cases)]
            results = [f.result() for f in futures]
        server_errors = list(env_["server"].errors)
        attempts = env_["setup_attempts"]
    for case, v, facts in results:
        key = mode_key(case)
        modes_all.add(key)
        if facts["output_write_opens"] < 1:
            modes_blind.add(key)
        counters["clone_runs" if case["kind"] == "clone" else "compress_runs"] += 1
        counters["strace_events"] += facts["events"]
        counters["failed_foreign_attempts"] += facts["failed_foreign_attempts"]
        counters["http_requests"] += facts.get("http_requests", 0)
        counters["readonly_opens_of_seed_or_archive"] += facts.get("readonly_opens", 0)
        counters["ftruncate_calls"] += facts.get("ftruncates", 0)
        nonfile_writes.update(facts["allowed_nonfile_writes"])
        if facts.get("temp_name"):
            temp_names.add(facts["temp_name"])
        seen = set()
        for cls, info in v:
            c = classes.setdefault(cls, {"class": cls, "count": 0, "examples": []})
            if cls not in seen:           # count cases, not syscalls
                c["count"] += 1
                seen.add(cls)
                if len(c["examples"]) < 3:
                    c["examples"].append(_example(case, cls, info, seed))
    if server_errors:
        raise Machinery("RangeServer reported errors: %r" % server_errors[:3])
    for want in (("clone", "fixed", "plain", "local", "none"), ("clone", "fixed", "in-place", "http", "verify-output"),
                 ("clone", "fixed", "seed2", "local", "verify-header"), ("compress", "stdin", "buzhash", "brotli"),
                 ("compress", "file", "fixed", "none")):
        for case, v, facts in results:
            if mode_key(case) == want:
                samples.append({"case": case, "rc": facts["rc"], "output_write_opens": facts["output_write_opens"],
                                "strace_events": facts["events"], "violations": sorted({c for c, _ in v})})
                break
    coverage = {
        "evaluations": len(results),
        "distinct_nontrivial": len(modes_all - modes_blind),
        "distinct_modes": len(modes_all),
        "rule": "full grid: clone {%s} x {local, http} x {none, --verify-output, --verify-header <right>} x {relative, absolute paths}"
                " x archive variants %s; compress {file, stdin} x {fixed, RollSum, BuzHash} x compressions x {relative, absolute}."
                " A mode (path style folded in) is non-trivial when the strace log of every one of its runs shows at least one"
                " successful write-open of the output, i.e. the observation demonstrably sees the writes it is meant to police"
                % (", ".join(CLONE_MODES), variants),
        "samples": samples,
        "exhaustive": True,
        "strace_syscalls": trace_syscalls(),
        "temp_file_names_observed": sorted(temp_names),
        "allowed_nonfile_write_opens_observed": sorted(nonfile_writes),
        "setup_archive_build_attempts": attempts,
        "compressions_available": comps,
    }
    coverage.update(counters)
    return {
        "property_id": ctx.get("pid", "C16"), "level": "exploration", "coverage": coverage,
        "assumptions": [
            "strace -f sees every system call of the bita process and its threads; writes through mmap or io_uring would not show as opens/unlinks (bita uses neither)",
            "bita is one process whose threads share the fd table and never chdir (checked on every run: a fork, second execve or chdir is a MACHINERY error)",
            "only successful calls count as 'written/removed'; failed attempts on foreign paths are counted in failed_foreign_attempts",
            "sources have no repeated chunk, so known defect F2 (in-place underflow) is not exercised here",
        ],
        "violation_classes": sorted(classes.values(), key=lambda c: c["class"]),
        "wall_s": round(time.time() - t0, 2),
    }


# Classes whose cause is a race inside bita (F4: temp file read back before its last write landed):
# one re-run says little, so a replay repeats the case until it shows again (bounded).
RACY_CLASSES = {"compress-archive-truncated": 60, "compress-roundtrip-mismatch": 60}


def replay(ctx, detail):
    case = detail["case"]
    seed = int(detail.get("seed", 0))
    want = detail.get("class")
    variants = [case["variant"]] if case["kind"] == "clone" else []
    with Env(ctx, seed, variants) as env_:
        for i in range(RACY_CLASSES.get(want, 1)):
            _, v, _ = run_case(env_, i, case)
            if any(cls == want for cls, _ in v) if want else bool(v):
                return True
    return False


if __name__ == "__main__":
    import json
    tier_ = sys.argv[1] if len(sys.argv) > 1 else "quick"
    verif = os.path.dirname(os.path.dirname(os.path.abspath(__file__)))
    res = run({"pid": "C16", "tier": tier_, "seed": int(os.environ.get("VERIF_SEED", "0")),
               "bita": os.path.join(verif, "build", "bita", "release", "bita"),
               "vh": os.path.join(verif, "build", "harness", "release", "vh"),
               "verif": verif, "build": os.path.join(verif, "build")})
    print(json.dumps(res, indent=1))
