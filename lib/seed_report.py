#!/usr/bin/env python3
"""Stores every confirmed seeded change under /verif/seeded/ and prints the markdown table of DESIGN.md section 9."""
import json, os, subprocess, sys
FIRST_PASS_MISSED = {  # target check did not catch it before the strengthening recorded in `fix`
 "C01b": "C01 had no chunk beyond 2 MiB written through a real tokio file -> two large-chunk CLI round trips",
 "C02a": "no leg combined --seed with --seed-output at CLI level -> seed x prior combinations in the C02 CLI leg",
 "C05b": "no scenario whose LAST write is a re-order move -> permutation-only / rotation-only scenarios in the LD_PRELOAD leg",
 "C07a": "bodies were never fragmented in C07 -> flush at / one byte past every chunk boundary",
 "C07b": "same (tiny bodies arrived in one read and masked the early reset)",
 "C09a": "no chunk beyond 2 MiB, no backlog of unscanned bytes -> 11 MiB input with 3-5 MiB chunks",
 "C09b": "windows >= 21 only with <= 16 filter bits -> large windows with 17-22 bits on MiB inputs, window sweep 5..256",
 "C10b": "all streams were delivered in one read -> 1-in-16 slice with 1- and 3-byte reads",
 "C11a": "stdin call site of the CLI writer never exercised by C11 -> real binary with piped source judged by the independent decoder",
 "C12b": "no run started from the debris of a failed run -> stale temp file history in the binary leg",
 "C14a": "device-too-small cell only with an incompressible archive -> compressible source, device just below the source size",
 "C14b": "compress onto an existing block device was not a cell -> added",
 "C16a": "only successful clones were traced -> clones failing after the output was opened",
 "C16b": "the empty source was not among the compress configurations -> added",
 "C17b": "the independent encoder never stored a compressed chunk larger than its source -> three-valued storage form",
}
ROUND2_FIX = {
 "C01d": "CLI round trip cloned only onto new files -> second clone over an existing, longer file with --force-create",
 "C03d": "no leg combined --seed-output with a stdin seed -> real-binary leg: every layout x every word piped into --seed -",
 "C06c": "--seed-output never together with --force-create -> alternate scenarios of the CLI legs carry both flags",
 "C06d": "C06's CLI HTTP leg served unfragmented bodies -> every 40th scenario with bodies flushed byte by byte",
 "C07c": "C07 drove read_chunks directly, never Archive::chunk_stream on a source with repeated chunks -> chunk_stream leg over all subsets",
 "C08d": "the scripted file was 12 bytes: sizes beyond 64 KiB unreachable -> read_at / read_chunks around 2^16..2^18 on a 300 kB file",
 "C11c": "C11 had no run starting from the debris of a failed run -> stale temp file in every other run of the stdin leg",
 "C10c": "windows of C10 were 1..4 and of C09 at most 256: 32-bit wrap-around of the RollSum sums never happened -> windows 4200 / 6000 / 16384 in C09's sweep and a large-window family in C10",
 "C12d": "every compress of the C12 binary leg wrote to a fresh path -> one --force-create run per group over an existing, longer file",
 "C13c": "the strace leg used 64-byte hashes only -> every case also with --hash-length 16",
 "C14d": "the quick grid passed no extra option on 'output exists' cells -> --verify-output on every existing-file state",
 "C15d": "declared sizes were adversarial one descriptor at a time -> a run of 64 adjacent descriptors of 256 MiB each (and 3 x 4 GiB in thorough)",
 "C16c": "every failing clone failed after a successful open -> -f onto a dangling symlink and onto a running executable",
 "C16d": "no run with -v / -vv -> verbosity flags on clone and compress cases",
 "C17d": "C17 never cloned in place -> the CLI slice also clones over a prior output holding the chunks in reverse order",
}
ROUND3_FIX = {
 "C01e": "no source reached 4 GiB -> a virtual source of 4 GiB + 48 MiB through the real library writer and clone output into a comparing sink (quick), and a sparse 4 GiB file through the real binary (thorough)",
 "C02e": "seeded clones used chunks of a few bytes -> 3 MiB chunks (more than one write(2) takes) supplied by a seed file, by stdin and by the archive, on a real file",
 "C04e": "only every 7th corruption went through the real binary and none decoded to a shorter chunk -> every structural corruption through the binary, a compressed tail chunk whose payload is laid over another chunk's",
 "C05e": "quick sources had at most 2 words: no small chunk had to land deep inside a bigger one that still had to move -> the six orders of three different words as sources (and the source shifted by every letter as prior output)",
 "C06e": "CLI in-place priors had at most 2 letters in the quick tier -> priors [a, a, b] (a chunk twice before another one), duplicate layouts in the binary leg",
 "C07e": "C07 never ran a clone: the set of missing chunks was the one handed to the reader -> C06's CLI scenarios over HTTP judged by C07's statement against the reference clone model",
 "C07f": "no run was larger than a few hundred bytes -> runs of 1..9 adjacent chunks of 8 MiB served from a virtual hole",
 "C09f": "C09 had no leg on the command's input handling -> the C12 binary leg (now with the input given as a named pipe and as /dev/stdin) is also a leg of C09",
 "C12e": "the schedule subject flushed the output itself before looking at it -> the archive is read through a second handle at the moment create_archive returns (a trailing write in flight makes it schedule-dependent); the input sweep writes into a deferred writer",
 "C12f": "no group carried more than one metadata entry -> two groups with 9 metadata entries",
 "C13e": "the strace leg never passed --verify-output -> every case with and without it",
 "C13f": "chunks of the strace leg were 4 bytes -> 3 MiB chunks, consecutive write(2)s merged before judging",
 "C14e": "the change unlinks the output, on a loop device the device NODE: the leg could not detach it and ended in a machinery error instead of a verdict -> nodes are put back before detaching, the removal is judged by the before/after comparison",
 "C15e": "the scripted server redirected once -> a redirect chain of 300 hops that only a client-side hop limit ends, judged by the number of redirects followed",
 "C15f": "no mutation touched metadata keys -> 85 adversarial keys (a multi-byte character straddling every cut position 1..80, long, control characters, empty)",
 "C16f": "stdin seeds were always fed through a pipe -> stdin redirected from a regular file, alone and in place",
}
ROUND4_FIX = {
 "C01g": "the CLI round trip never updated in place -> a third clone with --seed-output over a copy whose first and last bytes differ",
 "C01h": "no clone of C01 met a transfer failure -> HTTP clones with the connection dropped inside the chunk data at 7 positions under a retry budget",
 "C02h": "sources had at most 3 / 4 chunks: a chunk never occurred in a run AND again later -> seven longer sources with runs and separated repeats of a chunk (also for C06, C13)",
 "C03g": "in-place moves used chunks of a few bytes -> shifts, a rotation and a swap of whole blocks of 2 MiB + 1 and 3 MiB on a real file",
 "C04g": "server faults ran with a retry budget of 0 -> every fault also persisting over all further requests under a budget of 2",
 "C04h": "no server ever went silent -> a body that stalls after one byte under --http-timeout 1",
 "C05g": "the LD_PRELOAD leg used 64-byte hashes and --buffered-chunks 2 -> scenarios with 4- / 5-byte hashes, a chunk needed twice and 9 / 16 chunks in flight",
 "C06g": "seeds were regular files or stdin -> the same contents offered as a named pipe and as a loop block device, observed at the logging server",
 "C08h": "the scripted file applied a seek at once -> it now enforces the AsyncSeek contract (a read before poll_complete returned Ready fails, as tokio::fs::File does)",
 "C09g": "C09 had no observation of how a clone chunks its seeds / prior output -> differential binary leg: the same bytes as seed file and as prior output must yield the same reuse",
 "C09h": "(same leg) the reuse found in seed B must not depend on an unrelated seed given before or after it",
 "C10h": "read scripts had no error answers -> a transient ErrorKind::Interrupted answer in the explicit-state search and in the fragmented-read slice",
 "C11g": "the change makes the writer non-deterministic (randomly seeded hash map): the schedule explorer took the differing replay for a machinery fault and exited 2 -> a violation is reported when one of three further replays shows the same class; varying outcomes are recorded for C12",
 "C11h": "the reader's accessors were compared with the decoder for a handful of archives only -> for every archive of the sweep (empty source x truncated hash length included)",
 "C12h": "the library writer's sink always took whole buffers -> sinks accepting 5 / 1 bytes per write call in the delivery sweep",
 "C14g": "no cell named the output as a seed -> seed kind 'the output path itself' in the CLI grid (refusal cells)",
 "C14h": "block devices were always named by their node -> cells with the device behind a symbolic link",
 "C16g": "compress never started with a stale temp file in C16 -> state 'stale temp file of an interrupted run' in the compress grid",
}
ROUND5_FIX = {
 "C01i": "the binary leg of C01 fed compress from files and stdin only -> every 5th file case through a named pipe given with -i",
 "C05i": "the LD_PRELOAD leg never combined --seed-output with a seed file -> two such scenarios (the seed's chunk lands on a chunk the output still needs elsewhere)",
 "C06i": "reads of a LOCAL archive were observed at library level only -> the real binary under strace: every byte read from the archive file lies in the header or in the stored range of a missing chunk",
 "C06j": "seed == source was cloned for sources whose last chunk was long enough -> 14 source lengths under RollSum so that the last chunk is shorter than the minimum, seed file and stdin seed, requests observed at the server",
 "C07i": "the chunk_stream leg used archives whose chunk data follows the header directly -> every subset again with 100 bytes of slack (header re-encoded by the independent encoder)",
 "C08j": "the retry budget was passed alone -> also next to --http-timeout and --http-header",
 "C09i": "the differential leg compared two clones that share the archive's chunker configuration -> D0: a clone seeded with the source itself must take every byte from the seed (compress-time == clone-time chunking), incl. configurations with the minimum below the window",
 "C09j": "(same) 13 source lengths per configuration so that the last chunk is shorter than the minimum",
 "C10i": "C10 had no observation at the command line -> new = P1+S cloned with old = P2+S as prior output: bytes fetched stay below |P1| + 4 maximal chunks",
 "C10j": "(same leg) old = P2+S as seed file, |P2| > |P1|",
 "C11i": "the input sweep wrote into a sink that takes whole buffers -> sinks taking 5 bytes or 1 byte per write call (as C12's delivery sweep since round 4)",
 "C13i": "read answers of the in-memory device had no transient error -> a read cut short and followed by ErrorKind::Interrupted at each of the first 12 reads of in-place scenarios, judged by the write oracle",
 "C14i": "no cell used the archive of an empty source -> fourth archive in the CLI grid",
 "C14j": "HTTP cells never carried a retry budget -> --http-retry-count / --http-timeout on half of the HTTP cells (both values for every state x flag subset)",
 "C16i": "in-place cycles moved chunks of 1 KiB -> 2 MiB chunks in a cycle, local and HTTP, under strace",
 "C16j": "the output never had a second hard link -> mode in-place-hardlink (both names must still be one file afterwards)",
}
ROUND6_FIX = {
 "C02k": "the quick CLI leg of C02 used 64-byte hashes only -> 64 and 4 in both tiers",
 "C02l": "seed scenarios had a handful of chunks -> a 3 MiB source in ~3000 chunks with an older version, 3 MiB of unrelated data, both, and unrelated data on stdin as seeds",
 "C03l": "large blocks were moved by whole multiples of their size -> content-defined chunks of 1-4 MiB with 30 kB / 1.5 MiB inserted in front and 300 kB removed (a chunk's destination overlaps its own old place)",
 "C05k": "the re-run after a crash never passed --verify-output and no scenario updated to a smaller image -> every other re-run with --verify-output (regular files), scenario in-place-to-smaller",
 "C06k": "reads of the local reader were observed per requested range, never at the device below it -> a recording device under the real IoReader: for every subset of stored chunks of ascending / descending / mixed sizes the bytes it returns lie inside the requested chunks",
 "C07k": "no configuration with the minimum chunk size below the window reached an HTTP clone -> seed == source over HTTP for 5 chunker configurations: no request beyond the header",
 "C07l": "no layout ended in a short chunk shared with a shorter prior output -> layouts short-tail-shared (the C06 in-place observation is now also a leg of C07)",
 "C08k": "fault sequences exhausted the budget inside one request or hit one later run -> failures spread over several runs, each within the budget of its own request",
 "C12k": "all chunks of the C12 legs were far below 1 MiB -> a group with 2 MiB runs followed by 2.3 MiB of irregular text under brotli, buffered-chunks 2 and 8, repeated runs",
 "C14k": "--verify-header was right or wrong at full length -> a prefix of the right value and the empty value (neither equals the checksum: refusal)",
 "C14l": "the output was there or not when the command started -> it appears while the header is fetched (the server creates it before answering)",
 "C15k": "hostile headers reached the library operations and the printing code, not the command around them -> the real clone_cmd on files with a seed that holds the archive's chunks, for every single field mutation",
 "C15l": "the scripted server always sent a well-formed Content-Range -> five malformed values",
 "C16l": "the archive was always a regular file or a URL -> archive path that is a named pipe (failing mode: nothing else may be written)",
 "C17k": "no source repeated a chunk three times -> sources 0 1 0 1 0, 0 0 1 0 0, 0 1 0 0 1 0 1",
 "C17l": "every archive of C17 recorded a minimum chunk size >= the window size -> the slack-7 slice records minimum 1 (the reader's chunker configuration is compared with the independent decoder's for every archive)",
}
ROUND7_FIX = {
 "C01n": "C01 judged only its own compress-then-clone cells of the CLI grid -> every clone cell of the grid (its archives are written by the binary's own compress) is judged as a round trip",
 "C02m": "no source of the CLI legs held an all-zero chunk -> both grid sources hold one (a 'sparse output' shortcut leaves stale bytes under -f / --seed-output / on a device)",
 "C02n": "C02 left the output-as-its-own-seed to C03 -> the L0 pairs (<= 4 chunks of sizes 1-3, real planner and executor) are also a leg of C02, judged by the final bytes",
 "C04m": "base archives used 8-, 16- and 64-byte hashes -> a 4-byte base (quick), 5- and 7-byte bases (thorough)",
 "C07m": "C07 ran without transfer failures -> every run of every 8th subset cut after 1 byte / half its bytes under a retry budget of 1: the follow-up request keeps the run's last byte",
 "C08m": "every case used a fresh reader -> a second call on the SAME reader (ranges in reverse order) after every HTTP case and, for the local reader, every pair of APIs under every single deviation",
 "C09n": "the differential leg passed --seed-output alone -> also next to -f / --verify-output / --buffered-chunks",
 "C10n": "streams of C10 were at most 70 kB -> a family with chunks of 0.3-2 MiB on a 5 MB suffix, the second stream delivered whole or in 64 KiB reads",
 "C12n": "one writer at a time -> two library writers joined in one task as a subject of the schedule explorer (each archive must equal the one written alone)",
 "C14m": "the stale temp file only occurred with an absent output -> compress state 'archive exists AND a stale temp file of a sibling run is there' (refusal cell)",
 "C15m": "Content-Length lies were small -> declared lengths of 2^40 / 2^62; the server leg now runs in isolated workers (address-space limit, watchdog) like the header legs",
 "C15n": "no archive of the corruption leg had chunk hashes shorter than 8 bytes -> the 4-byte base of C04 is part of it (the error of a failed verification is formatted, as the CLI does)",
 "C17n": "no archive of C17 described a source beyond 4 GiB -> a 3 MiB archive of three stored chunks describing 4 100 MiB + 12 345 bytes (a chunk ends exactly at offset 2^32), local and HTTP, comparing sink",
}
ROUND8_FIX = {
 "C04p": "the CLI legs of C04 always passed --buffered-chunks 2 -> rotated over 1 / 2-3 / 8-16",
 "C15o": "every server case carried --http-timeout -> a chunk-data response that delivers everything, promises one more byte and stays open for 12 s, with no receive timeout on the command line",
 "C17p": "C17's clone_cmd slice wrote to new files or in place -> also --force-create over an existing longer file, local and HTTP, without --verify-output",
 "C01o": "C01 left in-place layouts to C03 -> the L0 pairs (<= 4 chunks of sizes 1-3, real planner and executor) are a leg of C01 too, judged by the final bytes",
 "C05o": "C05's crash enumeration re-ran over the remains of ITS OWN first run only -> the in-place run over every prior layout of <= 4 chunks (whatever an interrupted run of this or another image left) is a leg of C05",
 "C05p": "(same)",
 "C06o": "no transfer of C06 ever failed -> on the grid cells that carry a retry budget the first chunk-data response is cut after 2 bytes; the follow-up request is modelled (rest of that run and no more)",
 "C07o": "two seeds were only given as two files -> grid seed kinds 'file + stdin' and 'stdin + file' (both orders of the options), together holding every chunk; C07 also reports bytes fetched beyond the missing chunks",
 "C10o": "every configuration of C10's command-line leg had its minimum above the window -> RollSum / BuzHash with the minimum below the window",
 "C12o": "every archive of a group was written under one set of options per process -> for every ordered pair of 10 option tuples a fresh process writes both archives; the second must equal the one written alone",
 "C16o": "the output was never a symbolic link with a relative target outside the current directory -> mode force-symlink-elsewhere",
 "C16p": "no output path left a symlinked directory through `..` -> mode in-place-dotdot-through-symlink (the strace observer itself folded `..` textually and had to be corrected first)",
}
# written by the agents, confirmed to change behaviour, but judged NOT to break the property as stated: not kept
REJECTED = {
 "C13d": "--force-create truncates the prior output before it is scanned: the scan then finds nothing in place, so the statement (about locations the scan found) holds vacuously; the author's own notes say so",
 "C09m": "the library writer's de-duplication table keyed by the truncated checksum (the same change as C12i): the chunker's stream - what C09 speaks about - is untouched; with 1-3 byte hashes two different chunks sharing a truncated hash make an archive ambiguous for every reader anyway (assumption A1). Reported by C12 (archive-differs-between-deliveries), as C12i is",
 "C09o": "the CLI writer's duplicate lookup returns a stale index for the pattern A B A A: the archive's rebuild order is wrong (reported by C01 roundtrip-failed and C11 archive-nonconforming-rebuild); the chunker's stream, which C09 speaks about, is untouched - same judgement as C09m",
 "C10p": "each seed is chunked with the maximum chunk size lowered to the biggest chunk still wanted: as with C10m the two streams are no longer chunked under one configuration, so C10's statement (about one chunker configuration) is not what breaks; what breaks is that chunking depends on the state of the clone - reported by C09 (chunks-found-differ-between-seed-file-and-prior-output) and C06 (available-chunk-fetched). The legs it motivated (minimum below the window, an earlier seed never increases what is fetched) stay",
 "C10m": "the chunker configuration read back from an archive forgets the maximum chunk size: each stream still resynchronises under the configuration it is chunked with - C10's statement holds - what breaks is that compress and clone use different configurations, which C11 (reader-reports-different-values), C17 and C09's compress-vs-clone differential leg report; a bound-based C10 leg that would flag it (average == maximum chunk size) raised an alarm on the unchanged tree, where such streams legitimately do not resynchronise, and was dropped before it was committed",
 "C14c": "an archive without a compression sub-message is accepted and cloned correctly instead of being refused: the change moves the line between valid and invalid archives (proto3 reads a missing sub-message as defaults), it does not touch an output on a refusal",
}
rows = []
for pid in [f"C{i:02d}" for i in range(1, 18)]:
    for v in "abcdefghijklmnop":
        d = f"/root/work/seed/{pid}"
        if not os.path.exists(f"{d}/{v}.eval.json"):
            continue
        if f"{pid}{v}" in REJECTED:
            rows.append(f"| {pid}{v} | not kept: {REJECTED[pid + v]} | - | - | - |")
            continue
        r = subprocess.run([sys.executable, "/verif/lib/seed_store.py", pid, v], capture_output=True, text=True)
        meta_p = f"/verif/seeded/{pid}{v}/meta.json"
        if not os.path.exists(meta_p):
            rows.append(f"| {pid}{v} | (not confirmed) | | | |")
            continue
        meta = json.load(open(meta_p))
        key = f"{pid}{v}"
        fpj = f"{d}/{v}.trial.quick.firstpass.json"
        missed = key in FIRST_PASS_MISSED
        if v in "cdefghijklmnop" and os.path.exists(fpj):
            fp = json.load(open(fpj))
            missed = fp.get(pid, {}).get("rc") != 1
            meta["first_pass_checks_commit"] = ("49a2c6c (the checks as they stood before the second round of seeded changes)" if v in "cd"
                                                else "bcaeac9 (the checks as they stood before the third round of seeded changes)" if v in "ef"
                                                else "f656d4f (the checks as they stood before the fourth round of seeded changes)" if v in "gh"
                                                else "c549579 (the checks as they stood before the fifth round of seeded changes)" if v in "ij"
                                                else "b4f1cb5 (the checks as they stood before the sixth round of seeded changes)" if v in "kl"
                                                else "de9091c (the checks as they stood before the seventh round of seeded changes)" if v in "mn"
                                                else "073c117 (the checks as they stood before the eighth round of seeded changes)")
        if missed:
            meta["first_pass"] = "missed by the target property's check; strengthened: " + FIRST_PASS_MISSED.get(key, ROUND2_FIX.get(key, ROUND3_FIX.get(key, ROUND4_FIX.get(key, ROUND5_FIX.get(key, ROUND6_FIX.get(key, ROUND7_FIX.get(key, ROUND8_FIX.get(key, "see DESIGN.md section 9"))))))))
        else:
            meta["first_pass"] = "caught by the target property's check as it stood when the change was written"
        json.dump(meta, open(meta_p, "w"), indent=1)
        notes = open(f"{d}/{v}_notes.md").read() if os.path.exists(f"{d}/{v}_notes.md") else ""
        title = notes.strip().splitlines()[0].lstrip("# ").strip() if notes.strip() else ""
        files = ", ".join(sorted({l.split("|")[0].strip() for l in subprocess.run(["git", "apply", "--stat", f"{d}/{v}.diff"], capture_output=True, text=True, cwd="/repo").stdout.splitlines() if "|" in l}))
        det = meta["detection"].get("quick", {}).get("detected_by", {})
        target = ", ".join(det.get(pid, [])) or "**not detected**"
        others = ", ".join(k for k in sorted(det) if k != pid) or "-"
        fp = "first pass" if not missed else "after strengthening"
        rows.append(f"| {key} | {title[:110]} ({files}) | {target} | {others} | {fp} |")
print("| id | change (files) | classes reported by the target check (quick) | other checks that report it | caught |")
print("|----|----------------|-----------------------------------------------|-----------------------------|--------|")
print("\n".join(rows))
