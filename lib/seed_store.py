#!/usr/bin/env python3
"""seed_store.py <ID> <variant> - keep a confirmed seeded change under /verif/seeded/<ID><variant>/:
patch.diff, the demonstration, the author's notes and meta.json (property, what it needs to manifest,
what was run to confirm it, which checks catch it)."""
import glob, json, os, shutil, sys
pid, v = sys.argv[1], sys.argv[2]
src = f"/root/work/seed/{pid}"
ev = json.load(open(f"{src}/{v}.eval.json"))
if not ev.get("confirmed"):
    print("not confirmed - not stored"); sys.exit(1)
dst = f"/verif/seeded/{pid}{v}"
os.makedirs(dst, exist_ok=True)
shutil.copy(f"{src}/{v}.diff", f"{dst}/patch.diff")
for f in glob.glob(f"{src}/{v}_demo.*"):
    if f.endswith((".rs", ".sh")):
        shutil.copy(f, dst)
notes = open(f"{src}/{v}_notes.md").read() if os.path.exists(f"{src}/{v}_notes.md") else ""
open(f"{dst}/notes.md", "w").write(notes)
trials = {}
for tier in ("quick", "thorough"):
    p = f"{src}/{v}.trial.{tier}.json"
    if os.path.exists(p):
        t = json.load(open(p))
        trials[tier] = {"detected_by": {k: x["classes"] for k, x in t.items() if x["rc"] == 1},
                        "not_detected_by": [k for k, x in t.items() if x["rc"] == 0],
                        "machinery_errors": {k: x["machinery"] for k, x in t.items() if x["rc"] == 2}}
meta = {
    "id": f"{pid}{v}", "breaks_property": pid,
    "files_changed": ev.get("files_changed"),
    "needs_to_manifest": (notes.split("\n\n")[1] if notes.count("\n\n") else notes)[:1200],
    "author": "independent sub-agent given only the property text and a scratch worktree",
    "confirmation": {
        "how": "lib/seed_eval.py in scratch worktree /root/work/wt/eval (never /repo): git apply; cargo test --workspace --no-fail-fast --offline; demonstration with and without the change",
        "suite_with_change": ev["suite_with_change"],
        "demo_kind": ev["demo_with_change"]["kind"],
        "demo_holds_without_change": ev["demo_without_change"]["holds"],
        "demo_holds_with_change": ev["demo_with_change"]["holds"],
    },
    "detection": trials,
}
json.dump(meta, open(f"{dst}/meta.json", "w"), indent=1)
print("stored", dst, {t: sorted(x["detected_by"]) for t, x in trials.items()})
