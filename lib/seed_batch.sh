#!/bin/bash
# seed_batch.sh <ID>:<variant> ...   confirm each seeded change, then run all quick checks against it
for x in "$@"; do
  id=${x%%:*}; v=${x##*:}; d=/root/work/seed/$id
  echo "=== $id/$v $(date +%T)"
  python3 /verif/lib/seed_eval.py $d $v > $d/$v.eval.json 2>&1
  python3 -c "import json;r=json.load(open('$d/$v.eval.json'));print('confirmed' if r.get('confirmed') else 'NOT CONFIRMED', r.get('suite_with_change'), r['demo_without_change']['holds'], r.get('demo_with_change',{}).get('holds'))"
  python3 /verif/lib/seed_trial.py $d $v quick 2>&1 | tail -1
done
