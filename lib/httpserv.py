"""A small threaded HTTP/1.1 server for the real-binary check legs (stdlib only).

    with RangeServer({"a.cba": archive_bytes}) as srv:
        subprocess.run([bita, "clone", srv.url("a.cba"), "out"])
        print(srv.log)           # [("/a.cba", "bytes=0-13"), ("/a.cba", "bytes=14-1108"), ...]

* `GET /<name>` (and `HEAD`) of the in-memory `files` dict; an optional `?query` is ignored for the
  lookup but kept in the log, so callers can tag requests (`srv.url("a.cba", "case=17")`).
* `Range: bytes=a-b | a- | -n` -> 206 + `Content-Range` + exact `Content-Length`; the end is clamped
  to the file size as RFC 9110 requires; a start at/after the end -> 416; no (or a multi-part /
  malformed) Range header -> 200 with the full body.
* keep-alive (HTTP/1.1 default, `Connection: close` honoured), one thread per connection.
* bound to 127.0.0.1 on an ephemeral port; never prints anything (errors are kept in `.errors`).
* `.log` is the ordered list of `(request_target, range_header_or_None)` of every request received;
  position in the list == the request index handed to the behaviour hook.
* `behaviour(request_index, path, range) -> None | dict` may override the response:
    status       int     replaces the status code
    body         bytes   replaces the body (Content-Length follows the new body)
    headers      dict    merged over the computed headers (value None removes a header)
    close_after  int     send the header block and only that many body bytes, then shut the
                         socket down gracefully (FIN, not RST) and end the connection
    refuse       bool    close the connection without sending anything

Raw `socket`/`socketserver` on purpose: nothing here comes from http.server, so every byte that
goes over the wire is decided in this file.
"""
import socket
import socketserver
import threading

_REASONS = {200: "OK", 206: "Partial Content", 301: "Moved Permanently", 302: "Found",
            400: "Bad Request", 403: "Forbidden", 404: "Not Found", 405: "Method Not Allowed",
            416: "Range Not Satisfiable", 500: "Internal Server Error", 503: "Service Unavailable"}

_MAX_HEAD = 64 * 1024


def parse_range(value, size):
    """-> ("none"|"ok"|"unsat", first, last) for a Range header value and a body size."""
    if value is None:
        return ("none", 0, 0)
    v = value.strip()
    if not v.lower().startswith("bytes="):
        return ("none", 0, 0)
    spec = v[6:].strip()
    if "," in spec or "-" not in spec:
        return ("none", 0, 0)            # multi-part or malformed: ignore the header (allowed)
    a, b = spec.split("-", 1)
    a, b = a.strip(), b.strip()
    try:
        if a == "":
            if b == "":
                return ("none", 0, 0)
            n = int(b)
            if n <= 0 or size == 0:
                return ("unsat", 0, 0)
            return ("ok", max(0, size - n), size - 1)
        first = int(a)
        last = int(b) if b != "" else size - 1
    except ValueError:
        return ("none", 0, 0)
    if first < 0 or (b != "" and last < first):
        return ("none", 0, 0)
    if first >= size:
        return ("unsat", 0, 0)
    return ("ok", first, min(last, size - 1))


class _Server(socketserver.ThreadingMixIn, socketserver.TCPServer):
    allow_reuse_address = True
    daemon_threads = True
    block_on_close = False
    request_queue_size = 256

    def __init__(self, addr, handler, owner):
        self.owner = owner
        super().__init__(addr, handler)

    def handle_error(self, request, client_address):  # never print
        import sys
        self.owner._note_error(repr(sys.exc_info()[1]))


class _Handler(socketserver.BaseRequestHandler):
    def setup(self):
        self.owner = self.server.owner
        self.request.settimeout(self.owner.idle_timeout)
        try:
            self.request.setsockopt(socket.IPPROTO_TCP, socket.TCP_NODELAY, 1)
        except OSError:
            pass
        self.buf = b""
        self.owner._conn_add(self.request)

    def finish(self):
        self.owner._conn_remove(self.request)

    # -- reading -------------------------------------------------------------------------------
    def _read_head(self):
        while b"\r\n\r\n" not in self.buf:
            if len(self.buf) > _MAX_HEAD:
                return None
            try:
                chunk = self.request.recv(65536)
            except (socket.timeout, OSError):
                return None
            if not chunk:
                return None
            self.buf += chunk
        head, self.buf = self.buf.split(b"\r\n\r\n", 1)
        return head

    def _discard_body(self, n):
        while len(self.buf) < n:
            try:
                chunk = self.request.recv(65536)
            except (socket.timeout, OSError):
                return False
            if not chunk:
                return False
            self.buf += chunk
        self.buf = self.buf[n:]
        return True

    # -- writing -------------------------------------------------------------------------------
    def _send(self, data):
        try:
            self.request.sendall(data)
            return True
        except (socket.timeout, OSError):
            return False

    def _graceful_close(self):
        try:
            self.request.shutdown(socket.SHUT_WR)
        except OSError:
            pass
        # drain what the peer still sends so that close() yields FIN rather than RST
        try:
            self.request.settimeout(0.2)
            for _ in range(16):
                if not self.request.recv(65536):
                    break
        except (socket.timeout, OSError):
            pass

    def handle(self):
        while not self.owner._stopping:
            head = self._read_head()
            if head is None:
                return
            lines = head.decode("latin-1").split("\r\n")
            while lines and lines[0] == "":      # tolerate a stray CRLF between requests
                lines.pop(0)
            parts = lines[0].split(" ") if lines else []
            if len(parts) != 3 or not parts[2].startswith("HTTP/"):
                self._send(b"HTTP/1.1 400 Bad Request\r\nContent-Length: 0\r\nConnection: close\r\n\r\n")
                return
            method, target, version = parts
            headers = {}
            for ln in lines[1:]:
                if ":" in ln:
                    k, v = ln.split(":", 1)
                    headers[k.strip().lower()] = v.strip()
            if "content-length" in headers:
                try:
                    if not self._discard_body(int(headers["content-length"])):
                        return
                except ValueError:
                    return
            rng = headers.get("range")
            index = self.owner._record(target, rng, headers)
            keep = version != "HTTP/1.0" and headers.get("connection", "").lower() != "close"
            if version == "HTTP/1.0" and headers.get("connection", "").lower() == "keep-alive":
                keep = True

            # the response this server would give on its own
            name = target.split("?", 1)[0].split("#", 1)[0].lstrip("/")
            data = self.owner.files.get(name)
            out_headers = {"Server": "verif-rangeserver", "Accept-Ranges": "bytes",
                           "Content-Type": "application/octet-stream"}
            if method not in ("GET", "HEAD"):
                status, body = 405, b""
                out_headers["Allow"] = "GET, HEAD"
            elif data is None:
                status, body = 404, b"not found\n"
            else:
                kind, first, last = parse_range(rng, len(data))
                if kind == "ok":
                    status, body = 206, data[first:last + 1]
                    out_headers["Content-Range"] = "bytes %d-%d/%d" % (first, last, len(data))
                elif kind == "unsat":
                    status, body = 416, b""
                    out_headers["Content-Range"] = "bytes */%d" % len(data)
                else:
                    status, body = 200, data

            # the caller's override
            close_after = None
            hook = self.owner.behaviour
            if hook is not None:
                ov = hook(index, target, rng)
                if ov:
                    if ov.get("refuse"):
                        try:
                            self.request.close()
                        except OSError:
                            pass
                        return
                    if "status" in ov:
                        status = int(ov["status"])
                    if "body" in ov:
                        body = bytes(ov["body"])
                    for k, v in (ov.get("headers") or {}).items():
                        for existing in [e for e in out_headers if e.lower() == k.lower()]:
                            del out_headers[existing]
                        if v is not None:
                            out_headers[k] = str(v)
                    if ov.get("close_after") is not None:
                        close_after = max(0, int(ov["close_after"]))
            if not any(k.lower() == "content-length" for k in out_headers):
                out_headers["Content-Length"] = str(len(body))
            if not any(k.lower() == "connection" for k in out_headers):
                out_headers["Connection"] = "keep-alive" if keep and close_after is None else "close"
            elif any(k.lower() == "connection" and v.lower() == "close" for k, v in out_headers.items()):
                keep = False
            head_out = "HTTP/1.1 %d %s\r\n" % (status, _REASONS.get(status, "Status"))
            head_out += "".join("%s: %s\r\n" % kv for kv in out_headers.items()) + "\r\n"
            payload = b"" if method == "HEAD" else body
            if close_after is not None:
                self._send(head_out.encode("latin-1") + payload[:close_after])
                self._graceful_close()
                return
            if not self._send(head_out.encode("latin-1") + payload):
                return
            if not keep:
                self._graceful_close()
                return


class RangeServer:
    def __init__(self, files, behaviour=None, host="127.0.0.1", port=0, idle_timeout=30.0):
        self.files = dict(files)
        self.behaviour = behaviour
        self.host = host
        self.idle_timeout = idle_timeout
        self.log = []            # [(request_target, range_header_or_None)], in order of receipt
        self.request_headers = []  # parallel to .log: dict of lower-cased request headers
        self.errors = []
        self._lock = threading.Lock()
        self._conns = set()
        self._stopping = False
        self._thread = None
        self._srv = None
        self._port = port
        self.port = None

    # -- bookkeeping used by the handler threads ---------------------------------------------------
    def _record(self, target, rng, headers):
        with self._lock:
            self.log.append((target, rng))
            self.request_headers.append(headers)
            return len(self.log) - 1

    def _note_error(self, text):
        with self._lock:
            self.errors.append(text)

    def _conn_add(self, sock):
        with self._lock:
            self._conns.add(sock)

    def _conn_remove(self, sock):
        with self._lock:
            self._conns.discard(sock)

    # -- public ------------------------------------------------------------------------------------
    def start(self):
        if self._srv is not None:
            return self
        self._stopping = False
        self._srv = _Server((self.host, self._port), _Handler, self)
        self.port = self._srv.server_address[1]
        self._thread = threading.Thread(target=self._srv.serve_forever, kwargs={"poll_interval": 0.05},
                                        name="rangeserver", daemon=True)
        self._thread.start()
        # make sure it really accepts before anybody is pointed at it
        probe = socket.create_connection((self.host, self.port), timeout=5)
        probe.close()
        return self

    def stop(self):
        srv, self._srv = self._srv, None
        if srv is None:
            return
        self._stopping = True
        srv.shutdown()
        srv.server_close()
        with self._lock:
            conns = list(self._conns)
        for c in conns:           # wake up handler threads idling on keep-alive connections
            try:
                c.shutdown(socket.SHUT_RDWR)
            except OSError:
                pass
        if self._thread is not None:
            self._thread.join(timeout=5)
            self._thread = None

    def url(self, name, query=None):
        if self.port is None:
            raise RuntimeError("RangeServer not started")
        u = "http://%s:%d/%s" % (self.host, self.port, name)
        return u + ("?" + query if query else "")

    def requests_for(self, needle):
        """Log entries whose request target contains `needle` (e.g. a per-case query tag)."""
        with self._lock:
            return [e for e in self.log if needle in e[0]]

    def __enter__(self):
        return self.start()

    def __exit__(self, *exc):
        self.stop()
        return False
