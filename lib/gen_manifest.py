#!/usr/bin/env python3
"""Generates /verif/MANIFEST.json from the table below (run after editing)."""
import json, os, subprocess
VERIF = os.path.dirname(os.path.dirname(os.path.abspath(__file__)))

def hook_commits():
    out = subprocess.run(["git", "-C", "/repo", "log", "--format=%h %s"], capture_output=True, text=True).stdout
    return [l.split()[0] for l in out.splitlines() if l.split(" ", 1)[1].startswith("verif hook")][::-1]

CHECKS = {
 "C04": dict(
  category="fault_enumeration", design_ref="DESIGN.md 4/C04",
  technique="exhaustive corruption enumeration (every bit flip / truncation / overwrite / payload swap) on small archives in isolated workers + scripted server faults + every --verify-header value class",
  text="For each small base archive (hash length >= 8, raw and compressed, duplicate chunk) every single-bit flip, every truncation length, every 1-byte and 2-byte overwrite with {00, ff, xor 55}, every payload swap and trailing garbage, x {no seed, seed = source, unrelated seed} x {plain, verify-output}, through the library flow in isolated worker processes and a 1-in-7 (thorough 1-in-2) slice through the real bita binary; --verify-header with the right value, each of its 512 single-bit flips, another value, every proper prefix and over-long values through the real clone_cmd; 11 server misbehaviours at every request position through the real clone_cmd over loopback HTTP. Oracle: failure or exactly the original source; header changes rejected at open; clone proceeds iff the pinned checksum equals the archive's. --verify-header classes alternate between a plain clone, a clone with a complete seed (no chunk needs fetching) and an in-place clone.",
  note="Hash length >= 8 as the property states. A process death or panic counts as failure here (C15 judges crashes)."),
 "C05": dict(
  category="fault_enumeration", design_ref="DESIGN.md 4/C05",
  technique="exhaustive crash-point x tear-offset enumeration on an instrumented device (library flow) + LD_PRELOAD write-fault injection on the real binary",
  text="Library level: for every first run (plain, in place over every prior output of <=2/3 letters, with seeds) every output write k and EVERY tear offset t kills the run with t bytes of write k on the device; the clone is re-run in place on the remains and must succeed with output == source; repeated crashes (second run dies at each of its writes, third must complete); write/seek errors at every index must not end in success, short/pending answers must not fail the clone. Real binary: LD_PRELOAD shim makes the k-th write(2) on the output fail (EIO, ENOSPC, short+EIO) for every k -> exit status must be != 0, or tears it after t bytes and kills the process -> `clone --seed-output` re-run must restore the source; regular file and loop block device, 6 scenarios.",
  note="Crash model: earlier writes complete, write k torn, nothing later (matches <=1 in-flight write of tokio::fs::File; bound to the real binary by the shim leg). No fsync/power-loss model."),
 "C15": dict(
  category="fault_enumeration", design_ref="DESIGN.md 4/C15",
  technique="exhaustive field x adversarial-value mutation of checksum-valid headers (independent encoder), all bit flips/truncations, scripted server misbehaviour; every case in an isolated worker with address-space limit, watchdog and chunk horizons",
  text="(i) every single-bit flip and truncation of three small archives; (ii) headers with a re-computed checksum whose fields (chunker parameters, compression, sizes, checksum lengths, rebuild indexes, descriptor sizes/offsets, chunk data offset, missing sub-messages, duplicated/missing descriptors, 100 kB version string) take every value of an adversarial alphabet, singly (quick) and in all pairs (thorough); (ii-b) every dictionary byte x {8 bit flips, 00, 01, 7f, 80, ff} under a re-computed checksum; each opened + info-printed, cloned, cloned with a seed (recorded chunker parameters in use), cloned in place and (single mutations) cloned over HTTP; (iii) 13 server misbehaviours at every request position with retry budgets 0 and 2 through the real clone_cmd. Oracle: success or reported error; a panic, process death, watchdog expiry or chunk-count horizon is a violation, classified by crash site. A run of 64 adjacent descriptors of 256 MiB each (3 x 4 GiB in the thorough tier) declares far more than any single chunk may.",
  note="Known findings F8.b-d, f-i are matched by crash site (file + message kind) or, for process deaths, by the mutated field; anything else is reported. Declared chunk sizes >= 2^31 (legitimately allocated and zero-filled by readers) only in the thorough tier's single mutations."),
 "C07": dict(
  category="exploration", design_ref="DESIGN.md 4/C07",
  technique="exhaustive subset enumeration (2^n) against a logging scripted HTTP server on the real HttpReader",
  text="Every subset of the descriptors of three archive layouts (contiguous, with gaps, descriptor order != file order; n=9 quick, 14 thorough) is requested through the real HttpReader::read_chunks exactly as Archive::chunk_stream builds the list, against a loopback server logging Range headers (with and without keep-alive, half of the contiguous layout's subsets with the bodies flushed at or one byte past every chunk boundary); oracle: the logged Range sequence equals the maximal runs of adjacent missing chunks in order with inclusive bounds, and the delivered bytes are exact. C06's CLI HTTP leg and C17's HTTP leg repeat the oracle through clone_cmd and on independently encoded non-contiguous archives. A second leg drives Archive::chunk_stream itself over every subset of the chunks of sources with repeated chunks. A fourth layout is served behind a virtual zero prefix so that its third chunk straddles offset 2^32.",
  note="No transfer failures (C08 covers those). Real loopback TCP."),
 "C08": dict(
  category="fault_enumeration", design_ref="DESIGN.md 4/C08",
  technique="deviation-bounded stateless DFS over reader answer scripts (local) and exhaustive fault-sequence enumeration against a scripted HTTP server with a reference model of the retry loop",
  text="Local: IoReader over a scripted file, all lists of <=2-3 ranges over a small offset/size grid (adjacent, gapped, overlapping, unordered, past EOF), read_at and read_chunks, every answer script with <=2 (quick) / 3 (thorough) deviations from 'full read' (Short(k) for every k, Pending at every poll of read and seek completion), complete tree for single ranges. HTTP: 8 range lists x every single/double split of the first body x every sequence of <=2/3 faults from {connection refused, cut after k bytes for every k incl. 0 and len} x retry budgets 0..3 (+ body ending early, faults on a later run); oracle: a reference model of the resuming retry loop predicts the exact items, the exact Range of every (re)request and whether an error must be returned. Archive level: chunk_stream yields nothing after its first error; the real clone_cmd with --http-retry-count b survives exactly b failed transfers. Large reads around 2^16..2^18 on a 300 kB file. A third of the local range lists and a sixth of the HTTP fault cases are repeated with the file behind a virtual zero prefix ending just below / above 2^32 and at 2^40 (offsets beyond 4 GiB, ranges straddling 2^32).",
  note="A4 (fragmentation scripted on the server side; transport may coalesce). Zero-length ranges are outside C08 (judged under C15)."),
 "C17": dict(
  category="exploration", design_ref="DESIGN.md 4/C17",
  technique="exhaustive enumeration of layout recipes through an independent encoder; real reader locally and over HTTP",
  text="An independent encoder (no prost, no bitar) produces, for sources of <=3/4 words incl. the empty source and duplicates, every combination of magic {current, legacy} x slack {0,1,7,100} x all permutations of stored chunks x gap patterns x unknown fields in every message x all per-chunk storage forms {compressed iff smaller, raw, compressed although larger} x hash length {4,5,64} x packed/unpacked rebuild order, per chunker/compression universe; each archive is opened by the real reader (all accessors == encoder inputs), printed by the real info code and cloned locally, with a seed (recorded chunker parameters in use), over HTTP (requests == maximal runs), and every 16th through the real clone_cmd --verify-output (file and HTTP). Quick thins the product 1-in-5 deterministically keeping every value of every dimension; thorough takes the full product. Every 16th archive is also cloned by clone_cmd in place over a prior output holding the chunks in reverse order. Every eighth archive is re-encoded with its chunk data offset moved beyond 4 GiB (first stored chunk straddling 2^32 or starting at 2^33+1; the hole is virtual) and cloned locally and over HTTP.",
  note="Trusted: the independent encoder as the definition of 'conforming' (cross-validated against bitar bit-for-bit on bitar-written archives)."),
 "C01": dict(
  category="model_checking", design_ref="DESIGN.md 4/C01",
  technique="deviation-bounded stateless DFS over blocking-pool schedules of the real compress_cmd/create_archive/clone_cmd (gate in a vendored tokio) + exhaustive small-alphabet input x configuration sweep",
  text="Schedules: every order in which blocking-pool tasks (hashing, compression, tokio::fs::File operations) complete relative to polls of the main future, on the real CLI compress, library writer and CLI clone: bound 2 on seven subjects plus the COMPLETE tree of a 3-chunk CLI compress (quick); bound 3 plus complete trees of nine subjects (CLI compress 2/3 chunks at buffers 2 = 57 540 schedules, 4 chunks with a duplicate, brotli; library writer; CLI clone plain / seeded / in place) in the thorough tier; each schedule is one execution of the real code judged by the round trip and the recorded size/checksum. Inputs x configurations: all strings over a 3-letter alphabet up to length 5/7 (3/5 under compression) plus a boundary family around window/min/max, over a pairwise-style grid of chunkers, hash lengths, compressions and buffer counts, through the library writer and the real CLI compress+clone on files; seven sources beyond the 1 MiB refill buffer incl. chunks beyond 2 MiB; real-binary grid (file/stdin input, local/HTTP clone). Break-even chunks (compressed size == source size) are searched and round-tripped; the CLI round trip clones a second time over an existing, longer file with --force-create. A further leg runs the real binary over the full product of output-opening options x state of the output path x transport x archive parameterisation (lib/cligrid.py: 1 008 clone cells, 360 compress cells, each in a snapshotted private directory) and reports this property's classes of departures from a model of the command line. Thorough: a sparse source of 4 GiB + 3 MiB + 12345 bytes with distinct chunks below / at / above source offset 2^32 is compressed, cloned and re-cloned in place by the real binary.",
  note="A3: schedule granularity = blocking task runs to completion / main future polled once (sound: tasks share nothing but join handles, <=1 op in flight per file handle); reduction R1 validated against the unreduced search; real-binary leg binds the in-process legs to the shipped artefact. HTTP read path is covered by C07/C08/C17."),
 "C11": dict(
  category="model_checking", design_ref="DESIGN.md 4/C11",
  technique="independent decoder + conformance checklist applied to every archive of the input sweep and of every explored compress schedule",
  text="Every archive produced in the C01 sweep and under every explored schedule of both writers, and by the real binary with the source piped into stdin, is decoded by a codec written from header.rs' table and chunk_dictionary.proto only (no prost, no bitar) and checked against the full checklist: magic, LE sizes, dictionary decodes without unknown fields, chunk data offset == header length, header checksum, file ends at the end of the last chunk, descriptors unique/back-to-back/first-occurrence order, stored <= source size, every chunk decodes and hashes to its checksum, rebuild order valid and reproducing the source, recorded parameters/compression/metadata == requested, boundaries == reference chunking; bitar::Archive accessors, `bita info` (local and over HTTP) and --metadata-key compared with the decoder's / requested values. The stdin leg starts every other run with a stale temp file of an earlier failed run in place.",
  note="Trusted: the independent codec (cross-validated bit-for-bit against bitar on 48 archives and the golden files) and the reference chunker."),
 "C12": dict(
  category="model_checking", design_ref="DESIGN.md 4/C12",
  technique="deviation-bounded schedule exploration of the real writers; byte comparison of the archive from every explored schedule, buffer count and input fragmentation",
  text="For each (writer, source, options) the archive bytes observed after runtime shutdown are collected over every explored blocking-pool schedule (bound 2 + one complete tree quick / bound 3 + nine complete trees thorough), over buffered-chunks 1/2/3/8/64 and over input read sizes {whole,1,3,7 with Pending}; the real binary adds file vs pipe input, TOKIO_WORKER_THREADS 1/2/default, repeated runs, write-delay injection (thorough) and a stale temp file of an earlier failed run; the oracle is exactly one distinct byte string per group. One --force-create run per group overwrites an existing, longer archive. A further leg runs the real binary over the full product of output-opening options x state of the output path x transport x archive parameterisation (lib/cligrid.py: 1 008 clone cells, 360 compress cells, each in a snapshotted private directory) and reports this property's classes of departures from a model of the command line.",
  note="Same trusted base as C01's schedule legs (A3, R1). Worker-count variation of the real multi-thread runtime is subsumed by the schedule exploration (the gate owns every completion order)."),
 "C14": dict(
  category="exploration", design_ref="DESIGN.md 4/C14", engine="py",
  technique="exhaustive finite grid of (command, output state, flags, archive kind) cells on the real binary; before/after content hashes",
  text="The full grid {clone local, clone HTTP, compress} x {output absent, empty, shorter, longer, identical, other content, block device large/too small} x {none, -f, --seed-output, both} x {valid, bad magic, flipped header byte, truncated header, wrong/right --verify-header} (compress also onto an existing block device; the too-small device also with a compressible source whose archive is far smaller than the device) is executed on the real bita binary (real loop devices); for every refusal cell: exit != 0, content hash and length unchanged, no file created on header/archive refusals, compress temp file not created; non-refusal cells must succeed with the right content (guards against vacuity). The quick grid passes --verify-output on every existing-output cell. A further leg runs the real binary over the full product of output-opening options x state of the output path x transport x archive parameterisation (lib/cligrid.py: 1 008 clone cells, 360 compress cells, each in a snapshotted private directory) and reports this property's classes of departures from a model of the command line.",
  note="A5: observation of the real binary at the file-system boundary; conditions outside the grid unseen. Loop devices with fallback to hook H1."),
 "C16": dict(
  category="exploration", design_ref="DESIGN.md 4/C16", engine="py",
  technique="exhaustive finite grid of clone/compress modes on the real binary observed with strace at the file-opening system calls + directory snapshots",
  text="Every clone mode (plain, -f, 1-2 seed files, stdin seed, in-place, seed+in-place) x {local, HTTP} x {none, --verify-output, --verify-header} x {relative, absolute paths}, three kinds of clone that fail after the output was opened (missing seed, corrupt chunk, corrupt chunk in place), and 14-28 compress configurations incl. the empty source run under strace -f; every open with a write/create/truncate flag, every unlink/rename/mkdir/link/truncate is attributed to a path: clone may only write-open the output, removes/renames nothing; compress may only touch the archive and its temp file, removes exactly the temp file; directory snapshots before/after must differ by the output only. Also: -f onto a dangling symlink and onto a running executable (the open fails: nothing may be removed or created), and -v / -vv on clone and compress cases. A further leg runs the real binary over the full product of output-opening options x state of the output path x transport x archive parameterisation (lib/cligrid.py: 1 008 clone cells, 360 compress cells, each in a snapshotted private directory) and reports this property's classes of departures from a model of the command line.",
  note="A5; trusted: strace's syscall decoding and the fd-table reconstruction (a fork, exec, chdir or unparsable line is a machinery error)."),
 "C02": dict(
  category="exploration", design_ref="DESIGN.md 4/C02",
  technique="exhaustive enumeration of seed sets over chunk-word alphabets on the real clone flow; reference clone model",
  text="Bounded exhaustive: for every source of <=3/4 words and every seed set (all single seeds of <=3/4 letters, all ordered pairs of <=2-letter seeds, empty, seed=source) over letters {source words, junk words, half word, size-colliding junk}, per chunker universe (FixedSize, RollSum, BuzHash; raw and compressed) and hash length 64/8/4, the real library clone flow runs on in-memory devices; the real clone_cmd runs the same families with seed files, incl. every seed x prior-output combination with --seed-output (local and HTTP); the real binary adds stdin seeds in every argument order and seeded clones under a file-size limit at every chunk boundary. Oracle: the run succeeds and the output equals the source (under a write fault: reported success implies the right output). An existing longer output combined with seeds is covered. A further leg runs the real binary over the full product of output-opening options x state of the output path x transport x archive parameterisation (lib/cligrid.py: 1 008 clone cells, 360 compress cells, each in a snapshotted private directory) and reports this property's classes of departures from a model of the command line.",
  note="Library-level flow re-assembled from bitar's public API (mirror of clone_archive); CLI wiring is covered by the CLI legs. A1: no truncated-hash collision inside a scenario."),
 "C03": dict(
  category="exploration", design_ref="DESIGN.md 4/C03",
  technique="exhaustive enumeration of (prior layout, target) pairs on the real planner+executor over an instrumented device; invariant on the operation log",
  text="Bounded exhaustive: L0 = all pairs (prior layout, target) with <=4 (quick) / <=6 (thorough: 6.1e8 pairs) chunks over 3 identities + junk + gap and all 27 size assignments from {1,2,3} through the real strip/reorder_ops/reorder_in_place/feed (every overlap, chain, cycle and duplicate pattern at that scope); L1 = full library flow with the real chunker scanning the prior output over word universes; the real clone_cmd --seed-output on files and through the block-device path; the real binary on loop devices for 11 hand-picked layouts; supplementary pseudo-random edited 20-50 kB files. Oracles: no panic, success, output == source, and the first read of every moved chunk returns the prior bytes (no reusable chunk destroyed before copied or buffered). Real binary: every layout x every word piped into `--seed -` together with --seed-output. A further leg runs the real binary over the full product of output-opening options x state of the output path x transport x archive parameterisation (lib/cligrid.py: 1 008 clone cells, 360 compress cells, each in a snapshotted private directory) and reports this property's classes of departures from a model of the command line.",
  note="Chunk counts above the bound and contents outside the alphabets not covered; A1."),
 "C06": dict(
  category="exploration", design_ref="DESIGN.md 4/C06",
  technique="exhaustive scenario enumeration with a recording ArchiveReader; reference clone model of the expected fetch set",
  text="Bounded exhaustive over the C02/C03 scenario families (prior outputs used as seed, existing outputs not used as seed, seeds, combinations): the multiset of chunk ranges requested from the archive must equal the stored ranges of (source chunks) minus (chunks the reference chunker finds in seeds / prior output); all other reads lie inside the header. The CLI legs carry --force-create together with --seed-output on alternate scenarios and serve every 40th HTTP scenario with bodies flushed byte by byte. A further leg runs the real binary over the full product of output-opening options x state of the output path x transport x archive parameterisation (lib/cligrid.py: 1 008 clone cells, 360 compress cells, each in a snapshotted private directory) and reports this property's classes of departures from a model of the command line.",
  note="Reference chunker defines 'found by scanning'; scenarios on which it disagrees with the real chunker (F5 input class) are counted, not judged."),
 "C13": dict(
  category="exploration", design_ref="DESIGN.md 4/C13",
  technique="exhaustive scenario enumeration observing the write log of an instrumented in-memory output",
  text="Bounded exhaustive over the C02/C03 scenario families plus the L0 planner/executor enumeration: every write must be one source chunk's bytes at one of its source offsets, each location at most once, never a location the scan found in place, never at or beyond the source length. Real binary under strace: every write to the output for 31 layouts x {64-byte, 16-byte hashes}.",
  note="Observation at poll_write granularity of a device that accepts whole buffers; A1."),
 "C09": dict(
  category="model_checking", design_ref="DESIGN.md 4/C09",
  technique="explicit-state BFS over reader answers on the real StreamingChunker (state-fingerprint merging) + exhaustive small-alphabet enumeration against a reference chunker",
  text="Bounded exhaustive: every string up to length 9 (quick, 3 letters) / 11 (thorough, 4 letters: 1.6e9 cases) over a configuration grid (3 algorithms, windows 1-4, min <,=,> window, bits 1-3), every window 5..64,128,255,256 on 24 kB inputs at 6-17 filter bits, and 4-11 MiB inputs with chunks up to 5 MiB and windows >= 21 with > 16 filter bits, chunked by the real code and compared with an independent non-incremental reference chunker (rule, tiling, min/max); read independence is decided by an explicit-state search over every reader answer (Ready(k) for all k, Pending, EOF) with states merged on a hash of the complete chunker state, so all 2^(n-1) fragmentations of each input are covered by O(n^2) transitions, each an execution of the real code (strings up to 6/9, boundary family, five MiB-sized configurations under a reduced answer menu). Leg B2 enumerates all 2^(n-1) fragmentations unmerged for short inputs; the window sweep includes 1024 / 4200 / 6000 / 16384, where the 32-bit sums of RollSum wrap around.",
  note="Trusted: the reference chunker (validated: 0 disagreements for RollSum/FixedSize, BuzHash disagreements all explained by known finding F5), hook H2's state hash covering every chunker field, DefaultHasher collisions negligible. Alphabet/length bounds as stated in evidence."),
 "C10": dict(
  category="exploration", design_ref="DESIGN.md 4/C10",
  technique="exhaustive enumeration of (prefix pair, suffix) triples over small alphabets on the real chunker; oracle = the statement",
  text="Bounded exhaustive: all prefix pairs over {00,07}^<=3 (quick: P1 empty) x all suffixes of length 13/16 over two binary alphabets x the configuration grid, plus a 1-in-16 slice with the second stream delivered 1 or 3 bytes per read; for each pair the literal statement (common boundary >= window past the start of the common data => identical later boundaries) is evaluated on the real chunker's output. Violations are classified against the reference chunker so that only F5's input class is treated as known. A fixed large-window family (windows 4200 / 6000 / 16384, 5 prefixes x 3 suffixes of 70 kB, all prefix pairs) covers hash sums that wrap around.",
  note="Trusted: reference chunker for classification only; the oracle is the property statement on real outputs. Windows 1-4, suffix length bound."),
}

NOT_APPLICABLE = []

def all_props():
    return [json.loads(l)["id"] for l in open(os.path.join(VERIF, "properties.jsonl")) if l.strip()]

def main():
    checks = []
    for pid in sorted(CHECKS):
        c = CHECKS[pid]
        checks.append({
            "property_id": pid,
            "quick_cmd": f"./check {pid} quick",
            "thorough_cmd": f"./check {pid} thorough",
            "evidence_file": f"/verif/evidence/{pid}.json",
            "replay_cmd_template": f"./check {pid} --replay {{path}}",
            "engine": c.get("engine", "vh"),
            "level_claimed": {"category": c["category"], "text": c["text"], "design_ref": c["design_ref"]},
            "level_note": c["note"],
            "technique": c["technique"],
        })
    m = {
        "version": 1,
        "setup_cmd": "./check setup",
        "hooks": {
            "guard": "--cfg oll3_bita_verif",
            "enable": "RUSTFLAGS='--cfg oll3_bita_verif' (set by ./check for the harness build, which compiles /repo/bitar as a path dependency and #[path]-includes /repo/src/*.rs, and for the bita binary build)",
            "baseline_off_cmd": "cd /repo && cargo test --workspace --no-fail-fast --offline",
            "source_commits": hook_commits(),
            "add_only": True,
        },
        "engines": [
            {"name": "py", "path": "/verif/lib", "serves_properties": sorted(p for p in CHECKS if CHECKS[p].get("engine") == "py"),
             "kind_free_text": "Python legs driving the real bita binary (built with hooks on) over finite mode grids, observed with strace, a scripted HTTP range server and before/after file-system snapshots"},
            {"name": "vh", "path": "/verif/harness", "serves_properties": sorted(p for p in CHECKS if CHECKS[p].get("engine", "vh") == "vh"),
             "kind_free_text": "Rust harness linking the real bitar crate and the real CLI modules; hand-rolled stateless DFS / explicit-state BFS explorers, scripted in-memory devices, vendored tokio with a blocking-pool gate for schedule exploration"},
        ],
        "checks": checks,
        "not_applicable": NOT_APPLICABLE + [
            {"property_id": p, "reason": "check not built yet (planned in DESIGN.md section 4); not claimed until its check is registered"}
            for p in all_props() if p not in CHECKS and p not in [n["property_id"] for n in NOT_APPLICABLE]],
        "notes": "All checks rebuild the harness (and, where used, the bita binary) from /repo's working tree with hooks on before running. Exit 2 + MACHINERY-ERROR means the machinery failed, not a verdict.",
    }
    with open(os.path.join(VERIF, "MANIFEST.json"), "w") as f:
        json.dump(m, f, indent=1)
    print("MANIFEST.json written:", len(checks), "checks")

if __name__ == "__main__":
    main()
