#!/usr/bin/env python3
"""Generates /verif/MANIFEST.json from the table below (run after editing)."""
import json, os, subprocess
VERIF = os.path.dirname(os.path.dirname(os.path.abspath(__file__)))

def hook_commits():
    out = subprocess.run(["git", "-C", "/repo", "log", "--format=%h %s"], capture_output=True, text=True).stdout
    return [l.split()[0] for l in out.splitlines() if l.split(" ", 1)[1].startswith("verif hook")][::-1]

CHECKS = {
 "C09": dict(
  category="model_checking", design_ref="DESIGN.md 4/C09",
  technique="explicit-state BFS over reader answers on the real StreamingChunker (state-fingerprint merging) + exhaustive small-alphabet enumeration against a reference chunker",
  text="Bounded exhaustive: every string up to length 9 (quick, 3 letters) / 10 (thorough, 4 letters) over a configuration grid (3 algorithms, windows 1-4, min <,=,> window, bits 1-3) is chunked by the real code and compared with an independent non-incremental reference chunker (rule, tiling, min/max); read independence is decided by an explicit-state search over every reader answer (Ready(k) for all k, Pending, EOF) with states merged on a hash of the complete chunker state, so all 2^(n-1) fragmentations of each input are covered by O(n^2) transitions, each an execution of the real code. MiB-sized inputs crossing the refill buffer are covered by structured single inputs and a reduced answer menu.",
  note="Trusted: the reference chunker (validated: 0 disagreements for RollSum/FixedSize, BuzHash disagreements all explained by known finding F5), hook H2's state hash covering every chunker field, DefaultHasher collisions negligible. Alphabet/length bounds as stated in evidence."),
 "C10": dict(
  category="exploration", design_ref="DESIGN.md 4/C10",
  technique="exhaustive enumeration of (prefix pair, suffix) triples over small alphabets on the real chunker; oracle = the statement",
  text="Bounded exhaustive: all prefix pairs over {00,07}^<=3 (quick: P1 empty) x all suffixes of length 13/15 over two binary alphabets x the configuration grid; for each pair the literal statement (common boundary >= window past the start of the common data => identical later boundaries) is evaluated on the real chunker's output. Violations are classified against the reference chunker so that only F5's input class is treated as known.",
  note="Trusted: reference chunker for classification only; the oracle is the property statement on real outputs. Windows 1-4, suffix length bound."),
}

NOT_APPLICABLE = []

def main():
    checks = []
    for pid in sorted(CHECKS):
        c = CHECKS[pid]
        checks.append({
            "property_id": pid,
            "quick_cmd": f"./check {pid} quick",
            "thorough_cmd": f"./check {pid} thorough",
            "evidence_file": f"/verif/evidence/{pid}.json",
            "replay_cmd_template": f"./check {pid} --replay {{path}}",
            "engine": c.get("engine", "vh"),
            "level_claimed": {"category": c["category"], "text": c["text"], "design_ref": c["design_ref"]},
            "level_note": c["note"],
            "technique": c["technique"],
        })
    m = {
        "version": 1,
        "setup_cmd": "./check setup",
        "hooks": {
            "guard": "--cfg oll3_bita_verif",
            "enable": "RUSTFLAGS='--cfg oll3_bita_verif' (set by ./check for the harness build, which compiles /repo/bitar as a path dependency and #[path]-includes /repo/src/*.rs, and for the bita binary build)",
            "baseline_off_cmd": "cd /repo && cargo test --workspace --no-fail-fast --offline",
            "source_commits": hook_commits(),
            "add_only": True,
        },
        "engines": [
            {"name": "vh", "path": "/verif/harness", "serves_properties": sorted(CHECKS),
             "kind_free_text": "Rust harness linking the real bitar crate and the real CLI modules; hand-rolled stateless DFS / explicit-state BFS explorers, scripted in-memory devices, vendored tokio with a blocking-pool gate for schedule exploration"},
        ],
        "checks": checks,
        "not_applicable": NOT_APPLICABLE,
        "notes": "All checks rebuild the harness (and, where used, the bita binary) from /repo's working tree with hooks on before running. Exit 2 + MACHINERY-ERROR means the machinery failed, not a verdict.",
    }
    with open(os.path.join(VERIF, "MANIFEST.json"), "w") as f:
        json.dump(m, f, indent=1)
    print("MANIFEST.json written:", len(checks), "checks")

if __name__ == "__main__":
    main()
