#!/usr/bin/env python3
"""Generates /verif/MANIFEST.json from the table below (run after editing)."""
import json, os, subprocess
VERIF = os.path.dirname(os.path.dirname(os.path.abspath(__file__)))

def hook_commits():
    out = subprocess.run(["git", "-C", "/repo", "log", "--format=%h %s"], capture_output=True, text=True).stdout
    return [l.split()[0] for l in out.splitlines() if l.split(" ", 1)[1].startswith("verif hook")][::-1]

CHECKS = {
 "C02": dict(
  category="exploration", design_ref="DESIGN.md 4/C02",
  technique="exhaustive enumeration of seed sets over chunk-word alphabets on the real clone flow; reference clone model",
  text="Bounded exhaustive: for every source of <=3/4 words and every seed set (all single seeds of <=3/4 letters, all ordered pairs of <=2-letter seeds, empty, seed=source) over letters {source words, junk words, half word, size-colliding junk}, per chunker universe (FixedSize, RollSum, BuzHash; raw and compressed) and hash length 64/8/4, the real library clone flow runs on in-memory devices; oracle: the run succeeds and the output equals the source.",
  note="Library-level flow re-assembled from bitar's public API (mirror of clone_archive); CLI wiring is covered by the CLI legs. A1: no truncated-hash collision inside a scenario."),
 "C03": dict(
  category="exploration", design_ref="DESIGN.md 4/C03",
  technique="exhaustive enumeration of (prior layout, target) pairs on the real planner+executor over an instrumented device; invariant on the operation log",
  text="Bounded exhaustive: L0 = all pairs (prior layout, target) with <=4 (quick) / <=5 (thorough) chunks over 3 identities + junk + gap and all 27 size assignments from {1,2,3} through the real strip/reorder_ops/reorder_in_place/feed (every overlap, chain, cycle and duplicate pattern at that scope); L1 = full library flow with the real chunker scanning the prior output over word universes. Oracles: no panic, success, output == source, and the first read of every moved chunk returns the prior bytes (no reusable chunk destroyed before copied or buffered).",
  note="Chunk counts above the bound and contents outside the alphabets not covered; A1."),
 "C06": dict(
  category="exploration", design_ref="DESIGN.md 4/C06",
  technique="exhaustive scenario enumeration with a recording ArchiveReader; reference clone model of the expected fetch set",
  text="Bounded exhaustive over the C02/C03 scenario families (prior outputs used as seed, existing outputs not used as seed, seeds, combinations): the multiset of chunk ranges requested from the archive must equal the stored ranges of (source chunks) minus (chunks the reference chunker finds in seeds / prior output); all other reads lie inside the header.",
  note="Reference chunker defines 'found by scanning'; scenarios on which it disagrees with the real chunker (F5 input class) are counted, not judged."),
 "C13": dict(
  category="exploration", design_ref="DESIGN.md 4/C13",
  technique="exhaustive scenario enumeration observing the write log of an instrumented in-memory output",
  text="Bounded exhaustive over the C02/C03 scenario families plus the L0 planner/executor enumeration: every write must be one source chunk's bytes at one of its source offsets, each location at most once, never a location the scan found in place, never at or beyond the source length.",
  note="Observation at poll_write granularity of a device that accepts whole buffers; A1."),
 "C09": dict(
  category="model_checking", design_ref="DESIGN.md 4/C09",
  technique="explicit-state BFS over reader answers on the real StreamingChunker (state-fingerprint merging) + exhaustive small-alphabet enumeration against a reference chunker",
  text="Bounded exhaustive: every string up to length 9 (quick, 3 letters) / 10 (thorough, 4 letters) over a configuration grid (3 algorithms, windows 1-4, min <,=,> window, bits 1-3) is chunked by the real code and compared with an independent non-incremental reference chunker (rule, tiling, min/max); read independence is decided by an explicit-state search over every reader answer (Ready(k) for all k, Pending, EOF) with states merged on a hash of the complete chunker state, so all 2^(n-1) fragmentations of each input are covered by O(n^2) transitions, each an execution of the real code. MiB-sized inputs crossing the refill buffer are covered by structured single inputs and a reduced answer menu.",
  note="Trusted: the reference chunker (validated: 0 disagreements for RollSum/FixedSize, BuzHash disagreements all explained by known finding F5), hook H2's state hash covering every chunker field, DefaultHasher collisions negligible. Alphabet/length bounds as stated in evidence."),
 "C10": dict(
  category="exploration", design_ref="DESIGN.md 4/C10",
  technique="exhaustive enumeration of (prefix pair, suffix) triples over small alphabets on the real chunker; oracle = the statement",
  text="Bounded exhaustive: all prefix pairs over {00,07}^<=3 (quick: P1 empty) x all suffixes of length 13/15 over two binary alphabets x the configuration grid; for each pair the literal statement (common boundary >= window past the start of the common data => identical later boundaries) is evaluated on the real chunker's output. Violations are classified against the reference chunker so that only F5's input class is treated as known.",
  note="Trusted: reference chunker for classification only; the oracle is the property statement on real outputs. Windows 1-4, suffix length bound."),
}

NOT_APPLICABLE = []

def all_props():
    return [json.loads(l)["id"] for l in open(os.path.join(VERIF, "properties.jsonl")) if l.strip()]

def main():
    checks = []
    for pid in sorted(CHECKS):
        c = CHECKS[pid]
        checks.append({
            "property_id": pid,
            "quick_cmd": f"./check {pid} quick",
            "thorough_cmd": f"./check {pid} thorough",
            "evidence_file": f"/verif/evidence/{pid}.json",
            "replay_cmd_template": f"./check {pid} --replay {{path}}",
            "engine": c.get("engine", "vh"),
            "level_claimed": {"category": c["category"], "text": c["text"], "design_ref": c["design_ref"]},
            "level_note": c["note"],
            "technique": c["technique"],
        })
    m = {
        "version": 1,
        "setup_cmd": "./check setup",
        "hooks": {
            "guard": "--cfg oll3_bita_verif",
            "enable": "RUSTFLAGS='--cfg oll3_bita_verif' (set by ./check for the harness build, which compiles /repo/bitar as a path dependency and #[path]-includes /repo/src/*.rs, and for the bita binary build)",
            "baseline_off_cmd": "cd /repo && cargo test --workspace --no-fail-fast --offline",
            "source_commits": hook_commits(),
            "add_only": True,
        },
        "engines": [
            {"name": "vh", "path": "/verif/harness", "serves_properties": sorted(CHECKS),
             "kind_free_text": "Rust harness linking the real bitar crate and the real CLI modules; hand-rolled stateless DFS / explicit-state BFS explorers, scripted in-memory devices, vendored tokio with a blocking-pool gate for schedule exploration"},
        ],
        "checks": checks,
        "not_applicable": NOT_APPLICABLE + [
            {"property_id": p, "reason": "check not built yet (planned in DESIGN.md section 4); not claimed until its check is registered"}
            for p in all_props() if p not in CHECKS and p not in [n["property_id"] for n in NOT_APPLICABLE]],
        "notes": "All checks rebuild the harness (and, where used, the bita binary) from /repo's working tree with hooks on before running. Exit 2 + MACHINERY-ERROR means the machinery failed, not a verdict.",
    }
    with open(os.path.join(VERIF, "MANIFEST.json"), "w") as f:
        json.dump(m, f, indent=1)
    print("MANIFEST.json written:", len(checks), "checks")

if __name__ == "__main__":
    main()
