"""Option x state grid on the real binary (legs of C01 C02 C03 C06 C12 C14 C16).

The in-process legs enumerate data layouts; this leg enumerates what surrounds them: EVERY
combination of the options that decide how the output is opened and filled, over EVERY state the
output path can be in when the command starts, for every transport and several archive
parameterisations - the full product, nothing sampled:

  clone     {4 archives: fixed 4 B chunks with 64- and 16-byte hashes, content-defined + brotli with 12-byte hashes, an empty source}
          x {archive on a file, archive over HTTP}
          x {output absent, empty, equal to the source, same chunks reversed, a prefix, source + junk, unrelated junk}
          x every subset of {--force-create, --seed-output, --verify-output}
          x {no seed, a seed file holding half of the source, the same seed on stdin, the output path itself named as seed (refusal cells only), a seed file and a second seed on stdin in both orders of the options}
          (+ -vv on every 4th cell)
  compress  {empty, 40-byte, 3000-byte source} x {file, stdin input} x {fixed, rollsum, default chunker}
          x {none, brotli} x {output absent, empty, shorter junk, longer junk, the same archive already there, absent with a stale temp file of an interrupted run, there together with such a temp file}
          x {--force-create or not} (+ -vv on every 4th cell)

One run per cell in a private directory that is snapshotted before and after. A small model of
the command line says what must happen; each departure is a class of exactly one property:

  C14  a cell where the output exists and neither -f nor --seed-output is given must be refused:
       exit != 0, output byte-identical, nothing created
  C02  other cells without --seed-output: exit 0 and output == source
  C03  other cells with --seed-output: exit 0 and output == source
  C06  on success the output length equals the source length (regular files); over HTTP (fixed 4-byte chunk
       archives, where a three-line model says which chunks the prior output and the seed hold) the bytes
       requested beyond the header are exactly the stored bytes of the missing chunks, each once
  C07  ... and they are requested as the maximal runs of adjacent missing chunks, in archive order; on the cells that carry a retry
       budget the first chunk-data response is cut after 2 bytes: the follow-up request asks for the rest of that run and no more
  C16  nothing but the output path is created, changed or removed in the directory
  C12  compress: the archive written equals the archive of the same source and options written to
       a fresh path (whatever was at the path before, file or stdin input, verbosity)
  C01  compress then clone of that archive gives the source back

Each property's leg runs the whole grid and reports its own classes only.
"""
import hashlib
import itertools
import os
import shutil
import stat
import subprocess
import tempfile
import time
from concurrent.futures import ThreadPoolExecutor

from httpserv import RangeServer

LEG = "cligrid"
CUTS = {}   # clone cell -> first byte of the chunk-data request whose response was cut
FACETS = {
    "C14": ("refusal-expected-but-exit-zero", "refused-but-output-changed", "refused-but-files-created"),
    "C02": ("valid-clone-failed", "success-with-wrong-output"),
    "C03": ("valid-in-place-clone-failed", "in-place-success-with-wrong-output"),
    "C06": ("output-length-differs-from-source-length", "grid-bytes-fetched-differ-from-missing-chunks"),
    # (what is requested beyond the missing chunks also departs from "the maximal runs of the MISSING chunks")
    "C07": ("grid-requests-differ-from-maximal-runs", "grid-bytes-fetched-differ-from-missing-chunks"),
    "C16": ("path-other-than-output-touched",),
    "C12": ("archive-depends-on-history-input-kind-or-verbosity", "valid-compress-failed"),
    # every archive of the grid was written by the binary's own compress: each clone cell is a round trip as well
    "C01": ("compress-clone-round-trip-differs", "round-trip-clone-failed", "valid-clone-failed", "success-with-wrong-output",
            "valid-in-place-clone-failed", "in-place-success-with-wrong-output"),
}


def env():
    e = dict(os.environ)
    e["RUST_BACKTRACE"] = "0"
    e["SSL_CERT_FILE"] = "/dev/null"
    e.pop("LD_PRELOAD", None)
    return e


def sh(cmd, cwd, stdin_data=None, timeout=60):
    return subprocess.run(cmd, env=env(), cwd=cwd, input=stdin_data, stdin=None if stdin_data is not None else subprocess.DEVNULL,
                          stdout=subprocess.PIPE, stderr=subprocess.PIPE, timeout=timeout)


def sha(b):
    return hashlib.sha256(b).hexdigest()


def snapshot(root):
    snap = {}
    for d, dirs, files in os.walk(root):
        for name in dirs + files:
            p = os.path.join(d, name)
            rel = os.path.relpath(p, root)
            st = os.lstat(p)
            if stat.S_ISLNK(st.st_mode):
                snap[rel] = ("l", os.readlink(p))
            elif stat.S_ISDIR(st.st_mode):
                snap[rel] = ("d",)
            elif stat.S_ISREG(st.st_mode):
                with open(p, "rb") as f:
                    snap[rel] = ("f", sha(f.read()))
            else:
                snap[rel] = ("o", oct(st.st_mode))
    return snap


def diff(before, after):
    out = []
    for k in after:
        if k not in before:
            out.append((k, "added"))
        elif before[k] != after[k]:
            out.append((k, "changed"))
    for k in before:
        if k not in after:
            out.append((k, "removed"))
    return sorted(out)


def pattern(n, salt=1):
    out = bytearray()
    x = salt * 2654435761 % (1 << 32)
    while len(out) < n:
        x = (x * 1103515245 + 12345) % (1 << 31)
        out += bytes([65 + (x >> 8) % 6]) * 3 + bytes([48 + (x >> 16) % 10])
    return bytes(out[:n])


def words(s):
    # '0' is a chunk of zero bytes: data that a "sparse output" shortcut would leave unwritten
    return b"".join((b"\0" if ch == "0" else ch.encode()) * 4 for ch in s)


class Viol:
    def __init__(self):
        self.v = {}

    def add(self, cls, detail):
        e = self.v.setdefault(cls, {"class": cls, "count": 0, "examples": []})
        e["count"] += 1
        if len(e["examples"]) < 3:
            d = dict(detail)
            d["leg_module"] = LEG
            e["examples"].append(d)


# ------------------------------------------------------------------ clone grid

ARCHIVES = [
    ("fixed4-hl64", ["--fixed-size", "4B", "--compression", "none"], "words"),
    ("fixed4-hl16", ["--fixed-size", "4B", "--compression", "none", "--hash-length", "16"], "words"),
    ("rollsum-brotli-hl12", ["--hash-chunking", "RollSum", "--rolling-window-size", "16B", "--min-chunk-size", "32B", "--avg-chunk-size", "64B",
                             "--max-chunk-size", "256B", "--compression", "brotli", "--compression-level", "4", "--hash-length", "12"], "pattern"),
    # the archive of an empty source: no chunks at all (whatever shortcut that invites, the refusals stay)
    ("empty-source", ["--fixed-size", "4B", "--compression", "none"], "empty"),
]
STATES = ["absent", "empty", "equal", "reversed", "prefix", "longer", "junk"]
FLAGS = ["-f", "--seed-output", "--verify-output"]
SEEDS = ["none", "file", "stdin", "output-itself", "file,stdin", "stdin,file"]


def source_of(kind):
    if kind == "empty":
        return b""
    # both sources hold a chunk that is all zeros (4 bytes / a run of 700 zero bytes under a 256-byte maximum)
    return words("ABC0ABEF") if kind == "words" else pattern(1500, 7) + b"\0" * 700 + pattern(800, 9)


def reversed_chunks(kind, src):
    if kind == "words":
        return b"".join(src[i:i + 4] for i in range(len(src) - 4, -1, -4))
    # rotate a content-defined source by a third: most chunks survive at other offsets
    k = len(src) // 3
    return src[k:] + src[:k]


def state_bytes(state, kind, src):
    if state == "absent":
        return None
    if kind == "empty":
        # nothing of the (empty) source can be in the output: every non-absent state is other content
        return {"empty": b"", "equal": b"", "reversed": b"old content", "prefix": b"x", "longer": b"#" * 37, "junk": bytes(range(30))}[state]
    return {"empty": b"", "equal": src, "reversed": reversed_chunks(kind, src), "prefix": src[:len(src) // 2 // 4 * 4],
            "longer": src + b"#" * 37, "junk": bytes((i * 7 + 3) % 251 for i in range(len(src)))}[state]


def clone_cells():
    cells = []
    n = 0
    for (ai, _), transport, state, k, seed in itertools.product(enumerate(ARCHIVES), ("file", "http"), STATES, range(1 << len(FLAGS)), SEEDS):
        flags = [f for i, f in enumerate(FLAGS) if k >> i & 1]
        cells.append({"cmd": "clone", "archive": ai, "transport": transport, "state": state, "flags": flags, "seed": seed,
                      "verbose": "-vv" if n % 4 == 3 else "",
                      # every (state, flag subset) meets both values across the seed kinds
                      "retry": transport == "http" and (STATES.index(state) + k + SEEDS.index(seed)) % 2 == 1})
        n += 1
    return cells


def run_clone_cell(bita, root, idx, cell, arch_paths, server, viol, arch_bytes=None):
    name, _, kind = ARCHIVES[cell["archive"]]
    src = source_of(kind)
    d = os.path.join(root, f"k{idx}")
    os.makedirs(d)
    out = os.path.join(d, "out.img")
    prior = state_bytes(cell["state"], kind, src)
    if prior is not None:
        with open(out, "wb") as f:
            f.write(prior)
    seed_data = src[len(src) // 2 // 4 * 4:] + b"seed-junk" * 3
    argv = [bita] + ([cell["verbose"]] if cell["verbose"] else []) + ["clone"] + cell["flags"]
    stdin_data = None
    if cell["seed"] == "file":
        with open(os.path.join(d, "seed.bin"), "wb") as f:
            f.write(seed_data)
        argv += ["--seed", "seed.bin"]
    elif cell["seed"] == "stdin":
        argv += ["--seed", "-"]
        stdin_data = seed_data
    elif cell["seed"] in ("file,stdin", "stdin,file"):
        # two seeds, one of them on stdin, in both orders of the options: together they hold every chunk
        with open(os.path.join(d, "seed.bin"), "wb") as f:
            f.write(seed_data)
        argv += ["--seed", "seed.bin", "--seed", "-"] if cell["seed"] == "file,stdin" else ["--seed", "-", "--seed", "seed.bin"]
        stdin_data = b"stdin-junk!!" + src[:len(src) // 2 // 4 * 4]
    elif cell["seed"] == "output-itself":
        # the output path named as a seed: must not change whether the command refuses
        argv += ["--seed", "out.img"]
    target = server.url(f"{name}.cba", f"cell={idx:05d}") if cell["transport"] == "http" else arch_paths[cell["archive"]]
    if cell["transport"] == "http" and cell.get("retry"):
        # a retry budget (and the other transfer options) must not change what the command refuses or produces
        argv += ["--http-retry-count", "2", "--http-retry-delay", "0", "--http-timeout", "30"]
    argv += [target, "out.img"]
    before = snapshot(d)
    r = sh(argv, d, stdin_data=stdin_data)
    after = snapshot(d)
    changes = diff(before, after)
    detail = dict(cell, archive_name=name, exit=r.returncode, changes=changes[:6], stderr=r.stderr.decode(errors="replace")[-300:])
    others = [c for c in changes if c[0] != "out.img"]
    if others:
        viol.add("path-other-than-output-touched", detail)
    in_place = "--seed-output" in cell["flags"]
    refuse = prior is not None and "-f" not in cell["flags"] and not in_place
    if cell["seed"] == "output-itself" and not refuse:
        # a seed that does not exist (absent output) is an error; reading the output as a seed while it is
        # being overwritten is outside what the properties promise: only the refusal cells are judged
        return "not-judged"
    if refuse:
        if r.returncode == 0:
            viol.add("refusal-expected-but-exit-zero", detail)
        if ("out.img", "changed") in changes or ("out.img", "removed") in changes:
            viol.add("refused-but-output-changed", detail)
        if any(c[1] == "added" for c in changes):
            viol.add("refused-but-files-created", detail)
        return "refused" if r.returncode != 0 else "not-refused"
    if r.returncode != 0:
        viol.add("valid-in-place-clone-failed" if in_place else "valid-clone-failed", detail)
        return "failed"
    try:
        with open(out, "rb") as f:
            got = f.read()
    except OSError:
        got = None
    if got != src:
        detail["output_len"] = None if got is None else len(got)
        if got is not None and len(got) != len(src) and got[:len(src)] == src:
            viol.add("output-length-differs-from-source-length", detail)
        else:
            viol.add("in-place-success-with-wrong-output" if in_place else "success-with-wrong-output", detail)
            if got is not None and len(got) != len(src):
                viol.add("output-length-differs-from-source-length", detail)
    if cell["transport"] == "http" and kind == "words" and got == src and arch_bytes is not None:
        judge_requests(cell, idx, kind, src, prior, seed_data, arch_bytes[cell["archive"]], server, viol, detail)
    return "cloned"



def header_len(ab):
    """Length of the header of an archive (magic 6, dictionary size u64 LE, dictionary, offset u64, checksum 64)."""
    return 6 + 8 + int.from_bytes(ab[6:14], "little") + 8 + 64


def expected_runs(cell, kind, src, prior, seed_data, ab):
    """Fixed 4-byte chunks: which stored chunks a clone must request, as maximal runs of adjacent missing
    descriptors in archive order -> [(first_byte, last_byte)] (absolute offsets in the archive file)."""
    have = set()
    if "--seed-output" in cell["flags"] and prior:
        have |= {prior[i:i + 4] for i in range(0, len(prior) - 3, 4)}
    if cell["seed"] in ("file", "stdin", "file,stdin", "stdin,file"):
        have |= {seed_data[i:i + 4] for i in range(0, len(seed_data) - 3, 4)}
    if cell["seed"] in ("file,stdin", "stdin,file"):
        other = b"stdin-junk!!" + src[:len(src) // 2 // 4 * 4]
        have |= {other[i:i + 4] for i in range(0, len(other) - 3, 4)}
    order = []
    for i in range(0, len(src), 4):
        if src[i:i + 4] not in order:
            order.append(src[i:i + 4])
    h = header_len(ab)
    data_off = int.from_bytes(ab[h - 72:h - 64], "little")
    runs = []
    for j, w in enumerate(order):
        if w in have:
            continue
        a, b = data_off + 4 * j, data_off + 4 * j + 3
        if runs and runs[-1][1] + 1 == a:
            runs[-1] = (runs[-1][0], b)
        else:
            runs.append((a, b))
    return h, runs


def judge_requests(cell, idx, kind, src, prior, seed_data, ab, server, viol, detail):
    h, want = expected_runs(cell, kind, src, prior, seed_data, ab)
    cut = CUTS.get(idx)
    if cut is not None:
        # the first chunk-data response of this cell was cut after 2 bytes: the follow-up request starts at the
        # first missing byte and keeps the run's end
        want = [w2 for w in want for w2 in ([w, (w[0] + 2, w[1])] if w[0] == cut else [w])]
    got = []
    for _, rng in server.requests_for(f"cell={idx:05d}"):
        if not rng or not rng.startswith("bytes="):
            got.append(("whole-file", rng))
            continue
        a, _, b = rng[6:].partition("-")
        a, b = int(a), int(b) if b else len(ab) - 1
        if b < h:
            continue                      # header region
        got.append((a, b))
    if got == want:
        return
    d = dict(detail, requests_beyond_header=[list(g) for g in got[:12]], expected_runs=[list(w) for w in want[:12]])

    def cover(rs):
        c = []
        for r in rs:
            if r[0] == "whole-file":
                return None
            c += list(range(r[0], r[1] + 1))
        return sorted(c)
    if cover(got) is None or cover(want) is None or sorted(set(cover(got))) != sorted(set(cover(want))) or (cut is None and cover(got) != cover(want)):
        viol.add("grid-bytes-fetched-differ-from-missing-chunks", d)
    else:
        viol.add("grid-requests-differ-from-maximal-runs", d)


# ------------------------------------------------------------------ compress grid

C_SOURCES = [("empty", b""), ("small", pattern(40)), ("medium", pattern(3000, 5))]
C_CHUNKERS = [("fixed64", ["--fixed-size", "64B"]),
              ("rollsum", ["--hash-chunking", "RollSum", "--rolling-window-size", "16B", "--min-chunk-size", "32B", "--avg-chunk-size", "64B", "--max-chunk-size", "256B"]),
              ("default", [])]
C_COMPS = [("none", ["--compression", "none"]), ("brotli", ["--compression", "brotli", "--compression-level", "4"])]
C_STATES = ["absent", "empty", "shorter", "longer", "same", "stale-temp", "same+stale-temp"]


def compress_cells():
    cells = []
    n = 0
    for si, inp, ci, pi, state, force in itertools.product(range(len(C_SOURCES)), ("file", "stdin"), range(len(C_CHUNKERS)), range(len(C_COMPS)), C_STATES, (False, True)):
        cells.append({"cmd": "compress", "source": si, "input": inp, "chunker": ci, "compression": pi, "state": state, "force": force,
                      "verbose": "-vv" if n % 4 == 3 else ""})
        n += 1
    return cells


def reference_archive(bita, root, cell, cache):
    key = (cell["source"], cell["chunker"], cell["compression"])
    if key not in cache:
        d = tempfile.mkdtemp(prefix="ref-", dir=root)
        with open(os.path.join(d, "src.bin"), "wb") as f:
            f.write(C_SOURCES[key[0]][1])
        r = sh([bita, "compress", "-i", "src.bin"] + C_CHUNKERS[key[1]][1] + C_COMPS[key[2]][1] + ["ref.cba"], d)
        if r.returncode != 0:
            raise RuntimeError("reference compress failed: " + r.stderr.decode()[-300:])
        with open(os.path.join(d, "ref.cba"), "rb") as f:
            cache[key] = f.read()
    return cache[key]


def run_compress_cell(bita, root, idx, cell, refs, viol):
    sname, src = C_SOURCES[cell["source"]]
    ref = refs[(cell["source"], cell["chunker"], cell["compression"])]
    d = os.path.join(root, f"z{idx}")
    os.makedirs(d)
    out = os.path.join(d, "out.cba")
    prior = {"absent": None, "empty": b"", "shorter": b"old" * 9, "longer": ref + b"an older and longer file " * 400, "same": ref, "stale-temp": None, "same+stale-temp": ref}[cell["state"]]
    if cell["state"].endswith("stale-temp"):
        # the temp file of an earlier, interrupted run of the same command is still there (larger than this run's)
        with open(os.path.join(d, "out..tmp"), "wb") as f:
            f.write(b"stale chunk data " * 4096)
    if prior is not None:
        with open(out, "wb") as f:
            f.write(prior)
    argv = [bita] + ([cell["verbose"]] if cell["verbose"] else []) + ["compress"] + (["-f"] if cell["force"] else [])
    stdin_data = None
    if cell["input"] == "file":
        with open(os.path.join(d, "src.bin"), "wb") as f:
            f.write(src)
        argv += ["-i", "src.bin"]
    else:
        stdin_data = src
    argv += C_CHUNKERS[cell["chunker"]][1] + C_COMPS[cell["compression"]][1] + ["out.cba"]
    before = snapshot(d)
    r = sh(argv, d, stdin_data=stdin_data)
    after = snapshot(d)
    changes = diff(before, after)
    detail = dict(cell, source_name=sname, exit=r.returncode, changes=changes[:6], stderr=r.stderr.decode(errors="replace")[-300:])
    # (the command's own temp file is used and removed: a stale one disappears with it)
    if [c for c in changes if c[0] != "out.cba" and not (cell["state"].endswith("stale-temp") and not (prior is not None and not cell["force"]) and c == ("out..tmp", "removed"))]:
        viol.add("path-other-than-output-touched", detail)
    refuse = prior is not None and not cell["force"]
    if refuse:
        if r.returncode == 0:
            viol.add("refusal-expected-but-exit-zero", detail)
        if ("out.cba", "changed") in changes or ("out.cba", "removed") in changes:
            viol.add("refused-but-output-changed", detail)
        if any(c[1] == "added" for c in changes):
            viol.add("refused-but-files-created", detail)
        return "refused" if r.returncode != 0 else "not-refused"
    if r.returncode != 0:
        viol.add("valid-compress-failed", detail)
        return "failed"
    with open(out, "rb") as f:
        got = f.read()
    if got != ref:
        detail["archive_len"], detail["reference_len"] = len(got), len(ref)
        viol.add("archive-depends-on-history-input-kind-or-verbosity", detail)
    # round trip through a fresh clone of what was written
    r2 = sh([bita, "clone", "--verify-output", "out.cba", "back.bin"], d)
    if r2.returncode != 0:
        detail["clone_stderr"] = r2.stderr.decode(errors="replace")[-300:]
        viol.add("round-trip-clone-failed", detail)
    else:
        with open(os.path.join(d, "back.bin"), "rb") as f:
            if f.read() != src:
                viol.add("compress-clone-round-trip-differs", detail)
    return "compressed"


# ------------------------------------------------------------------ driver

def grid(ctx, only_cell=None):
    bita = ctx["bita"]
    root = tempfile.mkdtemp(prefix="verif-grid-")
    viol = Viol()
    outcomes = {}
    try:
        # archives for the clone grid, made by the binary under test (C01/C11 judge them)
        arch_paths, files = [], {}
        for name, args, kind in ARCHIVES:
            d = os.path.join(root, "arch-" + name)
            os.makedirs(d)
            with open(os.path.join(d, "src.bin"), "wb") as f:
                f.write(source_of(kind))
            r = sh([bita, "compress", "-i", "src.bin"] + args + ["a.cba"], d)
            if r.returncode != 0:
                raise RuntimeError("grid: compress failed: " + r.stderr.decode()[-300:])
            arch_paths.append(os.path.join(d, "a.cba"))
            with open(arch_paths[-1], "rb") as f:
                files[f"{name}.cba"] = f.read()
        ccells, zcells = clone_cells(), compress_cells()
        refs = {}
        for c in zcells:
            reference_archive(bita, root, c, refs)
        jobs = [("clone", i, c) for i, c in enumerate(ccells)] + [("compress", i, c) for i, c in enumerate(zcells)]
        if only_cell is not None:
            jobs = [j for j in jobs if {k: v for k, v in j[2].items()} == only_cell]
        CUTS.clear()
        hdr = {f"{a[0]}.cba": header_len(files[f"{a[0]}.cba"]) for a in ARCHIVES}

        def behaviour(index, path, rng):
            # cells that carry a retry budget: the first chunk-data response is cut after 2 bytes (once per cell)
            import re
            m = re.search(r"/([^/?]+)\?cell=(\d+)", path)
            if not m or not rng or not rng.startswith("bytes="):
                return None
            name, idx = m.group(1), int(m.group(2))
            if idx >= len(ccells) or not ccells[idx].get("retry") or ARCHIVES[ccells[idx]["archive"]][2] != "words":
                return None
            a, _, b = rng[6:].partition("-")
            if not b or int(b) < hdr[name] or idx in CUTS:
                return None
            CUTS[idx] = int(a)
            return {"close_after": 2}
        with RangeServer(files, behaviour=behaviour) as server:
            def one(job):
                kind, i, c = job
                if kind == "clone":
                    return kind, run_clone_cell(bita, root, i, c, arch_paths, server, viol, [files[f"{a[0]}.cba"] for a in ARCHIVES])
                return kind, run_compress_cell(bita, root, i, c, refs, viol)
            with ThreadPoolExecutor(max_workers=min(16, os.cpu_count() or 4)) as ex:
                for kind, o in ex.map(one, jobs):
                    outcomes[f"{kind}:{o}"] = outcomes.get(f"{kind}:{o}", 0) + 1
        return viol, outcomes, len(ccells), len(zcells)
    finally:
        shutil.rmtree(root, ignore_errors=True)


def appearing_output(ctx, viol):
    """The output does not exist when the command starts and appears while the archive header is being fetched
    (a second clone, a slow server): it exists when the command gets to open it, so the command must refuse and
    leave it alone. Deterministic: the server creates the file before it answers the first request. -> cases run"""
    bita = ctx["bita"]
    root = tempfile.mkdtemp(prefix="verif-grid-race-")
    n = 0
    try:
        src = words("ABC0ABEF")
        with open(os.path.join(root, "src.bin"), "wb") as f:
            f.write(src)
        r = sh([bita, "compress", "--fixed-size", "4B", "--compression", "none", "-i", "src.bin", "a.cba"], root)
        if r.returncode != 0:
            raise RuntimeError("compress failed: " + r.stderr.decode()[-300:])
        with open(os.path.join(root, "a.cba"), "rb") as f:
            ab = f.read()
        for extra in ([], ["--verify-output"], ["--http-retry-count", "2"]):
            d = os.path.join(root, f"r{n}")
            os.makedirs(d)
            out = os.path.join(d, "out.img")
            other = b"created by somebody else in the meantime " * 3

            def behaviour(index, path, rng, out=out, other=other):
                if index == 0 and not os.path.exists(out):
                    with open(out, "wb") as f:
                        f.write(other)
                return None
            with RangeServer({"a.cba": ab}, behaviour=behaviour) as srv:
                r = sh([bita, "clone"] + extra + [srv.url("a.cba"), "out.img"], d)
            n += 1
            try:
                with open(out, "rb") as f:
                    now = f.read()
            except OSError:
                now = None
            detail = {"cmd": "clone", "case": "output appears while the header is fetched", "extra": extra, "exit": r.returncode,
                      "stderr": r.stderr.decode(errors="replace")[-300:], "leg_module": LEG, "function": "appearing_output"}
            if r.returncode == 0:
                viol.add("refusal-expected-but-exit-zero", detail)
            if now != other:
                viol.add("refused-but-output-changed", detail)
    finally:
        shutil.rmtree(root, ignore_errors=True)
    return n


def leg(ctx):
    t0 = time.time()
    pid = ctx["pid"]
    viol, outcomes, nclone, ncomp = grid(ctx)
    if pid == "C14":
        outcomes["clone:output-appears-meanwhile"] = appearing_output(ctx, viol)
    mine = [c for c in viol.v.values() if c["class"] in FACETS[pid]]
    for c in mine:
        for e in c["examples"]:
            e["function"] = "leg"
    cov = {
        "evaluations": nclone + ncomp,
        "cli_grid_clone_cells": nclone,
        "cli_grid_compress_cells": ncomp,
        "cli_grid_outcomes": outcomes,
        "exhaustive": True,
        "rule": "real binary, full product of output-opening options x state of the output path x transport x archive parameterisation "
                f"(clone: {len(ARCHIVES)} archives x 2 transports x {len(STATES)} states x {1 << len(FLAGS)} flag subsets x {len(SEEDS)} seed kinds; "
                f"compress: {len(C_SOURCES)} sources x 2 inputs x {len(C_CHUNKERS)} chunkers x {len(C_COMPS)} compressions x {len(C_STATES)} states x 2), "
                "-vv on every 4th cell; oracle: a model of the command line (refuse / succeed) and byte comparison with the source, the reference archive and the directory snapshot; "
                f"classes judged for {pid}: {', '.join(FACETS[pid])}",
    }
    return {"property_id": pid, "level": "exploration", "coverage": cov,
            "assumptions": ["grid sources are small (32 and 3000 bytes): the grid explores options and output states, the in-process legs explore data layouts"],
            "violation_classes": mine, "wall_s": time.time() - t0}


def replay(ctx, detail):
    if detail.get("function") == "appearing_output":
        v = Viol()
        appearing_output(ctx, v)
        return bool(v.v)
    keys_clone = ("cmd", "archive", "transport", "state", "flags", "seed", "verbose", "retry")
    keys_comp = ("cmd", "source", "input", "chunker", "compression", "state", "force", "verbose")
    keys = keys_clone if detail.get("cmd") == "clone" else keys_comp
    cell = {k: detail[k] for k in keys}
    viol, _, _, _ = grid(ctx, only_cell=cell)
    for c in viol.v.values():
        print(f"replay: class={c['class']} count={c['count']}")
    return bool(viol.v)


if __name__ == "__main__":
    import json
    import sys
    pid = sys.argv[1] if len(sys.argv) > 1 else "C14"
    r = leg({"pid": pid, "tier": "quick", "seed": 0, "bita": "/verif/build/bita/release/bita", "vh": "", "verif": "/verif", "build": "/verif/build"})
    print(json.dumps(r, indent=1)[:4000])
