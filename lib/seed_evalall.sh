#!/bin/bash
for x in "$@"; do id=${x%%:*}; v=${x##*:}; d=/root/work/seed/$id
  python3 /verif/lib/seed_eval.py $d $v > $d/$v.eval.json 2>&1
  python3 -c "import json;r=json.load(open('$d/$v.eval.json'));print('$id/$v','confirmed' if r.get('confirmed') else 'NOT CONFIRMED', r.get('suite_with_change',{}).get('passed'), r['demo_without_change']['holds'], r.get('demo_with_change',{}).get('holds'))"
done
