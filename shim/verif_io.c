// LD_PRELOAD fault injector for the real bita binary (DESIGN.md 4/C05, level L2).
// Counts write(2) calls on the file named by VERIF_IO_PATH with a process-global counter
// (1-based) and makes the VERIF_IO_FAIL_AT-th one misbehave according to VERIF_IO_MODE:
//   eio      return -1/EIO            enospc   return -1/ENOSPC
//   short    perform VERIF_IO_TEAR bytes and return that count; the NEXT write fails with EIO
//   tear     perform VERIF_IO_TEAR bytes, then _exit(137) (the process dies mid-write)
//   (unset)  count only
// At exit the number of tracked writes and their sizes are written to VERIF_IO_REPORT.
#define _GNU_SOURCE
#include <dlfcn.h>
#include <errno.h>
#include <fcntl.h>
#include <limits.h>
#include <stdio.h>
#include <stdlib.h>
#include <string.h>
#include <unistd.h>

static ssize_t (*real_write)(int, const void *, size_t);
static int counter = 0;
static int fail_next = 0;
static size_t sizes[4096];

static int tracked(int fd) {
  const char *p = getenv("VERIF_IO_PATH");
  if (!p) return 0;
  char link[64], buf[PATH_MAX];
  snprintf(link, sizeof link, "/proc/self/fd/%d", fd);
  ssize_t n = readlink(link, buf, sizeof buf - 1);
  if (n < 0) return 0;
  buf[n] = 0;
  return strcmp(buf, p) == 0;
}

static void report(void) {
  const char *r = getenv("VERIF_IO_REPORT");
  if (!r) return;
  int fd = open(r, O_WRONLY | O_CREAT | O_TRUNC, 0644);
  if (fd < 0) return;
  char line[64];
  int n = counter < 4096 ? counter : 4096;
  for (int i = 0; i < n; i++) {
    int l = snprintf(line, sizeof line, "%zu\n", sizes[i]);
    if (real_write) real_write(fd, line, l);
  }
  close(fd);
}

__attribute__((constructor)) static void init(void) {
  real_write = dlsym(RTLD_NEXT, "write");
  atexit(report);
}

ssize_t write(int fd, const void *b, size_t n) {
  if (!real_write) real_write = dlsym(RTLD_NEXT, "write");
  if (tracked(fd)) {
    int k = __sync_add_and_fetch(&counter, 1);
    if (k <= 4096) sizes[k - 1] = n;
    const char *at = getenv("VERIF_IO_FAIL_AT");
    const char *mode = getenv("VERIF_IO_MODE");
    if (fail_next) { errno = EIO; return -1; }
    if (at && mode && atoi(at) == k) {
      const char *ts = getenv("VERIF_IO_TEAR");
      size_t t = ts ? (size_t)atol(ts) : 0;
      if (t > n) t = n;
      if (!strcmp(mode, "tear")) {
        if (t > 0) real_write(fd, b, t);
        _exit(137);
      }
      if (!strcmp(mode, "short")) {
        fail_next = 1;
        if (t == 0) { errno = EIO; return -1; }
        return real_write(fd, b, t);
      }
      if (!strcmp(mode, "enospc")) { errno = ENOSPC; return -1; }
      errno = EIO;
      return -1;
    }
  }
  return real_write(fd, b, n);
}
