//! C05 (library level): crash-point and write-fault enumeration on the clone flow.
//! For every scenario, every output write k and every tear offset t the "process dies" with the
//! first t bytes of write k on the device; the clone is then re-run in place on what is left
//! (optionally crashing again) and must complete to exactly the source. Injected write errors
//! must never end in a reported success.
use crate::clonechecks::*;
use crate::clonelab::*;
use crate::memdev::*;
use crate::rep::*;
use crate::universe::*;
use serde_json::{json, Value};

fn machinery(e: String) -> ! {
    eprintln!("MACHINERY-ERROR {e}");
    std::process::exit(2)
}

fn first_runs(u: &Universe, arch: &Arch, n: usize) -> Vec<Scenario> {
    let letters = u.letters();
    let mut v = vec![Scenario { prior: None, seed_output: false, seeds: vec![], fault: Fault::None, verify_output: false }];
    for p in seqs(letters.len(), n) {
        if p.is_empty() {
            continue;
        }
        v.push(Scenario { prior: Some(u.concat(&letters, &p)), seed_output: true, seeds: vec![], fault: Fault::None, verify_output: false });
    }
    for s in seqs(letters.len(), n.min(2)) {
        if s.is_empty() {
            continue;
        }
        v.push(Scenario { prior: None, seed_output: false, seeds: vec![u.concat(&letters, &s)], fault: Fault::None, verify_output: false });
    }
    v.push(Scenario { prior: Some(arch.source.clone()), seed_output: true, seeds: vec![], fault: Fault::None, verify_output: false });
    // the source shifted by every letter (whatever the depth n): every chunk must move by less than its own
    // size or into the place of a bigger neighbour - the overlap cases of the re-order planner
    for j in 0..letters.len() {
        let mut p = u.concat(&letters, &[j]);
        p.extend_from_slice(&arch.source);
        v.push(Scenario { prior: Some(p), seed_output: true, seeds: vec![], fault: Fault::None, verify_output: false });
    }
    v
}

fn writes_of(obs: &Observed) -> Vec<usize> {
    obs.log.iter().filter_map(|o| if let Op::Write { data, .. } = o { Some(data.len()) } else { None }).collect()
}

fn rerun_in_place(arch: &Arch, dev: Vec<u8>, fault: Fault) -> Observed {
    let sc = Scenario { prior: Some(dev), seed_output: true, seeds: vec![], fault, verify_output: false };
    run_scenario(arch, &sc)
}

fn judge_completion(arch: &Arch, first: &Scenario, crash: &str, obs: &Observed, agg: &mut Agg) {
    let detail = || {
        let mut j = scenario_json(arch, first);
        j["crash"] = json!(crash);
        j["rerun_outcome"] = json!(format!("{:?}", obs.outcome));
        j["rerun_output"] = json!(hex(&obs.dev));
        j
    };
    match &obs.outcome {
        Outcome::Ok if obs.dev == arch.source => {}
        Outcome::Ok => agg.viol("rerun-success-with-wrong-output", detail),
        Outcome::Panic(p) => agg.viol(&format!("rerun-panic@{}", panic_site(p)), detail),
        Outcome::Err(_) => agg.viol("rerun-failed", detail),
        Outcome::Crashed => machinery("unexpected crash in clean re-run".into()),
    }
}

pub fn run(rep: &mut Report) {
    let thorough = rep.thorough();
    let lab = Lab::new(thorough);
    let n = if thorough { 3 } else { 2 };
    let mut sh = shards(&lab, if thorough { 4 } else { 2 }, if thorough { &[64, 4] } else { &[64] });
    if !thorough {
        // the six orders of three different words (sizes differ in the content-defined universes): with a prior
        // output of two of them a small chunk has to land deep inside a bigger one that still has to move
        for ui in 0..lab.unis.len() {
            for p in [[0usize, 1, 2], [0, 2, 1], [1, 0, 2], [1, 2, 0], [2, 0, 1], [2, 1, 0]] {
                sh.push(Shard { ui, hash_len: 64, src: p.to_vec() });
            }
        }
    }
    let (lab_ref, sh_ref) = (&lab, &sh);
    let a = par_shards(sh.len(), threads(), |i| {
        let mut agg = Agg::default();
        let rt = new_rt();
        let s = &sh_ref[i];
        let arch = shard_arch(lab_ref, s, &rt).unwrap_or_else(|e| machinery(e));
        let (u, _) = &lab_ref.unis[s.ui];
        for first in first_runs(u, &arch, n) {
            let clean = run_scenario(&arch, &first);
            if !matches!(clean.outcome, Outcome::Ok) {
                continue; // judged by C02/C03
            }
            let w = writes_of(&clean);
            agg.add("first_runs", 1);
            agg.add("output_writes", w.len() as u64);
            // crash before any write at all (k = 0, nothing performed) is the prior itself: covered by t = 0 of write 0
            for (k, &len) in w.iter().enumerate() {
                for t in 0..=len {
                    let mut sc = first.clone();
                    sc.fault = Fault::CrashAtWrite { n: k, t };
                    let crashed = run_scenario(&arch, &sc);
                    if !matches!(crashed.outcome, Outcome::Crashed) {
                        machinery(format!("crash injection at write {k} tear {t} did not stop the run: {:?}", crashed.outcome));
                    }
                    agg.add("crash_points", 1);
                    let re = rerun_in_place(&arch, crashed.dev.clone(), Fault::None);
                    judge_completion(&arch, &first, &format!("write {k} torn after {t} of {len} bytes"), &re, &mut agg);
                    agg.distinct("crash_states", fnv(&[crashed.dev.clone(), vec![0xff], arch.source.clone()].concat()));
                    // repeated crash: the second run dies too, the third must complete
                    if thorough || (k + t) % 3 == 0 {
                        let w2 = writes_of(&re);
                        for (k2, &len2) in w2.iter().enumerate() {
                            for t2 in [0usize, len2 / 2, len2] {
                                let r2 = rerun_in_place(&arch, crashed.dev.clone(), Fault::CrashAtWrite { n: k2, t: t2 });
                                if !matches!(r2.outcome, Outcome::Crashed) {
                                    continue;
                                }
                                agg.add("double_crash_points", 1);
                                let r3 = rerun_in_place(&arch, r2.dev.clone(), Fault::None);
                                judge_completion(&arch, &first, &format!("write {k} torn after {t}/{len}, then re-run write {k2} torn after {t2}/{len2}"), &r3, &mut agg);
                            }
                        }
                    }
                }
                // write faults: an error must never end in success
                for fault in [Fault::ErrAtWrite { n: k }, Fault::ShortWrite { n: k, t: 1 }, Fault::PendingWrite { n: k }] {
                    let mut sc = first.clone();
                    sc.fault = fault;
                    let obs = run_scenario(&arch, &sc);
                    agg.add("write_fault_runs", 1);
                    let detail = || {
                        let mut j = scenario_json(&arch, &sc);
                        j["outcome"] = json!(format!("{:?}", obs.outcome));
                        j["output"] = json!(hex(&obs.dev));
                        j
                    };
                    match (&fault, &obs.outcome) {
                        (Fault::ErrAtWrite { .. }, Outcome::Ok) => agg.viol("failed-write-reported-as-success", detail),
                        (_, Outcome::Ok) if obs.dev != arch.source => agg.viol("success-with-wrong-output", detail),
                        (Fault::ShortWrite { .. } | Fault::PendingWrite { .. }, Outcome::Err(_)) => agg.viol("legal-short-or-pending-write-failed-the-clone", detail),
                        (_, Outcome::Panic(p)) => agg.viol(&format!("panic@{}", panic_site(p)), detail),
                        _ => {}
                    }
                }
            }
            // read / seek faults on the output (in-place scan and reorder): success implies right output
            let nreads = clean.log.iter().filter(|o| matches!(o, Op::Read { .. })).count();
            let nseeks = clean.log.iter().filter(|o| matches!(o, Op::Seek { .. })).count();
            let mut faults = vec![];
            for r in 0..nreads.min(40) {
                faults.push(Fault::ErrAtRead { n: r });
                faults.push(Fault::ShortRead { n: r, t: 1 });
                faults.push(Fault::PendingRead { n: r });
                faults.push(Fault::InterruptedRead { n: r, t: 1 });
            }
            for sidx in 0..nseeks.min(40) {
                faults.push(Fault::ErrAtSeek { n: sidx });
            }
            for fault in faults {
                let mut sc = first.clone();
                sc.fault = fault;
                let obs = run_scenario(&arch, &sc);
                agg.add("read_seek_fault_runs", 1);
                let detail = || {
                    let mut j = scenario_json(&arch, &sc);
                    j["outcome"] = json!(format!("{:?}", obs.outcome));
                    j["output"] = json!(hex(&obs.dev));
                    j
                };
                match (&fault, &obs.outcome) {
                    (_, Outcome::Ok) if obs.dev != arch.source => agg.viol("success-with-wrong-output", detail),
                    (Fault::ErrAtSeek { .. }, Outcome::Ok) => agg.viol("failed-seek-reported-as-success", detail),
                    (Fault::ShortRead { .. } | Fault::PendingRead { .. }, Outcome::Err(_)) => agg.viol("legal-short-or-pending-read-failed-the-clone", detail),
                    (_, Outcome::Panic(p)) => agg.viol(&format!("panic@{}", panic_site(p)), detail),
                    _ => {}
                }
            }
            if i == 3 && agg.samples.len() < 3 && w.len() >= 2 {
                agg.sample(|| {
                    let mut j = scenario_json(&arch, &first);
                    j["writes"] = json!(w);
                    j["crash_points"] = json!(w.iter().map(|l| l + 1).sum::<usize>());
                    j
                });
            }
        }
        agg
    });
    rep.agg.merge(a);
    // Whatever an interrupted run (of this or of another image) left behind is a prior content of the output: the
    // re-run in place over EVERY prior layout of <= 4 chunks of sizes 1-3 (real planner and executor), by final bytes.
    {
        let mut l0 = Agg::default();
        crate::clonechecks::c03_l0(4, 64, &mut l0);
        let mut renamed = Agg::default();
        renamed.counters = l0.counters.clone();
        for (k, v) in l0.classes {
            if k == "success-with-wrong-output" {
                renamed.classes.insert("rerun-success-with-wrong-output".into(), v);
            } else if k == "valid-clone-failed" || k.starts_with("panic") {
                renamed.classes.insert(if k.starts_with("panic") { k } else { "rerun-failed".into() }, v);
            }
        }
        rep.agg.merge(renamed);
    }
    let ev = rep.agg.get("l0_pairs") + rep.agg.get("crash_points") + rep.agg.get("double_crash_points") + rep.agg.get("write_fault_runs") + rep.agg.get("read_seek_fault_runs");
    rep.set("evaluations", json!(ev));
    rep.set("distinct_nontrivial", json!(rep.agg.distinct_count("crash_states")));
    rep.set("exhaustive", json!(true));
    rep.set("universes", lab.describe());
    rep.set("rule", json!(format!("library leg: for every first run (plain, in place over every prior output of <= {n} letters, with every seed of <= 2 letters; sources of <= {n} words per universe, quick: + the six orders of three different words), every output write k and every tear offset t in 0..=len(write k): the run dies with t bytes of write k on the device, the clone is re-run in place on the remains and must succeed with output == source; repeated crash: the re-run dies at each of its writes (tear 0, half, full) and a third run must complete (quick: every 3rd first crash point; thorough: all); write/seek errors at every index must not end in success, short/pending answers must not fail the clone; the in-place run over every prior layout of <= 4 chunks of sizes 1-3 (anything an interrupted run of this or another image may have left); non-trivial = distinct (device content after crash, source) states")));
    rep.assume("crash model: writes before k complete, write k torn after t bytes, nothing later; matches tokio::fs::File where at most one write is in flight (bound to the real binary by the LD_PRELOAD leg)");
    rep.assume("no fsync/power-loss model: C05 speaks of interrupted processes and bita never syncs");
}

pub fn replay(v: &Value) -> bool {
    if v.get("level").and_then(|l| l.as_str()) == Some("L0") {
        return crate::clonechecks::replay("C03", v);
    }
    let (cfg, hl, comp, source, sc) = scenario_from_json(v);
    let rt = new_rt();
    let arch = build_arch(&rt, &cfg, hl, &comp, &source, 2).unwrap();
    // re-enumerate the crash points of this one first run
    let clean = run_scenario(&arch, &sc);
    let w = writes_of(&clean);
    let mut agg = Agg::default();
    for (k, &len) in w.iter().enumerate() {
        for t in 0..=len {
            let mut s2 = sc.clone();
            s2.fault = Fault::CrashAtWrite { n: k, t };
            let crashed = run_scenario(&arch, &s2);
            let re = rerun_in_place(&arch, crashed.dev.clone(), Fault::None);
            judge_completion(&arch, &sc, &format!("write {k} torn after {t}"), &re, &mut agg);
        }
        let mut s2 = sc.clone();
        s2.fault = Fault::ErrAtWrite { n: k };
        if matches!(run_scenario(&arch, &s2).outcome, Outcome::Ok) {
            agg.viol("failed-write-reported-as-success", || json!({"write": k}));
        }
    }
    for (k, c) in &agg.classes {
        println!("replay: class={} count={}", k, c.count);
    }
    !agg.classes.is_empty()
}
