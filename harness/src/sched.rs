//! Blocking-pool schedule explorer (DESIGN.md 3.6): stateless, deviation-bounded DFS over the
//! orders in which tokio blocking-pool tasks (hashing, compression, tokio::fs::File operations)
//! complete relative to polls of the main future. Runs the *real* code; the seam is the gate in
//! the vendored tokio (`tokio::verif_gate`), used by this harness workspace only.
use crate::rep::*;
use serde_json::{json, Value};
use std::collections::BTreeMap;
use std::future::Future;
use std::path::{Path, PathBuf};
use std::pin::Pin;
use std::sync::atomic::{AtomicBool, Ordering};
use std::sync::Arc;
use std::task::{Context, Poll, Wake, Waker};
use tokio::verif_gate as gate;

pub type BoxFut = Pin<Box<dyn Future<Output = Result<(), String>>>>;

pub struct Observation {
    /// label of the observable outcome (distinct outcomes are counted)
    pub key: String,
    /// Some((class, detail)) if this execution violates the property
    pub violation: Option<(String, Value)>,
}

pub trait Subject {
    fn describe(&self) -> Value;
    /// once per process: create input files under dir
    fn setup(&self, dir: &Path);
    /// before every execution: remove outputs of the previous one
    fn reset(&self, dir: &Path);
    fn future(&self, dir: &Path) -> BoxFut;
    /// after the future completed and the runtime was shut down
    fn observe(&self, dir: &Path, result: &Result<(), String>) -> Observation;
}

struct Flag(AtomicBool);
impl Wake for Flag {
    fn wake(self: Arc<Self>) {
        self.0.store(true, Ordering::SeqCst)
    }
}

#[derive(Debug, Clone)]
pub struct Exec {
    pub choices: Vec<usize>,
    pub enabled: Vec<usize>,
    pub labels: Vec<String>,
    pub result: Result<(), String>,
    pub deadlock: bool,
    pub horizon: bool,
}

pub const STEP_HORIZON: usize = 5000;

/// One execution: replay `prefix`, then always take choice 0 (poll if woken, else oldest task).
/// `reduce`: tasks released between two polls are taken in ascending id order only (R1).
pub fn run_once(subject: &dyn Subject, dir: &Path, prefix: &[usize], reduce: bool) -> Result<Exec, String> {
    subject.reset(dir);
    let rt = tokio::runtime::Builder::new_current_thread().enable_all().build().map_err(|e| e.to_string())?;
    let guard = rt.enter();
    gate::enable();
    let mut fut = subject.future(dir);
    let flag = Arc::new(Flag(AtomicBool::new(true)));
    let waker = Waker::from(flag.clone());
    let mut ex = Exec { choices: vec![], enabled: vec![], labels: vec![], result: Ok(()), deadlock: false, horizon: false };
    let mut last_run: Option<u64> = None;
    let mut err: Option<String> = None;
    loop {
        let woken = flag.0.load(Ordering::SeqCst);
        let pend = gate::pending();
        let mut en: Vec<Option<u64>> = vec![];
        if woken {
            en.push(None);
        }
        en.extend(pend.iter().filter(|&&i| !reduce || last_run.map_or(true, |l| i > l)).map(|&i| Some(i)));
        if en.is_empty() && !pend.is_empty() {
            // nothing woke the main future although tasks were run: R1 does not apply, offer all
            en.extend(pend.iter().map(|&i| Some(i)));
        }
        if en.is_empty() {
            ex.deadlock = true;
            break;
        }
        let step = ex.choices.len();
        if step >= STEP_HORIZON {
            ex.horizon = true;
            break;
        }
        let c = if step < prefix.len() { prefix[step] } else { 0 };
        if c >= en.len() {
            err = Some(format!("replay divergence at step {step}: choice {c} of {}", en.len()));
            break;
        }
        ex.choices.push(c);
        ex.enabled.push(en.len());
        match en[c] {
            None => {
                ex.labels.push("P".into());
                last_run = None;
                flag.0.store(false, Ordering::SeqCst);
                let mut cx = Context::from_waker(&waker);
                match catch(|| fut.as_mut().poll(&mut cx)) {
                    Err(p) => {
                        ex.result = Err(p);
                        break;
                    }
                    Ok(Poll::Ready(r)) => {
                        ex.result = r;
                        break;
                    }
                    Ok(Poll::Pending) => {}
                }
            }
            Some(id) => {
                ex.labels.push(format!("t{id}"));
                gate::run(id);
                last_run = Some(id);
            }
        }
    }
    // process exit: remaining tasks run (tokio performs mandatory blocking work at shutdown)
    gate::disable();
    drop(fut);
    drop(guard);
    drop(rt);
    match err {
        Some(e) => Err(e),
        None => Ok(ex),
    }
}

#[derive(Default)]
pub struct Stats {
    pub schedules: u64,
    pub steps: u64,
    pub nodes: u64,
    pub max_steps: usize,
    pub max_tasks: u64,
    pub outcomes: BTreeMap<String, (u64, String, Vec<usize>)>,
    pub violations: Agg,
    pub capped: bool,
}

pub fn deviations(choices: &[usize]) -> usize {
    choices.iter().filter(|&&c| c != 0).count()
}

/// Deviation-bounded DFS. `shard = (k, n)`: explore only subtrees whose first deviation hashes to k mod n
/// (the root execution is counted by shard 0). `cap`: maximum number of executions (0 = none).
pub fn explore(subject: &dyn Subject, dir: &Path, bound: usize, reduce: bool, shard: (usize, usize), cap: u64) -> Result<Stats, String> {
    let mut st = Stats::default();
    subject.setup(dir);
    let mut stack: Vec<Vec<usize>> = vec![vec![]];
    while let Some(prefix) = stack.pop() {
        let is_root = prefix.is_empty();
        let ex = match run_once(subject, dir, &prefix, reduce) {
            Ok(e) => e,
            Err(e) if e.starts_with("replay divergence") && !prefix.is_empty() => {
                // The same choices led to a different set of enabled actions than when this prefix was recorded:
                // the subject behaves differently under an identical schedule (nothing the scheduler decides).
                // Not a verdict for round-trip / format properties; recorded as one more distinct outcome, which
                // is what the determinism property compares. The subtree below this prefix is not explored.
                st.outcomes.entry("ok|behaviour-differs-under-identical-schedule-prefix".to_string()).or_insert((0, format!("{:?}: {e}", prefix), prefix.clone())).0 += 1;
                continue;
            }
            Err(e) => return Err(e),
        };
        let count_it = !is_root || shard.0 == 0;
        if count_it {
            st.schedules += 1;
            st.steps += ex.choices.len() as u64;
            st.nodes += (ex.choices.len() + 1 - prefix.len().min(ex.choices.len())) as u64;
            st.max_steps = st.max_steps.max(ex.choices.len());
            let ntasks = ex.labels.iter().filter(|l| l.starts_with('t')).count() as u64;
            st.max_tasks = st.max_tasks.max(ntasks);
            let sched = ex.labels.join(" ");
            if ex.deadlock || ex.horizon {
                let class = if ex.deadlock { "deadlock" } else { "step-horizon-exceeded" };
                st.violations.viol(class, || json!({"subject": subject.describe(), "choices": ex.choices, "schedule": sched}));
                st.outcomes.entry(class.to_string()).or_insert((0, sched.clone(), ex.choices.clone())).0 += 1;
            } else {
                let obs = subject.observe(dir, &ex.result);
                st.outcomes.entry(obs.key.clone()).or_insert((0, sched.clone(), ex.choices.clone())).0 += 1;
                if let Some((class, detail)) = obs.violation {
                    // replay before reporting: the same schedule must give the same observation. If it does not, the
                    // subject itself is non-deterministic under an identical schedule; the violation is reported only
                    // if one of three further replays shows the same class again (otherwise: machinery error).
                    let mut confirmed = false;
                    let mut varies = false;
                    let mut keys = vec![obs.key.clone()];
                    for attempt in 0..3 {
                        match run_once(subject, dir, &ex.choices, reduce) {
                            Ok(again) => {
                                let obs2 = subject.observe(dir, &again.result);
                                if obs2.key == obs.key && again.choices == ex.choices {
                                    confirmed = true;
                                    break;
                                }
                                varies = true;
                                keys.push(obs2.key.clone());
                                if obs2.violation.as_ref().map(|v| &v.0) == Some(&class) {
                                    confirmed = true;
                                    break;
                                }
                            }
                            Err(e) if e.starts_with("replay divergence") => {
                                varies = true;
                                keys.push(format!("divergence: {e}"));
                            }
                            Err(e) => return Err(e),
                        }
                        let _ = attempt;
                    }
                    if varies {
                        st.outcomes.entry("ok|outcome-differs-under-identical-schedule".to_string()).or_insert((0, sched.clone(), ex.choices.clone())).0 += 1;
                    }
                    if !confirmed {
                        return Err(format!("non-deterministic replay of schedule {:?}: {:?}", ex.choices, keys));
                    }
                    st.violations.viol(&class, || json!({"subject": subject.describe(), "choices": ex.choices, "schedule": sched, "deviations": deviations(&ex.choices), "detail": detail, "reduce": reduce, "outcome_varies_between_replays_of_this_schedule": varies, "outcomes_seen": keys}));
                }
            }
        }
        let dev_prefix = deviations(&prefix);
        for i in prefix.len()..ex.choices.len() {
            if dev_prefix + 1 > bound {
                break;
            }
            for alt in 1..ex.enabled[i] {
                let mut p = ex.choices[..i].to_vec();
                p.push(alt);
                if is_root && shard.1 > 1 {
                    let h = (i * 31 + alt * 7) % shard.1;
                    if h != shard.0 {
                        continue;
                    }
                }
                stack.push(p);
            }
        }
        if cap > 0 && st.schedules >= cap {
            st.capped = !stack.is_empty();
            break;
        }
    }
    Ok(st)
}

pub fn stats_json(st: &Stats) -> Value {
    json!({
        "schedules": st.schedules, "steps": st.steps, "nodes": st.nodes, "max_steps": st.max_steps, "max_tasks": st.max_tasks,
        "capped": st.capped,
        "outcomes": st.outcomes.iter().map(|(k, v)| json!({"key": k, "count": v.0, "example_schedule": v.1, "example_choices": v.2})).collect::<Vec<_>>(),
        "violations": st.violations.classes.iter().map(|(k, v)| json!({"class": k, "count": v.count, "examples": v.examples})).collect::<Vec<_>>(),
    })
}

pub fn scratch_dir(tag: &str) -> tempfile::TempDir {
    let base = if Path::new("/dev/shm").is_dir() { PathBuf::from("/dev/shm") } else { std::env::temp_dir() };
    tempfile::Builder::new().prefix(&format!("verif-{tag}-")).tempdir_in(base).expect("scratch dir")
}

/// Parent side: run `n` worker processes (`vh sched-worker`), each exploring one shard, and merge.
pub fn explore_parallel(subject_spec: &Value, bound: usize, reduce: bool, n: usize, cap_per_worker: u64) -> Result<Value, String> {
    let exe = std::env::current_exe().map_err(|e| e.to_string())?;
    let dir = scratch_dir("sched-parent");
    let mut children = vec![];
    for k in 0..n {
        let out = dir.path().join(format!("w{k}.json"));
        let child = std::process::Command::new(&exe)
            .arg("sched-worker")
            .arg(subject_spec.to_string())
            .arg(bound.to_string())
            .arg(if reduce { "1" } else { "0" })
            .arg(k.to_string())
            .arg(n.to_string())
            .arg(cap_per_worker.to_string())
            .arg(&out)
            .stdout(std::process::Stdio::null())
            .spawn()
            .map_err(|e| e.to_string())?;
        children.push((child, out));
    }
    let mut merged = json!({"schedules": 0u64, "steps": 0u64, "nodes": 0u64, "max_steps": 0u64, "max_tasks": 0u64, "capped": false, "outcomes": {}, "violations": {}});
    for (mut child, out) in children {
        let status = child.wait().map_err(|e| e.to_string())?;
        if !status.success() {
            return Err(format!("schedule worker failed: {status}"));
        }
        let v: Value = serde_json::from_slice(&std::fs::read(&out).map_err(|e| e.to_string())?).map_err(|e| e.to_string())?;
        for k in ["schedules", "steps", "nodes"] {
            merged[k] = json!(merged[k].as_u64().unwrap() + v[k].as_u64().unwrap());
        }
        for k in ["max_steps", "max_tasks"] {
            merged[k] = json!(merged[k].as_u64().unwrap().max(v[k].as_u64().unwrap()));
        }
        merged["capped"] = json!(merged["capped"].as_bool().unwrap() || v["capped"].as_bool().unwrap());
        for o in v["outcomes"].as_array().unwrap() {
            let key = o["key"].as_str().unwrap();
            let e = &mut merged["outcomes"][key];
            if e.is_null() {
                *e = json!({"count": 0u64, "example_schedule": o["example_schedule"], "example_choices": o["example_choices"]});
            }
            e["count"] = json!(e["count"].as_u64().unwrap() + o["count"].as_u64().unwrap());
        }
        for o in v["violations"].as_array().unwrap() {
            let key = o["class"].as_str().unwrap();
            let e = &mut merged["violations"][key];
            if e.is_null() {
                *e = json!({"count": 0u64, "examples": []});
            }
            e["count"] = json!(e["count"].as_u64().unwrap() + o["count"].as_u64().unwrap());
            let ex = e["examples"].as_array_mut().unwrap();
            for x in o["examples"].as_array().unwrap() {
                if ex.len() < MAX_EXAMPLES {
                    ex.push(x.clone());
                }
            }
        }
    }
    Ok(merged)
}

/// Merge an `explore_parallel` result into a report aggregator under a leg name.
pub fn merge_into(agg: &mut Agg, leg: &str, v: &Value) {
    agg.add("schedules", v["schedules"].as_u64().unwrap());
    agg.add("schedule_steps", v["steps"].as_u64().unwrap());
    agg.add("schedule_tree_nodes", v["nodes"].as_u64().unwrap());
    agg.max("max_schedule_steps", v["max_steps"].as_u64().unwrap());
    agg.max("max_blocking_tasks", v["max_tasks"].as_u64().unwrap());
    if v["capped"].as_bool().unwrap() {
        agg.add("capped_legs", 1);
        agg.notes.push(format!("leg {leg}: execution cap hit, bound not completed"));
    }
    for (k, _o) in v["outcomes"].as_object().unwrap() {
        agg.distinct("schedule_outcomes", fnv(format!("{leg}/{k}").as_bytes()));
    }
    for (k, o) in v["violations"].as_object().unwrap() {
        let e = agg.classes.entry(k.clone()).or_default();
        e.count += o["count"].as_u64().unwrap();
        for x in o["examples"].as_array().unwrap() {
            if e.examples.len() < MAX_EXAMPLES {
                e.examples.push(x.clone());
            }
        }
    }
}
