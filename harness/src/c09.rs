//! C09 — chunking is a pure, read-independent function following the rolling-hash rule.
//! Leg A (rule): exhaustive strings x configuration grid, real single-read chunking vs the
//!   reference chunker.
//! Leg B (read independence): explicit-state search over the reader's answers (Ready(k) for
//!   every k, Pending, EOF) on the real StreamingChunker, states merged on a fingerprint of
//!   the complete chunker state (hook H2).
use crate::refchunk::*;
use crate::rep::*;
use bitar::chunker::{Chunker, FixedSizeChunker, RollingHashChunker, StreamingChunker};
use bitar::{BuzHash, RollSum};
use futures_util::StreamExt;
use serde_json::json;
use std::collections::{HashSet, VecDeque};
use std::hash::Hash;
use std::pin::Pin;
use std::sync::atomic::{AtomicBool, AtomicUsize, Ordering};
use std::sync::Arc;
use std::task::{Context, Poll};
use tokio::io::{AsyncRead, ReadBuf};

pub const CLASS_F5: &str = "buzhash-initial-repeat-quirk";
/// cap on the explicit-state search per input (a correct chunker needs about |input| + 2 states)
pub const MAX_STATES_PER_INPUT: u64 = 20_000;

pub fn grid(ws: &[usize], maxes: &[usize], bitss: &[u32]) -> Vec<Cfg> {
    let mut v = vec![];
    for algo in [Algo::Roll, Algo::Buz] {
        for &w in ws {
            let mut mins = vec![0usize, w.saturating_sub(1), w, w + 1, 2 * w + 2];
            mins.sort();
            mins.dedup();
            for &min in &mins {
                let mut mx: Vec<usize> = maxes.iter().copied().chain([w]).collect();
                mx.sort();
                mx.dedup();
                for &max in &mx {
                    for &bits in bitss {
                        let c = Cfg::new(algo, w, min, max, bits);
                        if c.valid() {
                            v.push(c);
                        }
                    }
                }
            }
        }
    }
    for n in [1usize, 2, 3, 5] {
        v.push(Cfg::fixed(n));
    }
    v
}

/// Compare one (cfg, data) case; returns true if the real chunking equals the reference.
pub fn check_rule(c: &Cfg, bc: &bitar::chunker::Config, data: &[u8], agg: &mut Agg) -> Option<Vec<usize>> {
    let real = match real_chunks(bc, data) {
        Ok(r) => r,
        Err(e) => {
            agg.viol("chunker-stream-failure", || json!({"cfg": c.json(), "data": hex(data), "error": e}));
            return None;
        }
    };
    let cuts: Vec<usize> = real.iter().map(|(o, b)| *o as usize + b.len()).collect();
    if !tiling_ok(&real, data) {
        agg.viol("tiling", || json!({"cfg": c.json(), "data": hex(data), "real_cuts": cuts}));
        return Some(cuts);
    }
    // min/max except last
    let mut prev = 0usize;
    for (i, &e) in cuts.iter().enumerate() {
        let l = e - prev;
        let last = i + 1 == cuts.len();
        let bad = match c.algo {
            Algo::Fixed => (!last && l != c.max) || l > c.max,
            _ => l > c.max || (!last && l < c.min.max(1)),
        };
        if bad {
            agg.viol("size-bounds", || json!({"cfg": c.json(), "data": hex(data), "real_cuts": cuts}));
            break;
        }
        prev = e;
    }
    let reference = ref_cuts(c, data);
    if cuts != reference {
        let mut class = "rule-mismatch";
        if c.algo == Algo::Buz {
            let (q, bad) = quirk_cuts(c, data);
            if q == cuts && bad {
                class = CLASS_F5;
            }
        }
        agg.viol(class, || json!({"cfg": c.json(), "data": hex(data), "real_cuts": cuts, "ref_cuts": reference}));
    }
    agg.distinct("cutlists", fnv(&cuts.iter().flat_map(|x| (*x as u32).to_le_bytes()).collect::<Vec<u8>>()));
    if cuts.len() > 1 {
        agg.add("multi_chunk_cases", 1);
    }
    Some(cuts)
}

// ---------------------------------------------------------------- leg B: scripted reader

#[derive(Clone, Copy, Debug, PartialEq, Eq, Hash)]
pub enum Ans {
    Ready(usize),
    Pending,
    Eof,
    /// the read fails with ErrorKind::Interrupted (a transient condition by std::io's convention): the
    /// stream yields the error and the consumer polls on
    Interrupted,
}

struct Shared {
    stalled: AtomicBool,
    consumed: AtomicUsize,
    eof: AtomicBool,
}

struct ScriptReader<'a> {
    data: &'a [u8],
    script: &'a [Ans],
    pos: usize,
    sh: Arc<Shared>,
}

impl AsyncRead for ScriptReader<'_> {
    fn poll_read(mut self: Pin<&mut Self>, cx: &mut Context<'_>, buf: &mut ReadBuf<'_>) -> Poll<std::io::Result<()>> {
        if self.sh.eof.load(Ordering::SeqCst) {
            return Poll::Ready(Ok(())); // EOF is sticky
        }
        if self.pos >= self.script.len() {
            self.sh.stalled.store(true, Ordering::SeqCst);
            return Poll::Pending;
        }
        let a = self.script[self.pos];
        self.pos += 1;
        match a {
            Ans::Pending => {
                cx.waker().wake_by_ref();
                Poll::Pending
            }
            Ans::Eof => {
                self.sh.eof.store(true, Ordering::SeqCst);
                Poll::Ready(Ok(()))
            }
            Ans::Interrupted => Poll::Ready(Err(std::io::Error::new(std::io::ErrorKind::Interrupted, "interrupted"))),
            Ans::Ready(k) => {
                let c = self.sh.consumed.load(Ordering::SeqCst);
                let k = k.min(buf.remaining()).min(self.data.len() - c);
                buf.put_slice(&self.data[c..c + k]);
                self.sh.consumed.store(c + k, Ordering::SeqCst);
                Poll::Ready(Ok(()))
            }
        }
    }
}

#[derive(Clone, Debug, PartialEq, Eq, Hash)]
pub struct RState {
    pub consumed: usize,
    pub fp: u64,
    pub emitted: usize,
    pub eof: bool,
    pub finished: bool,
}

pub struct RunOut {
    pub state: RState,
    pub chunks: Vec<(u64, Vec<u8>)>,
    pub error: Option<String>,
}

/// Drive a fresh real StreamingChunker with the scripted answers until it asks for the next one.
pub fn run_script<C>(mk: &dyn Fn() -> C, data: &[u8], script: &[Ans]) -> RunOut
where
    C: Chunker + Hash + Unpin + Send,
{
    match catch(|| run_script_inner(mk, data, script)) {
        Ok(r) => r,
        Err(e) => RunOut { state: RState { consumed: 0, fp: 0, emitted: 0, eof: false, finished: true }, chunks: vec![], error: Some(e) },
    }
}

fn run_script_inner<C>(mk: &dyn Fn() -> C, data: &[u8], script: &[Ans]) -> RunOut
where
    C: Chunker + Hash + Unpin + Send,
{
    let sh = Arc::new(Shared { stalled: AtomicBool::new(false), consumed: AtomicUsize::new(0), eof: AtomicBool::new(false) });
    let reader = ScriptReader { data, script, pos: 0, sh: sh.clone() };
    let mut st = StreamingChunker::new(mk(), reader);
    let waker = futures_util::task::noop_waker();
    let mut cx = Context::from_waker(&waker);
    let mut chunks = vec![];
    let mut finished = false;
    let mut error = None;
    let horizon = script.len() + data.len() + 8;
    let mut polls = 0usize;
    loop {
        polls += 1;
        if polls > 4 * horizon {
            error = Some("horizon exceeded while driving chunker".to_string());
            break;
        }
        match st.poll_next_unpin(&mut cx) {
            Poll::Ready(Some(Ok((o, c)))) => chunks.push((o, c.data().to_vec())),
            Poll::Ready(Some(Err(e))) if e.kind() == std::io::ErrorKind::Interrupted => {
                // transient: reported to the consumer, who simply polls again
            }
            Poll::Ready(Some(Err(e))) => {
                error = Some(format!("chunker error {e}"));
                break;
            }
            Poll::Ready(None) => {
                finished = true;
                break;
            }
            Poll::Pending => {
                if sh.stalled.load(Ordering::SeqCst) {
                    break;
                }
            }
        }
    }
    let mut h = std::collections::hash_map::DefaultHasher::new();
    st.verif_state_hash(&mut h);
    let fp = std::hash::Hasher::finish(&h);
    RunOut {
        state: RState {
            consumed: sh.consumed.load(Ordering::SeqCst),
            fp,
            emitted: chunks.len(),
            eof: sh.eof.load(Ordering::SeqCst),
            finished,
        },
        chunks,
        error,
    }
}

fn is_prefix(a: &[(u64, Vec<u8>)], b: &[(u64, Vec<u8>)]) -> bool {
    a.len() <= b.len() && a.iter().zip(b.iter()).all(|(x, y)| x == y)
}

/// Explicit-state BFS over reader answers. `sizes(remaining)` lists the Ready sizes offered.
pub fn explore_reads<C>(
    c: &Cfg,
    mk: &dyn Fn() -> C,
    data: &[u8],
    expect: &[(u64, Vec<u8>)],
    sizes: &dyn Fn(usize) -> Vec<usize>,
    agg: &mut Agg,
) where
    C: Chunker + Hash + Unpin + Send,
{
    let mut seen: HashSet<RState> = HashSet::new();
    let mut q: VecDeque<Vec<Ans>> = VecDeque::new();
    let init = run_script(mk, data, &[]);
    seen.insert(init.state.clone());
    q.push_back(vec![]);
    let mut states = 1u64;
    let mut transitions = 0u64;
    let mut maxdepth = 0usize;
    let mut terminals = 0u64;
    let mut violated = false;
    while let Some(hist) = q.pop_front() {
        // one counter-example per input is enough, and a chunker whose state has become
        // path-dependent makes the state space explode: stop at the first violation / at the cap
        if violated {
            break;
        }
        // a correct chunker needs about |input| + 2 states (one per number of consumed bytes); allow
        // 8x that for small inputs, and a flat 2000 for MiB-sized ones (each replay costs milliseconds)
        let cap = if data.len() <= 4096 { (8 * (data.len() as u64 + 2) + 64).min(MAX_STATES_PER_INPUT) } else { 2000 };
        if states > cap {
            agg.add("bfs_capped_inputs", 1);
            break;
        }
        // recompute the state of hist (cheap) to know what is enabled
        let cur = run_script(mk, data, &hist);
        if cur.state.finished {
            continue;
        }
        let remaining = data.len() - cur.state.consumed;
        let mut answers = vec![Ans::Pending];
        if remaining > 0 || !cur.state.eof {
            answers.push(Ans::Interrupted);
        }
        if remaining > 0 {
            for k in sizes(remaining) {
                answers.push(Ans::Ready(k));
            }
        } else if !cur.state.eof {
            answers.push(Ans::Eof);
        } else {
            // EOF already answered and stream not finished: the driver would have continued; nothing enabled
            answers.clear();
        }
        for a in answers {
            let mut h2 = hist.clone();
            h2.push(a);
            let out = run_script(mk, data, &h2);
            transitions += 1;
            if let Some(e) = &out.error {
                agg.viol("read-dependent-failure", || json!({"cfg": c.json(), "data": hex(&data[..data.len().min(4096)]), "data_len": data.len(), "script": format!("{:?}", h2), "error": e}));
                violated = true;
                continue;
            }
            let ok = if out.state.finished { out.chunks[..] == expect[..] } else { is_prefix(&out.chunks, expect) };
            if !ok {
                violated = true;
                agg.viol("read-dependent-chunking", || {
                    json!({"cfg": c.json(), "data": hex(&data[..data.len().min(4096)]), "data_len": data.len(), "script": format!("{:?}", h2),
                        "got": out.chunks.iter().map(|(o, b)| (*o, b.len())).collect::<Vec<_>>(),
                        "single_read": expect.iter().map(|(o, b)| (*o, b.len())).collect::<Vec<_>>()})
                });
                continue;
            }
            if out.state.finished {
                terminals += 1;
            }
            if seen.insert(out.state.clone()) {
                states += 1;
                maxdepth = maxdepth.max(h2.len());
                q.push_back(h2);
            }
        }
    }
    agg.add("states", states);
    agg.add("transitions", transitions);
    agg.add("terminal_transitions", terminals);
    agg.max("max_depth", maxdepth as u64);
    agg.max("max_states_per_input", states);
    agg.add("bfs_inputs", 1);
}

pub fn explore_cfg(c: &Cfg, data: &[u8], sizes: &dyn Fn(usize) -> Vec<usize>, agg: &mut Agg) {
    let bc = c.to_bitar();
    let expect = match real_chunks(&bc, data) {
        Ok(e) => e,
        Err(_) => return, // reported by leg A
    };
    let fc = bitar::chunker::FilterConfig {
        filter_bits: bitar::chunker::FilterBits::from_bits(c.bits),
        min_chunk_size: c.min,
        max_chunk_size: c.max,
        window_size: c.w,
    };
    match c.algo {
        Algo::Fixed => explore_reads(c, &|| FixedSizeChunker::new(c.max), data, &expect, sizes, agg),
        Algo::Roll => explore_reads(c, &|| RollingHashChunker::new(RollSum::new(c.w), &fc), data, &expect, sizes, agg),
        Algo::Buz => explore_reads(c, &|| RollingHashChunker::new(BuzHash::new(c.w), &fc), data, &expect, sizes, agg),
    }
}

/// Cut list of the real chunker under an explicit answer script.
pub fn cuts_with_script(c: &Cfg, data: &[u8], script: &[Ans]) -> Result<Vec<usize>, String> {
    let fc = bitar::chunker::FilterConfig {
        filter_bits: bitar::chunker::FilterBits::from_bits(c.bits),
        min_chunk_size: c.min,
        max_chunk_size: c.max,
        window_size: c.w,
    };
    let out = match c.algo {
        Algo::Fixed => run_script(&|| FixedSizeChunker::new(c.max), data, script),
        Algo::Roll => run_script(&|| RollingHashChunker::new(RollSum::new(c.w), &fc), data, script),
        Algo::Buz => run_script(&|| RollingHashChunker::new(BuzHash::new(c.w), &fc), data, script),
    };
    if let Some(e) = out.error {
        return Err(e);
    }
    if !out.state.finished {
        return Err("stream did not finish".into());
    }
    Ok(out.chunks.iter().map(|(o, b)| *o as usize + b.len()).collect())
}

/// Cut list of the real chunker with the input delivered `read_size` bytes per read (Pending before every 3rd read,
/// a transient Interrupted error before every 5th).
pub fn cuts_with_reads(c: &Cfg, data: &[u8], read_size: usize) -> Result<Vec<usize>, String> {
    let mut script = vec![];
    let mut left = data.len();
    let mut i = 0;
    while left > 0 {
        if i % 3 == 2 {
            script.push(Ans::Pending);
        }
        if i % 5 == 4 {
            script.push(Ans::Interrupted);
        }
        let k = read_size.min(left);
        script.push(Ans::Ready(k));
        left -= k;
        i += 1;
    }
    script.push(Ans::Eof);
    let fc = bitar::chunker::FilterConfig {
        filter_bits: bitar::chunker::FilterBits::from_bits(c.bits),
        min_chunk_size: c.min,
        max_chunk_size: c.max,
        window_size: c.w,
    };
    let out = match c.algo {
        Algo::Fixed => run_script(&|| FixedSizeChunker::new(c.max), data, &script),
        Algo::Roll => run_script(&|| RollingHashChunker::new(RollSum::new(c.w), &fc), data, &script),
        Algo::Buz => run_script(&|| RollingHashChunker::new(BuzHash::new(c.w), &fc), data, &script),
    };
    if let Some(e) = out.error {
        return Err(e);
    }
    if !out.state.finished {
        return Err("stream did not finish".into());
    }
    Ok(out.chunks.iter().map(|(o, b)| *o as usize + b.len()).collect())
}

fn boundary_family(c: &Cfg) -> Vec<Vec<u8>> {
    // lengths around window / min / max; contents constant-0, constant-x, period-2, period-w, counter
    let mut lens = vec![0usize, 1, c.w.saturating_sub(1), c.w, c.w + 1, c.min.saturating_sub(1), c.min, c.min + 1, c.max.saturating_sub(1), c.max, c.max + 1, 2 * c.max + 1];
    lens.sort();
    lens.dedup();
    let mut v = vec![];
    for &n in &lens {
        if n > 40 {
            continue;
        }
        v.push(vec![0u8; n]);
        v.push(vec![b'x'; n]);
        v.push((0..n).map(|i| if i % 2 == 0 { b'a' } else { b'b' }).collect());
        v.push((0..n).map(|i| (i % c.w.max(1)) as u8).collect());
        v.push((0..n).map(|i| (i * 37 + 11) as u8).collect());
        v.push((0..n).map(|i| if i < n / 2 { 7 } else { 0 }).collect());
    }
    v.sort();
    v.dedup();
    v
}


// ------------------------------------------------------------------ two chunkers alive at once

/// A reader handing out `step` bytes per read, always ready.
struct StepReader<'a> {
    data: &'a [u8],
    pos: usize,
    step: usize,
}
impl AsyncRead for StepReader<'_> {
    fn poll_read(mut self: Pin<&mut Self>, _cx: &mut Context<'_>, buf: &mut ReadBuf<'_>) -> Poll<std::io::Result<()>> {
        let n = self.step.min(self.data.len() - self.pos).min(buf.remaining());
        let (a, b) = (self.pos, self.pos + n);
        buf.put_slice(&self.data[a..b]);
        self.pos = b;
        Poll::Ready(Ok(()))
    }
}

/// "Depends on the bytes alone": not on another chunker that is alive at the same time either. Two public chunker
/// streams over inputs X and Y are advanced in turns (patterns AB, AAB, ABB; 1 or 3 bytes per read) and each must
/// yield what it yields alone. Anything the instances share (a static table that is written to, a scratch buffer
/// moved to module scope, a thread-local cache) shows here and nowhere else.
fn interleaved_leg(rep: &mut Report, cfgs: &[Cfg]) {
    use futures_util::StreamExt;
    let thorough = rep.thorough();
    // (a chunker stream allocates its refill buffer up front: about half a millisecond per pair of streams)
    let n = 6;
    let alpha: Vec<u8> = vec![0x00, b'a'];
    let inputs: Vec<Vec<u8>> = (0..count_strings(&alpha, n)).map(|i| nth_string(&alpha, n, i)).chain([vec![], vec![b'a'], (0..40u8).collect(), vec![0u8; 33], vec![0xffu8; 29]]).collect();
    let sel: Vec<&Cfg> = cfgs.iter().enumerate().filter(|(i, _)| thorough || i % 6 == 0).map(|(_, c)| c).collect();
    let (inputs_ref, sel_ref) = (&inputs, &sel);
    let a = par_shards(sel.len(), threads(), |ci| {
        let c = sel_ref[ci];
        let bc = c.to_bitar();
        let mut agg = Agg::default();
        let solo: Vec<Option<Vec<(u64, Vec<u8>)>>> = inputs_ref.iter().map(|d| real_chunks(&bc, d).ok()).collect();
        for (xi, x) in inputs_ref.iter().enumerate() {
            for (yi, y) in inputs_ref.iter().enumerate() {
                if (xi + yi) % 3 != 0 && !thorough {
                    continue;
                }
                let (sx, sy) = match (&solo[xi], &solo[yi]) {
                    (Some(a), Some(b)) => (a, b),
                    _ => continue,
                };
                for (pi, pattern) in [[0usize, 1, 9], [0, 0, 1], [0, 1, 1]].iter().enumerate() {
                    let step = if (xi + pi) % 2 == 0 { 1 } else { 3 };
                    let mut sa = bc.new_chunker(StepReader { data: x, pos: 0, step });
                    let mut sb = bc.new_chunker(StepReader { data: y, pos: 0, step: 4 - step });
                    let (mut ga, mut gb): (Vec<(u64, Vec<u8>)>, Vec<(u64, Vec<u8>)>) = (vec![], vec![]);
                    let (mut da, mut db) = (false, false);
                    let mut err = None;
                    let mut turn = 0usize;
                    while !(da && db) && err.is_none() && turn < 10_000 {
                        let who = pattern[turn % 3];
                        turn += 1;
                        if who == 0 && !da {
                            match crate::clonelab::drive_ready(sa.next()) {
                                Ok(Some(Ok((o, ch)))) => ga.push((o, ch.data().to_vec())),
                                Ok(Some(Err(e))) => err = Some(e.to_string()),
                                Ok(None) => da = true,
                                Err(e) => err = Some(e),
                            }
                        } else if who == 1 && !db {
                            match crate::clonelab::drive_ready(sb.next()) {
                                Ok(Some(Ok((o, ch)))) => gb.push((o, ch.data().to_vec())),
                                Ok(Some(Err(e))) => err = Some(e.to_string()),
                                Ok(None) => db = true,
                                Err(e) => err = Some(e),
                            }
                        } else if da {
                            // the other one is finished: keep going with the one that is not
                            match crate::clonelab::drive_ready(sb.next()) {
                                Ok(Some(Ok((o, ch)))) => gb.push((o, ch.data().to_vec())),
                                Ok(Some(Err(e))) => err = Some(e.to_string()),
                                Ok(None) => db = true,
                                Err(e) => err = Some(e),
                            }
                        } else if db {
                            match crate::clonelab::drive_ready(sa.next()) {
                                Ok(Some(Ok((o, ch)))) => ga.push((o, ch.data().to_vec())),
                                Ok(Some(Err(e))) => err = Some(e.to_string()),
                                Ok(None) => da = true,
                                Err(e) => err = Some(e),
                            }
                        }
                    }
                    agg.add("interleaved_pairs", 1);
                    if err.is_some() || &ga != sx || &gb != sy {
                        agg.viol("chunking-depends-on-another-live-chunker", || json!({"leg": "interleaved", "cfg": c.json(), "x": hex(x), "y": hex(y), "turns": pattern, "error": err,
                            "x_cuts": ga.iter().map(|(o, b)| *o as usize + b.len()).collect::<Vec<_>>(), "x_alone": sx.iter().map(|(o, b)| *o as usize + b.len()).collect::<Vec<_>>(),
                            "y_cuts": gb.iter().map(|(o, b)| *o as usize + b.len()).collect::<Vec<_>>(), "y_alone": sy.iter().map(|(o, b)| *o as usize + b.len()).collect::<Vec<_>>()}));
                    }
                }
            }
        }
        agg
    });
    rep.agg.merge(a);
}

pub fn run(rep: &mut Report) {
    let thorough = rep.thorough();
    let (alpha, nmax): (Vec<u8>, usize) = if thorough { (vec![0x00, b'a', b'b', 0xff], 11) } else { (vec![0x00, 0x01, 0xff], 9) };
    let cfgs = if thorough { grid(&[1, 2, 3, 4], &[8, 12], &[1, 2, 3]) } else { grid(&[1, 2, 3, 4], &[8, 12], &[1, 2]) };
    rep.set("rule_alphabet", json!(alpha));
    rep.set("rule_max_len", json!(nmax));
    rep.set("configurations", json!(cfgs.len()));
    let threads = threads();

    // ---- leg A: rule
    let cfgs_ref = &cfgs;
    let alpha_ref = &alpha;
    let a = par_shards(cfgs.len(), threads, |ci| {
        let c = &cfgs_ref[ci];
        let bc = c.to_bitar();
        let mut agg = Agg::default();
        for n in 0..=nmax {
            let cnt = count_strings(alpha_ref, n);
            for idx in 0..cnt {
                let data = nth_string(alpha_ref, n, idx);
                agg.add("rule_cases", 1);
                check_rule(c, &bc, &data, &mut agg);
                if ci == 3 && n == 7 && idx % 997 == 0 {
                    agg.sample(|| json!({"leg": "rule", "cfg": c.label(), "data": hex(&data), "cuts": ref_cuts(c, &data)}));
                }
            }
        }
        for data in boundary_family(c) {
            agg.add("rule_cases", 1);
            agg.add("rule_boundary_family_cases", 1);
            check_rule(c, &bc, &data, &mut agg);
        }
        agg
    });
    rep.agg.merge(a);
    interleaved_leg(rep, &cfgs);

    // ---- leg A2: structured long inputs at default parameters (1 MiB refill buffer crossings)
    {
        let mut agg = Agg::default();
        let mut inputs: Vec<(String, Vec<u8>)> = vec![];
        let mut x: u32 = 12345;
        let mut rnd = move || {
            x ^= x << 13;
            x ^= x >> 17;
            x ^= x << 5;
            (x >> 8) as u8
        };
        let n_big = if thorough { 6 * 1024 * 1024 + 5 } else { 4 * 1024 * 1024 + 4097 };
        inputs.push(("pseudo-random".into(), (0..n_big).map(|_| rnd()).collect()));
        inputs.push(("zero-runs".into(), (0..n_big).map(|i| if (i / 5000) % 2 == 0 { 0 } else { rnd() }).collect()));
        if thorough {
            inputs.push(("period-64".into(), (0..n_big).map(|i| (i % 64) as u8).collect()));
        }
        let mut big_cfgs = vec![
            Cfg::new(Algo::Roll, 64, 16 * 1024, 16 * 1024 * 1024, 15),
            Cfg::new(Algo::Buz, 16, 16 * 1024, 16 * 1024 * 1024, 15),
            Cfg::new(Algo::Roll, 64, 1024 * 1024 + 512 * 1024, 2 * 1024 * 1024, 20),
            Cfg::fixed(1024 * 1024 + 1),
        ];
        // several chunks beyond the 1 MiB refill size in one stream (cut at max, 24 filter bits)
        big_cfgs.push(Cfg::new(Algo::Roll, 64, 1024 * 1024 + 256 * 1024, 1024 * 1024 + 512 * 1024, 24));
        big_cfgs.push(Cfg::new(Algo::Buz, 16, 1024 * 1024 + 1, 1024 * 1024 + 300 * 1024, 24));
        // windows >= 21 with more than 16 filter bits: the high half of the digest takes part in the boundary test
        big_cfgs.push(Cfg::new(Algo::Roll, 64, 1024, 1024 * 1024, 18));
        big_cfgs.push(Cfg::new(Algo::Roll, 32, 64, 600 * 1024, 17));
        big_cfgs.push(Cfg::new(Algo::Buz, 48, 2048, 1024 * 1024, 17));
        big_cfgs.push(Cfg::new(Algo::Roll, 21, 0, 300 * 1024, 17));
        if thorough {
            big_cfgs.push(Cfg::new(Algo::Buz, 256, 0, 1024 * 1024 + 7, 24));
            big_cfgs.push(Cfg::new(Algo::Roll, 256, 300, 70000, 12));
            big_cfgs.push(Cfg::new(Algo::Roll, 128, 4096, 2 * 1024 * 1024, 20));
            big_cfgs.push(Cfg::new(Algo::Roll, 255, 16, 100_000, 19));
        }
        let mut jobs: Vec<(usize, usize)> = (0..inputs.len()).flat_map(|i| (0..big_cfgs.len()).map(move |j| (i, j))).collect();
        // chunks of several MiB (the read buffer grows beyond one refill and a backlog of unscanned
        // bytes can build up): one 11 MiB input for three configurations
        let huge_idx = inputs.len();
        inputs.push(("pseudo-random-11MiB".into(), (0..11 * 1024 * 1024 + 333).map(|_| rnd()).collect()));
        for c in [Cfg::new(Algo::Roll, 64, 4096, 5 * 1024 * 1024, 21), Cfg::new(Algo::Buz, 16, 1, 4 * 1024 * 1024, 22), Cfg::fixed(3 * 1024 * 1024 + 1)] {
            big_cfgs.push(c);
            jobs.push((huge_idx, big_cfgs.len() - 1));
        }
        let (inputs_ref, big_ref, jobs_ref) = (&inputs, &big_cfgs, &jobs);
        let b = par_shards(jobs.len(), threads, |k| {
            let (i, j) = jobs_ref[k];
            let mut agg = Agg::default();
            let c = &big_ref[j];
            agg.add("rule_cases", 1);
            agg.add("rule_large_cases", 1);
            check_rule(c, &c.to_bitar(), &inputs_ref[i].1, &mut agg);
            agg
        });
        agg.merge(b);
        rep.agg.merge(agg);
    }

    // ---- leg A3: every window size 5..=64 (and 128, 255, 256, 1024, 4200, 6000, 16384) on 24 kB inputs, low and high filter bits
    {
        let mut ws: Vec<usize> = (5..=64).collect();
        ws.extend([128, 255, 256]);
        // windows large enough for the 32-bit sums of RollSum to wrap around (w^2 * 128 > 2^32 from w ~ 5800; with 0xff runs from ~ 4100)
        ws.extend([1024, 4200, 6000, 16384]);
        let mut x: u32 = 4242;
        let mut rnd = move || {
            x ^= x << 13;
            x ^= x >> 17;
            x ^= x << 5;
            (x >> 8) as u8
        };
        let n = 24_000;
        let inputs: Vec<Vec<u8>> = vec![
            (0..n).map(|_| rnd()).collect(),
            (0..n).map(|i| if (i / 700) % 3 == 0 { 0xff } else { rnd() }).collect(),
            (0..n).map(|i| if i < 9000 { 0xff } else if (i / 1500) % 4 == 0 { 0 } else { rnd() }).collect(),
        ];
        let (ws_ref, inputs_ref) = (&ws, &inputs);
        let c = par_shards(ws.len(), threads, |wi| {
            let w = ws_ref[wi];
            let mut agg = Agg::default();
            for algo in [Algo::Roll, Algo::Buz] {
                for (min, max, bits) in [(0usize, 4096usize, 6u32), (w / 2, 3000, 9), (w + 1, 20_000, 12), (2 * w, 24_000, 16), (0, 24_000, 17)] {
                    let cfg = Cfg::new(algo, w, min, max.max(w), bits);
                    if !cfg.valid() {
                        continue;
                    }
                    for inp in inputs_ref {
                        agg.add("rule_cases", 1);
                        agg.add("rule_window_sweep_cases", 1);
                        check_rule(&cfg, &cfg.to_bitar(), inp, &mut agg);
                    }
                }
            }
            agg
        });
        rep.agg.merge(c);
    }

    // ---- leg B: read independence, explicit-state
    let bfs_nmax = if thorough { 9 } else { 6 };
    let balpha: Vec<u8> = vec![0x00, 0x01, 0xff];
    let bcfgs: Vec<Cfg> = if thorough { cfgs.clone() } else { cfgs.iter().filter(|c| c.bits == 1 || c.algo == Algo::Fixed).cloned().collect() };
    let bcfgs_ref = &bcfgs;
    let balpha_ref = &balpha;
    let b = par_shards(bcfgs.len(), threads, |ci| {
        let c = &bcfgs_ref[ci];
        let mut agg = Agg::default();
        let all = |rem: usize| (1..=rem).collect::<Vec<usize>>();
        for n in 0..=bfs_nmax {
            let cnt = count_strings(balpha_ref, n);
            for idx in 0..cnt {
                let data = nth_string(balpha_ref, n, idx);
                explore_cfg(c, &data, &all, &mut agg);
            }
        }
        for data in boundary_family(c) {
            explore_cfg(c, &data, &all, &mut agg);
            if ci % 17 == 0 && data.len() == c.max + 1 {
                agg.sample(|| json!({"leg": "read-independence", "cfg": c.label(), "data": hex(&data), "answers": "Pending | Ready(k) for k in 1..=remaining | Eof"}));
            }
        }
        agg
    });
    rep.agg.merge(b);

    // ---- leg B2: the same question without state merging (does not rely on hook H2's fingerprint
    // covering fields a change may add): every composition of n into read sizes, directly
    {
        let n2 = if thorough { 8 } else { 6 };
        let b2 = par_shards(bcfgs.len(), threads, |ci| {
            let c = &bcfgs_ref[ci];
            let mut agg = Agg::default();
            let bc = c.to_bitar();
            for n in 1..=n2 {
                for idx in 0..count_strings(balpha_ref, n) {
                    let data = nth_string(balpha_ref, n, idx);
                    let expect = match real_cuts(&bc, &data) {
                        Ok(e) => e,
                        Err(_) => continue,
                    };
                    // compositions of n <-> subsets of the n-1 inner positions
                    for m in 0u32..(1 << (n - 1)) {
                        let mut script = vec![];
                        let mut run = 1usize;
                        for pos in 0..n - 1 {
                            if m >> pos & 1 == 1 {
                                script.push(Ans::Ready(run));
                                if (m + pos as u32) % 3 == 0 {
                                    script.push(Ans::Pending);
                                }
                                run = 1;
                            } else {
                                run += 1;
                            }
                        }
                        script.push(Ans::Ready(run));
                        script.push(Ans::Eof);
                        agg.add("unmerged_fragmentations", 1);
                        let got = cuts_with_script(c, &data, &script);
                        if got.as_ref().ok() != Some(&expect) {
                            agg.viol("read-dependent-chunking", || json!({"cfg": c.json(), "data": hex(&data), "script": format!("{:?}", script), "got": format!("{:?}", got), "single_read": expect, "leg": "unmerged"}));
                            break;
                        }
                    }
                }
            }
            agg
        });
        rep.agg.merge(b2);
    }

    // large input (crossing the 1 MiB refill buffer) under selected read sizes
    {
        let n = 3 * 1024 * 1024 + 700 * 1024 + 300;
        let data: Vec<u8> = (0..n).map(|i| ((i * 7 + i / 1000) % 251) as u8).collect();
        let big = [
            Cfg::new(Algo::Roll, 64, 1024 * 1024 - 100, 1024 * 1024 + 200, 20),
            Cfg::fixed(1024 * 1024 - 1),
            Cfg::new(Algo::Buz, 16, 600 * 1024, 1024 * 1024 + 100, 20),
            Cfg::new(Algo::Roll, 64, 1024 * 1024 + 256 * 1024, 1024 * 1024 + 512 * 1024, 24),
            Cfg::new(Algo::Buz, 32, 1024, 2 * 1024 * 1024 + 5, 24),
        ];
        let (data_ref, big_ref) = (&data, &big);
        let b = par_shards(big.len(), threads, |i| {
            let sizes = move |rem: usize| {
                let mut v = vec![rem, (2 * 1024 * 1024usize + 1).min(rem), (1024 * 1024usize).min(rem), (1024 * 1024usize - 1).min(rem), (400 * 1024usize).min(rem)];
                if thorough {
                    v.push((100 * 1024usize + 1).min(rem));
                }
                v.sort();
                v.dedup();
                v
            };
            let mut agg = Agg::default();
            explore_cfg(&big_ref[i], data_ref, &sizes, &mut agg);
            agg.add("bfs_large_inputs", 1);
            agg
        });
        rep.agg.merge(b);
    }

    let states = rep.agg.get("states");
    let transitions = rep.agg.get("transitions");
    rep.set("states", json!(states));
    rep.set("transitions", json!(transitions));
    rep.set("traces_validated_against_impl", json!(transitions));
    rep.set("exhaustive", json!(rep.agg.get("bfs_capped_inputs") == 0));
    rep.set("evaluations", json!(rep.agg.get("rule_cases") + transitions + rep.agg.get("unmerged_fragmentations")));
    rep.set("distinct_nontrivial", json!(rep.agg.distinct_count("cutlists")));
    rep.set(
        "rule",
        json!("leg A: every string over the alphabet up to rule_max_len plus a boundary family and MiB-sized structured inputs, for every configuration of the grid, real single-read chunking == reference chunker; leg B: explicit-state BFS over reader answers on the real StreamingChunker (state = consumed bytes, fingerprint of complete chunker state, chunks emitted, eof flags), every transition is an execution of the real code; leg B2: every composition of n into read sizes (all 2^(n-1) fragmentations, Pending sprinkled in) for every string up to length 6/8, compared directly without state merging; distinct_nontrivial = number of distinct cut lists observed"),
    );
    rep.assume("state fingerprint (hook H2) covers every field of StreamingChunker except the reader; equal fingerprint + equal consumed count => equal futures");
    rep.assume("data values outside the alphabets and lengths above the bounds are not covered; large inputs are single structured inputs");
}

pub fn replay(v: &serde_json::Value) -> bool {
    // re-run one case without the explorer; returns true if it still violates
    let c = Cfg::from_json(&v["cfg"]);
    let data = unhex(v["data"].as_str().unwrap());
    if v["data_len"].as_u64().map(|n| n as usize > data.len()).unwrap_or(false) {
        println!("replay: the input of this case ({} bytes) is a generated structured input that is not embedded in the replay file; re-run `./check C09 quick`", v["data_len"]);
        return true;
    }
    let mut agg = Agg::default();
    if v.get("script").is_some() {
        let all = |rem: usize| (1..=rem).collect::<Vec<usize>>();
        explore_cfg(&c, &data, &all, &mut agg);
    } else {
        check_rule(&c, &c.to_bitar(), &data, &mut agg);
    }
    for (k, v) in &agg.classes {
        println!("replay: class={} count={} example={}", k, v.count, v.examples[0]);
    }
    !agg.classes.is_empty()
}
