//! C04 — corrupted or tampered data never yields a successful wrong clone.
//! Exhaustive single-bit flips, truncations, overwrites, payload swaps, trailing garbage on small
//! archives; misbehaving servers; every --verify-header value class. Library flow on in-memory
//! devices for the bulk, the real clone_cmd (in-process, real files / loopback HTTP) for the wiring.
use crate::cli;
use crate::clonelab::*;
use crate::codec;
use crate::httpd::{Fault as HF, Script};
use crate::memdev::Fault;
use crate::netchecks::HttpLab;
use crate::refchunk::*;
use crate::rep::*;
use crate::sched::scratch_dir;
use serde_json::{json, Value};
use std::path::Path;

fn machinery(e: String) -> ! {
    eprintln!("MACHINERY-ERROR {e}");
    std::process::exit(2)
}

pub struct Base {
    pub name: String,
    pub arch: Arch,
}

pub fn bases(thorough: bool) -> Vec<Base> {
    let rt = new_rt();
    let mut v = vec![];
    let mut add = |name: &str, cfg: Cfg, hl: usize, comp: Comp, src: Vec<u8>| {
        let arch = build_arch(&rt, &cfg, hl, &comp, &src, 2).unwrap_or_else(|e| machinery(e));
        v.push(Base { name: name.into(), arch });
    };
    add("fixed4-hl8-none-dup", Cfg::fixed(4), 8, Comp::None, b"AAAABBBBAAAACCCCDD".to_vec());
    add("fixed16-hl64-brotli", Cfg::fixed(16), 64, Comp::Brotli(6), [vec![b'x'; 16], vec![b'y'; 16], (0..16u8).collect(), vec![b'x'; 16], vec![b'z'; 5]].concat());
    add("rollsum-hl8-none", Cfg::new(Algo::Roll, 4, 4, 12, 2), 8, Comp::None, b"abcdefghabcdefghhgfedcbaabcdefgh0123".to_vec());
    // a compressed tail chunk that is shorter than the others: its payload laid over another chunk's
    // decodes fine, to fewer bytes than that chunk's descriptor promises
    add("fixed64-hl64-brotli-tail", Cfg::fixed(64), 64, Comp::Brotli(5), [vec![b'x'; 64], vec![b'y'; 64], vec![b'z'; 40]].concat());
    // the shortest hash the command line accepts: every comparison made on "the first n bytes" must still be made
    add("fixed4-hl4-none", Cfg::fixed(4), 4, Comp::None, b"AAAABBBBCCCCAAAADD".to_vec());
    if thorough {
        add("fixed8-hl5-brotli", Cfg::fixed(8), 5, Comp::Brotli(3), [vec![b'x'; 8], vec![b'y'; 8], (0..5u8).collect()].concat());
        add("rollsum-hl7-none", Cfg::new(Algo::Roll, 4, 4, 12, 2), 7, Comp::None, b"abcdefghabcdefghhgfedcbaabcdefgh0123".to_vec());
        add("buzhash-hl64-brotli", Cfg::new(Algo::Buz, 4, 5, 12, 2), 64, Comp::Brotli(4), b"abcdefghabcdefghhgfedcbaabcdefgh01234567".to_vec());
        add("fixed16-hl16-zstd", Cfg::fixed(16), 16, Comp::Zstd(3), [vec![b'q'; 16], vec![b'r'; 16], vec![b'q'; 16]].concat());
        add("fixed8-hl8-lzma", Cfg::fixed(32), 8, Comp::Lzma(2), [vec![b'm'; 32], vec![b'n'; 32]].concat());
    }
    v
}

#[derive(Clone, Debug)]
pub enum Mutation {
    BitFlip(usize, u8),
    Truncate(usize),
    Overwrite(usize, Vec<u8>),
    SwapPayload(usize, usize),
    /// payload of chunk j written over the beginning of the payload of chunk i (the rest of i's stays)
    OverlayPayload(usize, usize),
    Trailing(usize),
}

pub fn apply_pub(arch: &Arch, m: &Mutation) -> Option<Vec<u8>> {
    apply(arch, m)
}

fn apply(arch: &Arch, m: &Mutation) -> Option<Vec<u8>> {
    let mut b = arch.bytes.clone();
    match m {
        Mutation::BitFlip(o, bit) => b[*o] ^= 1 << bit,
        Mutation::Truncate(l) => b.truncate(*l),
        Mutation::Overwrite(o, v) => {
            if o + v.len() > b.len() {
                return None;
            }
            let mut same = true;
            for (i, x) in v.iter().enumerate() {
                let nv = if *x == 0x55 { b[o + i] ^ 0x55 } else { *x };
                if nv != b[o + i] {
                    same = false;
                }
                b[o + i] = nv;
            }
            if same {
                return None;
            }
        }
        Mutation::SwapPayload(i, j) => {
            let (oi, si, _) = arch.descs[*i];
            let (oj, sj, _) = arch.descs[*j];
            let pi = arch.bytes[oi as usize..oi as usize + si].to_vec();
            let pj = arch.bytes[oj as usize..oj as usize + sj].to_vec();
            if pi == pj {
                return None;
            }
            if si == sj {
                b[oi as usize..oi as usize + si].copy_from_slice(&pj);
                b[oj as usize..oj as usize + sj].copy_from_slice(&pi);
            } else {
                // rebuild the payload area with the two payloads exchanged (sizes differ: the rest shifts)
                let (lo, hi) = if oi < oj { (*i, *j) } else { (*j, *i) };
                let (olo, slo, _) = arch.descs[lo];
                let (ohi, shi, _) = arch.descs[hi];
                let mut nb = arch.bytes[..olo as usize].to_vec();
                nb.extend_from_slice(&arch.bytes[ohi as usize..ohi as usize + shi]);
                nb.extend_from_slice(&arch.bytes[olo as usize + slo..ohi as usize]);
                nb.extend_from_slice(&arch.bytes[olo as usize..olo as usize + slo]);
                nb.extend_from_slice(&arch.bytes[ohi as usize + shi..]);
                b = nb;
            }
        }
        Mutation::OverlayPayload(i, j) => {
            let (oi, si, _) = arch.descs[*i];
            let (oj, sj, _) = arch.descs[*j];
            if sj > si || arch.bytes[oi as usize..oi as usize + sj] == arch.bytes[oj as usize..oj as usize + sj] {
                return None;
            }
            let pj = arch.bytes[oj as usize..oj as usize + sj].to_vec();
            b[oi as usize..oi as usize + sj].copy_from_slice(&pj);
        }
        Mutation::Trailing(n) => b.extend(std::iter::repeat(0xA5).take(*n)),
    }
    Some(b)
}

fn mutations(arch: &Arch, thorough: bool) -> Vec<Mutation> {
    let n = arch.bytes.len();
    let mut v = vec![];
    for o in 0..n {
        for bit in 0..8u8 {
            v.push(Mutation::BitFlip(o, bit));
        }
    }
    for l in 0..n {
        v.push(Mutation::Truncate(l));
    }
    for o in 0..n {
        for x in [0x00u8, 0xff, 0x55] {
            v.push(Mutation::Overwrite(o, vec![x]));
            if thorough || o % 3 == 0 {
                v.push(Mutation::Overwrite(o, vec![x, x]));
            }
        }
    }
    for i in 0..arch.descs.len() {
        for j in i + 1..arch.descs.len() {
            v.push(Mutation::SwapPayload(i, j));
        }
    }
    for i in 0..arch.descs.len() {
        for j in 0..arch.descs.len() {
            if i != j {
                v.push(Mutation::OverlayPayload(i, j));
            }
        }
    }
    v.push(Mutation::Trailing(1));
    v.push(Mutation::Trailing(64));
    v
}

/// (name, seed files, prior output used in place)
fn seeds_for(arch: &Arch) -> Vec<(&'static str, Vec<Vec<u8>>, Option<Vec<u8>>)> {
    // in place over a prior output that holds the source's halves exchanged (moves + fetches)
    let h = arch.source.len() / 2;
    let mut swapped = arch.source[h..].to_vec();
    swapped.extend_from_slice(&arch.source[..h]);
    vec![
        ("no-seed", vec![], None),
        ("seed=source", vec![arch.source.clone()], None),
        ("unrelated-seed", vec![b"qrstuvwxqrstuvwxqrstuvwx0987654321".to_vec()], None),
        ("in-place-over-swapped-halves", vec![], Some(swapped)),
    ]
}

pub struct IsoCtx {
    pub bases: Vec<Base>,
    pub jobs: Vec<(usize, Mutation)>,
}

impl IsoCtx {
    pub fn new(thorough: bool) -> IsoCtx {
        let bases = bases(thorough);
        let mut jobs: Vec<(usize, Mutation)> = vec![];
        for (bi, b) in bases.iter().enumerate() {
            for m in mutations(&b.arch, thorough) {
                jobs.push((bi, m));
            }
        }
        IsoCtx { bases, jobs }
    }
    pub fn run_job(&self, ji: usize, agg: &mut Agg) {
        let bases = &self.bases;
        let (bi, m) = &self.jobs[ji];
        let base = &bases[*bi].arch;
        let bytes = match apply(base, m) {
            Some(b) => b,
            None => return,
        };
        let in_header = match m {
            Mutation::BitFlip(o, _) | Mutation::Overwrite(o, _) => *o < base.header_size,
            Mutation::Truncate(l) => *l < base.header_size,
            _ => false,
        };
        let mut mutated = base.clone();
        mutated.bytes = bytes;
        agg.add("corruptions_applied", 1);
        for (sname, seeds, prior) in seeds_for(base) {
            for verify_output in [false, true] {
                let sc = Scenario { prior: prior.clone(), seed_output: prior.is_some(), seeds: seeds.clone(), fault: Fault::None, verify_output };
                let obs = run_scenario(&mutated, &sc);
                agg.add("corrupted_clones", 1);
                let detail = || json!({"leg": "library", "base": bases[*bi].name, "mutation": format!("{:?}", m), "seed": sname, "verify_output": verify_output, "outcome": format!("{:?}", obs.outcome), "output": hex(&obs.dev)});
                match &obs.outcome {
                    Outcome::Ok => {
                        if obs.dev != base.source {
                            agg.viol("success-with-wrong-output", detail);
                        } else if in_header {
                            agg.viol("header-change-not-rejected-at-open", detail);
                        } else {
                            agg.add("corruptions_harmless", 1);
                        }
                    }
                    Outcome::Err(e) => {
                        if e.starts_with("machinery") {
                            machinery(e.clone());
                        }
                        agg.add("corruptions_rejected", 1);
                        if in_header && !e.starts_with("try_init") {
                            agg.viol("header-change-not-rejected-at-open", detail);
                        }
                        agg.distinct("errors", fnv(e.as_bytes()));
                    }
                    Outcome::Panic(_) => agg.add("corruptions_crashed_counted_as_failure", 1), // C15 judges crashes
                    Outcome::Crashed => machinery("crash without fault".into()),
                }
            }
        }
        if ji % 4001 == 17 {
            agg.sample(|| json!({"base": bases[*bi].name, "mutation": format!("{:?}", m)}));
        }
    }
}

fn lib_leg(rep: &mut Report, _bases: &[Base]) {
    let ctx = IsoCtx::new(rep.thorough());
    rep.set("corruptions", json!(ctx.jobs.len()));
    match crate::isolate::run_isolated("c04", &rep.tier.clone(), ctx.jobs.len(), threads()) {
        Err(e) => machinery(e),
        Ok((agg, deaths)) => {
            rep.agg.merge(agg);
            // a dead worker is a failed clone (exit != 0), which is what C04 demands; C15 judges it
            rep.agg.add("corruptions_aborting_the_process_counted_as_failure", deaths.len() as u64);
            for d in deaths.iter().take(3) {
                let (bi, m) = &ctx.jobs[d.job];
                rep.agg.notes.push(format!("process death on {} {:?}: {}", ctx.bases[*bi].name, m, d.how));
            }
        }
    }
}

// ------------------------------------------------------------------ CLI legs

pub fn cli_clone_args(archive: &str, out: &Path, extra: &[String]) -> Vec<String> {
    let mut a: Vec<String> = vec!["bita".into(), "clone".into()];
    if !extra.iter().any(|x| x == "--buffered-chunks") {
        a.extend(["--buffered-chunks".to_string(), "2".to_string()]);
    }
    a.extend(extra.iter().cloned());
    a.push(archive.into());
    a.push(out.to_str().unwrap().into());
    a
}

/// Run the real clone_cmd in-process. Ok(Ok) success, Ok(Err) error, Err panic.
pub fn cli_clone(rt: &tokio::runtime::Runtime, args: Vec<String>) -> Result<Result<(), String>, String> {
    let opts = match cli::parse_opts(args) {
        Ok((cli::CommandOpts::Clone(o), _)) => o,
        Ok(_) => return Ok(Err("not a clone command".into())),
        Err(e) => return Ok(Err(format!("usage: {}", e.kind()))),
    };
    catch(|| rt.block_on(crate::clone_cmd::clone_cmd(opts)).map_err(|e| format!("{e:#}")))
}

fn cli_leg(rep: &mut Report, bases: &[Base]) {
    let thorough = rep.thorough();
    // --- corruption through the real binary: every 7th (quick) / 2nd (thorough) corruption
    let step = if thorough { 2 } else { 7 };
    let mut jobs: Vec<(usize, usize, Mutation)> = vec![];
    for (bi, b) in bases.iter().enumerate() {
        for (mi, m) in mutations(&b.arch, thorough).into_iter().enumerate() {
            // structural corruptions (a payload replaced by another chunk's, trailing bytes, truncations) are few
            // and decode differently from bit noise: all of them go through the binary, in the plain variant
            // (mi / step multiple of 3) as well as in the slice's rotation
            let structural = matches!(m, Mutation::SwapPayload(..) | Mutation::OverlayPayload(..) | Mutation::Trailing(..));
            if structural {
                jobs.push((bi, 0, m.clone()));
                jobs.push((bi, 2, m));
            } else if mi % step == 0 {
                jobs.push((bi, mi / step, m));
            }
        }
    }
    let jobs_ref = &jobs;
    let nshards = threads() * 2;
    let a = par_shards(nshards, threads(), |k| {
        let mut agg = Agg::default();
        let bita = std::env::var("VERIF_BITA").unwrap_or_else(|_| "/verif/build/bita/release/bita".into());
        let dir = scratch_dir("c04");
        let apath = dir.path().join("a.cba");
        let out = dir.path().join("out.bin");
        let seed = dir.path().join("seed.bin");
        for (ji, (bi, n, m)) in jobs_ref.iter().enumerate() {
            if ji % nshards != k {
                continue;
            }
            let base = &bases[*bi].arch;
            let bytes = match apply(base, m) {
                Some(b) => b,
                None => continue,
            };
            std::fs::write(&apath, &bytes).unwrap();
            std::fs::write(&seed, &base.source).unwrap();
            let (variant, mut extra) = match n % 3 {
                0 => ("plain", vec![]),
                1 => ("verify-output", vec!["--verify-output".to_string()]),
                _ => ("seeded", vec!["--seed".to_string(), seed.to_str().unwrap().to_string()]),
            };
            // every way the command line can be told to pipeline the work: a single buffer (the default on a one-CPU
            // machine), a few, many
            extra.extend(["--buffered-chunks".to_string(), ["1", "3", "1", "16"][(n / 3) % 4].to_string()]);
            let _ = std::fs::remove_file(&out);
            // the real binary: a corrupted header can make the process abort (allocation of a
            // garbage dictionary size), which must not take the harness down
            let mut cmd = std::process::Command::new(&bita);
            cmd.args(&cli_clone_args(apath.to_str().unwrap(), &out, &extra)[1..]).stdin(std::process::Stdio::null()).stdout(std::process::Stdio::null()).stderr(std::process::Stdio::null()).env("RUST_BACKTRACE", "0");
            let status = cmd.status().unwrap_or_else(|e| machinery(format!("cannot run {bita}: {e}")));
            agg.add("cli_corrupted_clones", 1);
            if status.success() {
                let o = std::fs::read(&out).unwrap_or_default();
                if o != base.source {
                    agg.viol("success-with-wrong-output", || json!({"leg": "cli", "base": bases[*bi].name, "mutation": format!("{:?}", m), "variant": variant, "output": hex(&o)}));
                } else {
                    agg.add("cli_corruptions_harmless", 1);
                }
            } else {
                agg.add("cli_corruptions_rejected", 1);
            }
        }
        agg
    });
    rep.agg.merge(a);
    let a = par_shards(bases.len(), threads(), |bi| {
        let mut agg = Agg::default();
        let base = &bases[bi].arch;
        let rt = tokio::runtime::Builder::new_current_thread().enable_all().build().unwrap();
        let dir = scratch_dir("c04");
        let apath = dir.path().join("a.cba");
        let out = dir.path().join("out.bin");
        // --- --verify-header value classes
        std::fs::write(&apath, &base.bytes).unwrap();
        let d = codec::decode(&base.bytes).unwrap_or_else(|e| machinery(e));
        let right = d.header_checksum.to_vec();
        let mut values: Vec<(String, Vec<u8>, bool)> = vec![("right".into(), right.clone(), true)];
        for bit in 0..512usize {
            let mut v = right.clone();
            v[bit / 8] ^= 1 << (bit % 8);
            values.push((format!("bitflip-{bit}"), v, false));
        }
        values.push(("different-64-bytes".into(), vec![0xAB; 64], false));
        for l in 0..64usize {
            values.push((format!("prefix-{l}"), right[..l].to_vec(), false));
        }
        let mut ext = right.clone();
        ext.push(0x00);
        values.push(("right-plus-one-byte".into(), ext, false));
        let mut ext2 = right.clone();
        ext2.extend_from_slice(&[0xde, 0xad]);
        values.push(("right-plus-two-bytes".into(), ext2, false));
        let seedp = dir.path().join("seed-all.bin");
        std::fs::write(&seedp, &base.source).unwrap();
        for (vi, (name, val, must_proceed)) in values.into_iter().enumerate() {
            let _ = std::fs::remove_file(&out);
            // the pin must hold whatever else is going on: alternately with a seed that supplies every
            // chunk (nothing is fetched) and in place over an output that already is the source
            let mut args = vec!["--verify-header".to_string(), hex(&val)];
            match vi % 3 {
                1 => args.extend(["--seed".to_string(), seedp.to_str().unwrap().to_string()]),
                2 => {
                    std::fs::write(&out, &base.source).unwrap();
                    args.push("--seed-output".to_string());
                }
                _ => {}
            }
            let preexisting = vi % 3 == 2;
            let r = cli_clone(&rt, cli_clone_args(apath.to_str().unwrap(), &out, &args));
            agg.add("verify_header_cases", 1);
            let proceeded = matches!(r, Ok(Ok(())));
            let detail = || json!({"leg": "cli-verify-header", "base": bases[bi].name, "value_class": name, "value": hex(&val), "archive_header_checksum": hex(&right), "result": format!("{:?}", r)});
            let class_name = if name.starts_with("prefix-") { "prefix".to_string() } else if name.starts_with("bitflip") { "bitflip".to_string() } else { name.clone() };
            if proceeded && !must_proceed {
                agg.viol(&format!("verify-header-accepts-{class_name}"), detail);
            } else if !proceeded && must_proceed {
                agg.viol("verify-header-rejects-right-value", detail);
            } else if proceeded && std::fs::read(&out).unwrap_or_default() != base.source {
                agg.viol("success-with-wrong-output", detail);
            }
            if !proceeded && !must_proceed && out.exists() && !preexisting {
                agg.viol("verify-header-mismatch-created-output", detail);
            }
        }
        agg
    });
    rep.agg.merge(a);
}

fn server_leg(rep: &mut Report, bases: &[Base]) {
    let a = par_shards(bases.len(), threads(), |bi| {
        let mut agg = Agg::default();
        let base = &bases[bi].arch;
        let lab = HttpLab::new();
        let dir = scratch_dir("c04srv");
        let out = dir.path().join("out.bin");
        let seed = dir.path().join("seed.bin");
        // a seed holding the first chunk only, so that fewer requests are made and later ones matter
        std::fs::write(&seed, &base.source[..base.src_chunks[0].1]).unwrap();
        let nreq_max = 2 + base.descs.len();
        let faults = [HF::WrongBytes, HF::ErrorPage(404), HF::ErrorPage(500), HF::ShortBody(1), HF::ShortBody(0), HF::FullFile, HF::Extra(3), HF::Empty, HF::Status(500), HF::CutAfter(1), HF::LengthLie(4)];
        // a server that goes silent in the middle of a body: the receive timeout must end in a failure
        for at in [1usize, 2] {
            if at >= nreq_max {
                continue;
            }
            let mut script = vec![HF::None; at];
            script.push(HF::Stall(1));
            lab.server.arm(&base.bytes, Script { faults: script, splits: vec![], keep_alive: false });
            let _ = std::fs::remove_file(&out);
            let r = cli_clone(&lab.rt, cli_clone_args(&lab.server.url(), &out, &["--http-retry-count".to_string(), "0".to_string(), "--http-timeout".to_string(), "1".to_string()]));
            agg.add("server_fault_cases", 1);
            agg.add("server_stall_cases", 1);
            if let Ok(Ok(())) = r {
                let o = std::fs::read(&out).unwrap_or_default();
                if o != base.source {
                    agg.viol("success-with-wrong-output", || json!({"leg": "cli-http", "base": bases[bi].name, "fault": "server goes silent after 1 body byte, --http-timeout 1", "at_request": at, "output": hex(&o)}));
                }
            }
        }
        let mut fault_case_no = 0usize;
        for at in 0..nreq_max {
            for f in &faults {
                for (variant, extra, persistent) in [("plain", vec![], false), ("verify-output", vec!["--verify-output".to_string()], false), ("seeded", vec!["--seed".to_string(), seed.to_str().unwrap().to_string()], false),
                    ("plain", vec![], true), ("seeded", vec!["--seed".to_string(), seed.to_str().unwrap().to_string()], true)] {
                    // retry budget 0 with the fault once, or budget 2 with the fault persisting over every further
                    // request: a failure that outlasts the budget must still end in a failure
                    let mut script = vec![HF::None; at];
                    script.extend(std::iter::repeat(f.clone()).take(if persistent { 40 } else { 1 }));
                    lab.server.arm(&base.bytes, Script { faults: script, splits: vec![], keep_alive: false });
                    let _ = std::fs::remove_file(&out);
                    let mut ex = extra.clone();
                    ex.extend(["--http-retry-count".to_string(), if persistent { "2" } else { "0" }.to_string(), "--http-retry-delay".to_string(), "0".to_string()]);
                    fault_case_no += 1;
                    ex.extend(["--buffered-chunks".to_string(), ["1", "2", "1", "8"][fault_case_no % 4].to_string()]);
                    let r = cli_clone(&lab.rt, cli_clone_args(&lab.server.url(), &out, &ex));
                    agg.add("server_fault_cases", 1);
                    let hit = lab.server.log().len() > at;
                    if hit {
                        agg.add("server_fault_cases_fault_reached", 1);
                    }
                    match r {
                        Ok(Ok(())) => {
                            let o = std::fs::read(&out).unwrap_or_default();
                            if o != base.source {
                                agg.viol("success-with-wrong-output", || json!({"leg": "cli-http", "base": bases[bi].name, "fault": format!("{:?}", f), "at_request": at, "variant": variant, "persistent_with_retry_budget_2": persistent, "output": hex(&o)}));
                            } else {
                                agg.add("server_faults_harmless", 1);
                            }
                        }
                        Ok(Err(_)) => agg.add("server_faults_rejected", 1),
                        Err(_) => agg.add("server_faults_crashed_counted_as_failure", 1),
                    }
                    agg.distinct("server_cases", fnv(format!("{bi}{at}{:?}{variant}", f).as_bytes()));
                }
            }
        }
        agg
    });
    rep.agg.merge(a);
}

pub fn run(rep: &mut Report) {
    let bases = bases(rep.thorough());
    rep.set("base_archives", json!(bases.iter().map(|b| json!({"name": b.name, "bytes": b.arch.bytes.len(), "header": b.arch.header_size, "chunks": b.arch.descs.len()})).collect::<Vec<_>>()));
    let t0 = std::time::Instant::now();
    lib_leg(rep, &bases);
    rep.agg.notes.push(format!("library leg wall {:.1}s", t0.elapsed().as_secs_f64()));
    let t0 = std::time::Instant::now();
    cli_leg(rep, &bases);
    rep.agg.notes.push(format!("cli leg wall {:.1}s", t0.elapsed().as_secs_f64()));
    let t0 = std::time::Instant::now();
    server_leg(rep, &bases);
    rep.agg.notes.push(format!("server leg wall {:.1}s", t0.elapsed().as_secs_f64()));
    let ev = rep.agg.get("corrupted_clones") + rep.agg.get("cli_corrupted_clones") + rep.agg.get("verify_header_cases") + rep.agg.get("server_fault_cases");
    rep.set("evaluations", json!(ev));
    rep.set("distinct_nontrivial", json!(rep.agg.distinct_count("errors") + rep.agg.distinct_count("server_cases")));
    rep.set("exhaustive", json!(true));
    rep.set("rule", json!("for each small base archive (hash length >= 8; raw and compressed; duplicate chunk): every single-bit flip, every truncation length, every 1-byte (and every 3rd / every 2-byte) overwrite with {00, ff, xor 55} at every offset, every pair of chunk payloads swapped, 1 and 64 bytes of trailing garbage, each x {no seed, seed = source, unrelated seed, in place over a prior output with the source's halves exchanged} x {plain, verify-output} through the library flow, and a 1-in-7 (thorough 1-in-2) slice through the real clone_cmd on files; --verify-header: right value, each of its 512 single-bit flips, another 64-byte value, every proper prefix length 0..63, value + 1 and + 2 bytes, each alternately plain / with a seed that supplies every chunk / in place over an output that already is the source; misbehaving server: 11 fault kinds at every request position x {plain, verify-output, seeded} through the real clone_cmd over loopback HTTP; oracle: failure or exactly the original source, header changes rejected at open, clone proceeds iff the pinned header checksum equals the archive's; non-trivial = distinct error messages + distinct server cases"));
    rep.assume("hash length >= 8 as the property states; a panic counts as failure here (C15 judges crashes)");
}

pub fn replay(v: &Value) -> bool {
    let mut rep = Report::new("C04", "fault_enumeration", "quick", 0);
    let bases = bases(false);
    match v["leg"].as_str() {
        Some("library") => lib_leg(&mut rep, &bases),
        Some("cli-http") => server_leg(&mut rep, &bases),
        _ => cli_leg(&mut rep, &bases),
    }
    for (k, c) in &rep.agg.classes {
        println!("replay: class={} count={}", k, c.count);
    }
    !rep.agg.classes.is_empty()
}
