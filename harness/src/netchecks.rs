//! C07 (one Range request per maximal run of adjacent missing chunks) and C08 (readers deliver
//! exactly the requested bytes under every fragmentation / fault script).
use crate::httpd::{Fault as HF, Script, Server};
use crate::rep::*;
use bitar::archive_reader::{ArchiveReader, HttpReader, IoReader};
use bitar::ChunkOffset;
use futures_util::StreamExt;
use serde_json::{json, Value};
use std::io::SeekFrom;
use std::pin::Pin;
use std::sync::{Arc, Mutex};
use std::task::{Context, Poll};
use tokio::io::{AsyncRead, AsyncSeek, ReadBuf};

fn machinery(e: String) -> ! {
    eprintln!("MACHINERY-ERROR {e}");
    std::process::exit(2)
}

// =========================================================== C08 local: scripted file

#[derive(Clone, Copy, Debug, PartialEq, Eq)]
pub enum A {
    Full,
    Short(usize),
    Pending,
}

struct Trace {
    /// number of alternatives at each decision point (1 = no choice)
    alts: Vec<usize>,
    /// what was chosen
    chosen: Vec<usize>,
}

/// AsyncRead + AsyncSeek over a byte slice; every poll_read / poll_complete is a decision point
/// whose answer is taken from `choices` (index into the menu) and defaults to 0 = Full/Ready.
/// menu for poll_read with `avail` deliverable bytes: [Full, Pending, Short(1), .., Short(avail-1)]
/// menu for poll_complete: [Ready, Pending]
struct ScriptedFile {
    /// every read delivers at most this many bytes (0 = no limit), on top of the scripted answers
    max_read: usize,
    /// the file is `base` zero bytes followed by `data` (offsets beyond 2^32 without the memory)
    base: u64,
    data: Arc<Vec<u8>>,
    pos: u64,
    choices: Vec<usize>,
    tr: Arc<Mutex<Trace>>,
    pending_armed: bool,
}

impl ScriptedFile {
    fn decide(&mut self, n_alts: usize) -> usize {
        let mut tr = self.tr.lock().unwrap();
        let i = tr.alts.len();
        let c = self.choices.get(i).copied().unwrap_or(0);
        let c = if c < n_alts { c } else { usize::MAX };
        tr.alts.push(n_alts);
        tr.chosen.push(c);
        c
    }
}

impl AsyncRead for ScriptedFile {
    fn poll_read(mut self: Pin<&mut Self>, cx: &mut Context<'_>, buf: &mut ReadBuf<'_>) -> Poll<std::io::Result<()>> {
        let len = self.data.len() as u64;
        if self.pending_armed {
            // AsyncSeek contract: poll_complete must have returned Ready before the next operation
            // (tokio::fs::File answers exactly like this)
            return Poll::Ready(Err(std::io::Error::new(std::io::ErrorKind::Other, "other file operation is pending, call poll_complete before start_seek/poll_read")));
        }
        if self.pos < self.base {
            // inside the virtual zero prefix: deliver zeros up to its end (no decision point)
            let n = (buf.remaining() as u64).min(self.base - self.pos).min(4096) as usize;
            buf.put_slice(&vec![0u8; n]);
            self.pos += n as u64;
            return Poll::Ready(Ok(()));
        }
        let start = (self.pos - self.base).min(len) as usize;
        let avail = buf.remaining().min(self.data.len() - start);
        // menu: Full, Pending, Short(1..avail-1)
        let n_alts = if avail >= 1 { 2 + avail.saturating_sub(1) } else { 2 };
        let c = self.decide(n_alts);
        if c == usize::MAX {
            return Poll::Ready(Err(std::io::Error::new(std::io::ErrorKind::Other, "replay divergence")));
        }
        let take = match c {
            0 if self.max_read > 0 => avail.min(self.max_read),
            0 => avail,
            1 => {
                cx.waker().wake_by_ref();
                return Poll::Pending;
            }
            k => k - 1,
        };
        let d = self.data.clone();
        buf.put_slice(&d[start..start + take]);
        self.pos = self.base + (start + take) as u64;
        Poll::Ready(Ok(()))
    }
}

impl AsyncSeek for ScriptedFile {
    fn start_seek(mut self: Pin<&mut Self>, position: SeekFrom) -> std::io::Result<()> {
        match position {
            SeekFrom::Start(o) => self.pos = o,
            SeekFrom::End(d) => self.pos = (self.base as i64 + self.data.len() as i64 + d) as u64,
            SeekFrom::Current(d) => self.pos = (self.pos as i64 + d) as u64,
        }
        self.pending_armed = true;
        Ok(())
    }
    fn poll_complete(mut self: Pin<&mut Self>, cx: &mut Context<'_>) -> Poll<std::io::Result<u64>> {
        if self.pending_armed {
            let c = self.decide(2);
            if c == 1 {
                cx.waker().wake_by_ref();
                return Poll::Pending;
            }
            self.pending_armed = false;
        }
        Poll::Ready(Ok(self.pos))
    }
}

#[derive(Debug, Clone, PartialEq, Eq)]
enum Item {
    Bytes(Vec<u8>),
    Err(String),
}

fn poll_to_end<F: std::future::Future>(fut: F) -> Result<F::Output, String> {
    let mut fut = std::pin::pin!(fut);
    let waker = futures_util::task::noop_waker();
    let mut cx = Context::from_waker(&waker);
    for _ in 0..10_000 {
        if let Poll::Ready(r) = fut.as_mut().poll(&mut cx) {
            return Ok(r);
        }
    }
    Err("poll horizon".into())
}

/// One execution of the local reader under `choices`; returns items and the decision trace.
fn run_local(data: &Arc<Vec<u8>>, ranges: &[(u64, usize)], use_read_at: bool, choices: &[usize]) -> Result<(Vec<Item>, Vec<usize>, Vec<usize>), String> {
    run_local_based(data, 0, ranges, use_read_at, choices, 0)
}

fn run_local_max(data: &Arc<Vec<u8>>, ranges: &[(u64, usize)], use_read_at: bool, choices: &[usize], max_read: usize) -> Result<(Vec<Item>, Vec<usize>, Vec<usize>), String> {
    run_local_based(data, 0, ranges, use_read_at, choices, max_read)
}

/// `ranges` are in file coordinates: the file is `base` zeros followed by `data`.
fn run_local_based(data: &Arc<Vec<u8>>, base: u64, ranges: &[(u64, usize)], use_read_at: bool, choices: &[usize], max_read: usize) -> Result<(Vec<Item>, Vec<usize>, Vec<usize>), String> {
    let (mut per_op, alts, chosen) = run_local_ops(data, base, &[(use_read_at, ranges.to_vec())], choices, max_read)?;
    Ok((per_op.remove(0), alts, chosen))
}

/// A sequence of operations (read_at over a list / read_chunks over a list) on ONE IoReader over one scripted file.
fn run_local_ops(data: &Arc<Vec<u8>>, base: u64, ops: &[(bool, Vec<(u64, usize)>)], choices: &[usize], max_read: usize) -> Result<(Vec<Vec<Item>>, Vec<usize>, Vec<usize>), String> {
    let tr = Arc::new(Mutex::new(Trace { alts: vec![], chosen: vec![] }));
    let f = ScriptedFile { max_read, base, data: data.clone(), pos: 0, choices: choices.to_vec(), tr: tr.clone(), pending_armed: false };
    let mut reader = IoReader::new(f);
    let mut per_op: Vec<Vec<Item>> = vec![];
    for (use_read_at, ranges) in ops {
        let use_read_at = *use_read_at;
        let reader = &mut reader;
        let items = catch(|| {
            poll_to_end(async {
                let mut items = vec![];
                if use_read_at {
                    for &(o, s) in ranges {
                        match reader.read_at(o, s).await {
                            Ok(b) => items.push(Item::Bytes(b.to_vec())),
                            Err(e) => {
                                items.push(Item::Err(e.to_string()));
                                break;
                            }
                        }
                    }
                } else {
                    let mut st = reader.read_chunks(ranges.iter().map(|&(o, s)| ChunkOffset::new(o, s)).collect());
                    let mut n = 0;
                    while let Some(r) = st.next().await {
                        n += 1;
                        match r {
                            Ok(b) => items.push(Item::Bytes(b.to_vec())),
                            Err(e) => {
                                // the raw stream repeats errors; consumers stop at the first one
                                items.push(Item::Err(e.to_string()));
                                break;
                            }
                        }
                        if n > ranges.len() + 2 {
                            items.push(Item::Err("horizon: more items than ranges".into()));
                            break;
                        }
                    }
                }
                items
            })
        });
        let items = match items {
            Err(p) => vec![Item::Err(p)],
            Ok(Err(e)) => return Err(e),
            Ok(Ok(i)) => i,
        };
        let panicked = items.iter().any(|i| matches!(i, Item::Err(e) if e.starts_with("panic at")));
        per_op.push(items);
        if panicked {
            break;
        }
    }
    let t = tr.lock().unwrap();
    if t.chosen.iter().any(|&c| c == usize::MAX) {
        return Err("replay divergence in scripted file".into());
    }
    Ok((per_op, t.alts.clone(), t.chosen.clone()))
}

fn expected_local(data: &[u8], ranges: &[(u64, usize)]) -> Vec<Option<Vec<u8>>> {
    // Some(bytes) or None = error expected (range reaches past EOF); nothing after the first error
    let mut v = vec![];
    for &(o, s) in ranges {
        let e = o as usize + s;
        if e <= data.len() {
            v.push(Some(data[o as usize..e].to_vec()));
        } else {
            v.push(None);
            break;
        }
    }
    v
}

fn judge_items(items: &[Item], want: &[Option<Vec<u8>>]) -> Option<&'static str> {
    if items.len() != want.len() {
        return Some("wrong-number-of-items");
    }
    for (i, w) in items.iter().zip(want.iter()) {
        match (i, w) {
            (Item::Bytes(b), Some(x)) if b == x => {}
            (Item::Err(e), None) if !e.starts_with("panic at") && !e.starts_with("horizon") => {}
            (Item::Err(e), _) if e.starts_with("panic at") => return Some("reader-panicked"),
            (Item::Bytes(_), Some(_)) => return Some("wrong-bytes-delivered"),
            (Item::Bytes(_), None) => return Some("data-delivered-for-range-past-eof"),
            (Item::Err(_), Some(_)) => return Some("error-on-valid-range"),
            _ => return Some("wrong-bytes-delivered"),
        }
    }
    None
}

fn local_leg(rep: &mut Report) {
    let thorough = rep.thorough();
    let data: Arc<Vec<u8>> = Arc::new((0..12u8).map(|i| b'a' + i).collect());
    let offsets = [0u64, 3, 5, 9];
    let sizes = [1usize, 3, 4];
    let mut singles: Vec<(u64, usize)> = vec![];
    for &o in &offsets {
        for &s in &sizes {
            singles.push((o, s));
        }
    }
    let mut lists: Vec<Vec<(u64, usize)>> = vec![];
    for a in &singles {
        lists.push(vec![*a]);
        for b in &singles {
            lists.push(vec![*a, *b]);
            if thorough {
                for c in &singles {
                    lists.push(vec![*a, *b, *c]);
                }
            }
        }
    }
    if !thorough {
        // a slice of the triples: those starting with an adjacent or overlapping pair
        for a in &singles {
            for b in &singles {
                if b.0 <= a.0 + a.1 as u64 {
                    lists.push(vec![*a, *b, (5, 3)]);
                }
            }
        }
    }
    let bound = if thorough { 3 } else { 2 };
    let lists_ref = &lists;
    let data_ref = &data;
    let a = par_shards(lists.len(), threads(), |li| {
        let mut agg = Agg::default();
        let ranges = &lists_ref[li];
        let want = expected_local(data_ref, ranges);
        for use_read_at in [false, true] {
            // deviation-bounded DFS over the answer scripts (full tree for single small ranges)
            let b = if ranges.len() == 1 { 64 } else { bound };
            let mut stack: Vec<Vec<usize>> = vec![vec![]];
            let mut execs = 0u64;
            while let Some(prefix) = stack.pop() {
                let (items, alts, chosen) = match run_local(data_ref, ranges, use_read_at, &prefix) {
                    Ok(x) => x,
                    Err(e) => machinery(e),
                };
                execs += 1;
                agg.add("local_transitions", chosen.len() as u64);
                if let Some(class) = judge_items(&items, &want) {
                    agg.viol(&format!("local:{class}"), || json!({"leg": "local", "api": if use_read_at { "read_at" } else { "read_chunks" }, "file": hex(data_ref), "ranges": ranges, "answers": chosen, "items": format!("{:?}", items)}));
                }
                agg.distinct("local_outcomes", fnv(format!("{:?}{:?}", ranges, chosen).as_bytes()));
                let dev = prefix.iter().filter(|&&c| c != 0).count();
                // consecutive Pending answers at one decision point add nothing new: cap them at 2
                for i in prefix.len()..chosen.len() {
                    if dev + 1 > b {
                        break;
                    }
                    for alt in 1..alts[i] {
                        if alt == 1 && i >= 2 && chosen[i - 1] == 1 && chosen[i - 2] == 1 {
                            continue;
                        }
                        let mut p = chosen[..i].to_vec();
                        p.push(alt);
                        stack.push(p);
                    }
                }
                if execs > 200_000 {
                    agg.add("local_capped_lists", 1);
                    break;
                }
            }
            agg.add("local_executions", execs);
        }
        if li == 40 {
            agg.sample(|| json!({"leg": "local", "file": hex(data_ref), "ranges": ranges, "answers": "menu per poll_read: Full | Pending | Short(1..avail-1); per seek completion: Ready | Pending"}));
        }
        agg
    });
    rep.agg.merge(a);
    // Operation SEQUENCES on one reader: what a caller does after a finished or a failed call. For every list, every
    // pair of APIs and every single deviation anywhere in the two calls: the second call (the list in reverse
    // order) must deliver its exact bytes whatever the first one met - no buffer, offset or error carried over.
    {
        let a = par_shards(lists.len(), threads(), |li| {
            let mut agg = Agg::default();
            if !thorough && li % 2 == 1 {
                return agg;
            }
            let r1 = &lists_ref[li];
            let r2: Vec<(u64, usize)> = r1.iter().rev().cloned().collect();
            let (w1, w2) = (expected_local(data_ref, r1), expected_local(data_ref, &r2));
            for (api1, api2) in [(false, false), (false, true), (true, false)] {
                let ops = [(api1, r1.clone()), (api2, r2.clone())];
                let mut stack: Vec<Vec<usize>> = vec![vec![]];
                while let Some(prefix) = stack.pop() {
                    let (per_op, alts, chosen) = match run_local_ops(data_ref, 0, &ops, &prefix, 0) {
                        Ok(x) => x,
                        Err(e) => machinery(e),
                    };
                    agg.add("local_sequence_executions", 1);
                    agg.add("local_transitions", chosen.len() as u64);
                    let detail = || json!({"leg": "local-sequence", "apis": [if api1 { "read_at" } else { "read_chunks" }, if api2 { "read_at" } else { "read_chunks" }], "file": hex(data_ref), "first_ranges": r1, "second_ranges": r2, "answers": chosen, "items": format!("{:?}", per_op)});
                    if let Some(class) = judge_items(&per_op[0], &w1) {
                        agg.viol(&format!("local:{class}"), detail);
                    } else if per_op.len() < 2 {
                        agg.viol("local:second-call:reader-panicked", detail);
                    } else if let Some(class) = judge_items(&per_op[1], &w2) {
                        agg.viol(&format!("local:second-call:{class}"), detail);
                    }
                    if prefix.iter().all(|&c| c == 0) {
                        for i in prefix.len()..chosen.len() {
                            for alt in 1..alts[i] {
                                let mut p = chosen[..i].to_vec();
                                p.push(alt);
                                stack.push(p);
                            }
                        }
                    }
                }
            }
            agg
        });
        rep.agg.merge(a);
    }
    // offsets beyond 2^32 (archives of disk images are routinely larger than 4 GiB): the same range
    // lists shifted behind a virtual zero prefix that ends just below / just above 2^32, every
    // single deviation from the default answers
    {
        let mut agg = Agg::default();
        for base in [(1u64 << 32) - 5, (1u64 << 32) + 7, (1u64 << 40) + 1] {
            for (li, ranges0) in lists.iter().enumerate() {
                if li % 3 != 1 {
                    continue;
                }
                let ranges: Vec<(u64, usize)> = ranges0.iter().map(|&(o, s)| (o + base, s)).collect();
                let want = expected_local(&data, ranges0);
                for use_read_at in [false, true] {
                    let mut stack: Vec<Vec<usize>> = vec![vec![]];
                    while let Some(prefix) = stack.pop() {
                        let (items, alts, chosen) = match run_local_based(&data, base, &ranges, use_read_at, &prefix, 0) {
                            Ok(x) => x,
                            Err(e) => machinery(e),
                        };
                        agg.add("local_executions", 1);
                        agg.add("local_executions_beyond_4gib", 1);
                        if let Some(class) = judge_items(&items, &want) {
                            agg.viol(&format!("local:{class}"), || json!({"leg": "local-beyond-4GiB", "api": if use_read_at { "read_at" } else { "read_chunks" }, "file": hex(&data), "zero_prefix": base, "ranges": ranges, "answers": chosen, "items": format!("{:?}", items)}));
                        }
                        if prefix.is_empty() {
                            for i in 0..chosen.len() {
                                for alt in 1..alts[i] {
                                    let mut p = chosen[..i].to_vec();
                                    p.push(alt);
                                    stack.push(p);
                                }
                            }
                        }
                    }
                }
            }
        }
        rep.agg.merge(agg);
    }
    // sizes around 2^16 / 2^17 on a larger file with data after the requested range (read_at is
    // what reads the header: dictionaries beyond 64 KiB exist)
    {
        let big: Arc<Vec<u8>> = Arc::new((0..300_000u32).map(|i| (i * 31 + i / 977) as u8).collect());
        let mut agg = Agg::default();
        for size in [65_535usize, 65_536, 65_537, 100_000, 131_072, 131_073, 262_145] {
            for offset in [0u64, 1, 4097] {
                for (api, script, max_read) in [(true, vec![], 0usize), (true, vec![1usize], 0), (true, vec![], 4096), (true, vec![1, 1], 65_536), (false, vec![], 0), (false, vec![1], 50_000), (false, vec![], 70_000)] {
                    // script entries are menu indexes at the first decision points (0 = full, 1 = pending);
                    // max_read caps every read (short reads of 4 kB / 50 kB / 64 kB / 70 kB)
                    let ranges = vec![(offset, size), (offset + size as u64, 7)];
                    let (items, _alts, chosen) = match run_local_max(&big, &ranges, api, &script, max_read) {
                        Ok(x) => x,
                        Err(e) => machinery(e),
                    };
                    agg.add("local_executions", 1);
                    agg.add("local_large_read_cases", 1);
                    let want = expected_local(&big, &ranges);
                    if let Some(class) = judge_items(&items, &want) {
                        agg.viol(&format!("local:{class}"), || json!({"leg": "local-large", "api": if api { "read_at" } else { "read_chunks" }, "file_len": big.len(), "ranges": ranges, "answers": chosen, "max_read": max_read,
                            "item_lengths": items.iter().map(|i| match i { Item::Bytes(b) => b.len() as i64, Item::Err(_) => -1 }).collect::<Vec<_>>()}));
                    }
                }
            }
        }
        rep.agg.merge(agg);
    }
    rep.set("local_range_lists", json!(lists.len()));
    rep.set("local_deviation_bound", json!(bound));
}

// =========================================================== HTTP

pub struct HttpLab {
    pub rt: tokio::runtime::Runtime,
    pub server: Server,
    client: reqwest::Client,
    client_nopool: reqwest::Client,
    pub pooled: std::cell::Cell<bool>,
}

impl HttpLab {
    pub fn new() -> HttpLab {
        let rt = tokio::runtime::Builder::new_current_thread().enable_all().build().unwrap();
        let client = reqwest::Client::builder().no_proxy().build().unwrap();
        // fault scripts use a client without connection reuse, so that every request is a fresh
        // connection and no transparent transport-level retry can blur the request log
        let client_nopool = reqwest::Client::builder().no_proxy().pool_max_idle_per_host(0).build().unwrap();
        HttpLab { rt, server: Server::start(), client, client_nopool, pooled: std::cell::Cell::new(false) }
    }
    pub fn reader(&self, retries: u32) -> HttpReader {
        let c = if self.pooled.get() { &self.client } else { &self.client_nopool };
        HttpReader::from_request(c.get(self.server.url())).retries(retries).retry_delay(std::time::Duration::from_millis(0))
    }
    /// Run read_chunks over `ranges` against the armed server; stops at the first Err like Archive::chunk_stream.
    fn read_chunks(&self, ranges: &[(u64, usize)], retries: u32) -> Vec<Item> {
        let mut reader = self.reader(retries);
        self.read_chunks_on(&mut reader, ranges)
    }
    /// The same on a reader the caller keeps: a second call on one reader must not see anything of the first.
    fn read_chunks_on(&self, reader: &mut HttpReader, ranges: &[(u64, usize)]) -> Vec<Item> {
        let r = catch(|| {
            self.rt.block_on(async {
                let mut items = vec![];
                let mut st = reader.read_chunks(ranges.iter().map(|&(o, s)| ChunkOffset::new(o, s)).collect());
                let mut n = 0;
                loop {
                    let next = tokio::time::timeout(std::time::Duration::from_secs(20), st.next()).await;
                    match next {
                        Err(_) => {
                            items.push(Item::Err("horizon: timeout".into()));
                            break;
                        }
                        Ok(None) => break,
                        Ok(Some(Ok(b))) => items.push(Item::Bytes(b.to_vec())),
                        Ok(Some(Err(e))) => {
                            items.push(Item::Err(format!("{e}")));
                            break;
                        }
                    }
                    n += 1;
                    if n > ranges.len() + 2 {
                        items.push(Item::Err("horizon: more items than ranges".into()));
                        break;
                    }
                }
                items
            })
        });
        match r {
            Ok(i) => i,
            Err(p) => vec![Item::Err(p)],
        }
    }
    fn read_at(&self, offset: u64, size: usize, retries: u32) -> Item {
        let mut reader = self.reader(retries);
        match catch(|| self.rt.block_on(async { tokio::time::timeout(std::time::Duration::from_secs(20), reader.read_at(offset, size)).await })) {
            Ok(Ok(Ok(b))) => Item::Bytes(b.to_vec()),
            Ok(Ok(Err(e))) => Item::Err(format!("{e}")),
            Ok(Err(_)) => Item::Err("horizon: timeout".into()),
            Err(p) => Item::Err(p),
        }
    }
}

/// Maximal runs of list-adjacent, offset-adjacent ranges: (start, end_exclusive, n_chunks)
pub fn runs_of(ranges: &[(u64, usize)]) -> Vec<(u64, u64, usize)> {
    let mut v: Vec<(u64, u64, usize)> = vec![];
    for &(o, s) in ranges {
        match v.last_mut() {
            Some(r) if r.1 == o => {
                r.1 = o + s as u64;
                r.2 += 1;
            }
            _ => v.push((o, o + s as u64, 1)),
        }
    }
    v
}

/// Reference model of the retrying range reader: expected request log and expected items.
fn http_model(base: u64, file: &[u8], ranges: &[(u64, usize)], faults: &[HF], budget: u32) -> (Vec<Option<(u64, u64)>>, Vec<Option<Vec<u8>>>) {
    let mut reqs: Vec<Option<(u64, u64)>> = vec![];
    let mut items: Vec<Option<Vec<u8>>> = vec![];
    let mut fi = 0usize;
    let mut idx = 0usize; // next range to deliver
    'runs: for (start, end, n) in runs_of(ranges) {
        let mut pos = start;
        let mut left = budget;
        let mut failed = false;
        loop {
            let f = faults.get(fi).cloned().unwrap_or(HF::None);
            fi += 1;
            match f {
                HF::Refuse => {
                    reqs.push(None);
                    if left == 0 {
                        failed = true;
                        break;
                    }
                    left -= 1;
                }
                HF::CutAfter(k) => {
                    reqs.push(Some((pos, end - 1)));
                    let remaining = (end - pos) as usize;
                    if k >= remaining {
                        pos = end;
                        break;
                    }
                    pos += k as u64;
                    if left == 0 {
                        failed = true;
                        break;
                    }
                    left -= 1;
                }
                HF::ShortBody(k) => {
                    reqs.push(Some((pos, end - 1)));
                    let remaining = (end - pos) as usize;
                    if k >= remaining {
                        pos = end;
                        break;
                    }
                    pos += k as u64;
                    failed = true; // a body that ends early is an error, never retried into a short chunk
                    break;
                }
                _ => {
                    reqs.push(Some((pos, end - 1)));
                    pos = end;
                    break;
                }
            }
        }
        // chunks of this run completely covered by [start, pos) are delivered
        let mut o = start;
        for _ in 0..n {
            let (ro, rs) = ranges[idx];
            debug_assert_eq!(ro, o);
            if o + rs as u64 <= pos {
                items.push(Some(file[(ro - base) as usize..(ro - base) as usize + rs].to_vec()));
                idx += 1;
                o += rs as u64;
            } else {
                break;
            }
        }
        if failed {
            items.push(None);
            break 'runs;
        }
    }
    (reqs, items)
}

fn http_case(lab: &HttpLab, file: &[u8], ranges: &[(u64, usize)], faults: &[HF], splits: &[usize], budget: u32, agg: &mut Agg) {
    http_case_based(lab, 0, file, ranges, faults, splits, budget, agg)
}

/// `ranges0` are relative to the start of `file`, which the server places behind `base` zero bytes.
fn http_case_based(lab: &HttpLab, base: u64, file: &[u8], ranges0: &[(u64, usize)], faults: &[HF], splits: &[usize], budget: u32, agg: &mut Agg) {
    let shifted: Vec<(u64, usize)> = ranges0.iter().map(|&(o, s)| (o + base, s)).collect();
    let ranges = &shifted[..];
    if base > 0 {
        agg.add("http_cases_beyond_4gib", 1);
    }
    lab.server.arm_based(base, file, Script { faults: faults.to_vec(), splits: splits.to_vec(), keep_alive: false });
    lab.pooled.set(false);
    let mut reader = lab.reader(budget);
    let items = lab.read_chunks_on(&mut reader, ranges);
    let log = lab.server.log();
    let (want_reqs, want_items) = http_model(base, file, ranges, faults, budget);
    agg.add("http_cases", 1);
    agg.add("http_requests", log.len() as u64);
    let detail = || json!({"leg": "http", "file": hex(file), "zero_prefix": base, "ranges": ranges, "faults": format!("{:?}", faults), "splits": splits, "retries": budget,
        "items": format!("{:?}", items), "requests": log.iter().map(|l| l.range).collect::<Vec<_>>(), "expected_requests": want_reqs});
    if let Some(class) = judge_items(&items, &want_items) {
        agg.viol(&format!("http:{class}"), detail);
        return;
    }
    let got_reqs: Vec<Option<(u64, u64)>> = log.iter().map(|l| l.range).collect();
    if got_reqs != want_reqs {
        let class = if got_reqs.len() > want_reqs.len() { "http:more-requests-than-retry-budget-allows" } else { "http:retry-does-not-resume-at-first-missing-byte" };
        agg.viol(class, detail);
    }
    agg.distinct("http_outcomes", fnv(format!("{:?}{:?}{:?}{}", ranges, faults, splits, budget).as_bytes()));
    // Second call on the SAME reader (what a caller does after a failed or a finished stream): the ranges in
    // reverse list order, against whatever faults the first call left unconsumed. Nothing received, buffered or
    // counted during the first call may show in it.
    let n1 = log.len();
    let ranges2: Vec<(u64, usize)> = ranges.iter().rev().cloned().collect();
    let rest: Vec<HF> = faults.iter().skip(n1).cloned().collect();
    let items2 = lab.read_chunks_on(&mut reader, &ranges2);
    let log2: Vec<_> = lab.server.log().into_iter().skip(n1).collect();
    let (want_reqs2, want_items2) = http_model(base, file, &ranges2, &rest, budget);
    agg.add("http_second_calls_on_the_same_reader", 1);
    let detail2 = || json!({"leg": "http", "second_call_on_same_reader": true, "file": hex(file), "zero_prefix": base, "first_ranges": ranges, "ranges": ranges2, "faults": format!("{:?}", faults), "splits": splits, "retries": budget,
        "first_items": format!("{:?}", items), "items": format!("{:?}", items2), "requests": log2.iter().map(|l| l.range).collect::<Vec<_>>(), "expected_requests": want_reqs2});
    if let Some(class) = judge_items(&items2, &want_items2) {
        agg.viol(&format!("http:second-call:{class}"), detail2);
        return;
    }
    let got2: Vec<Option<(u64, u64)>> = log2.iter().map(|l| l.range).collect();
    if got2 != want_reqs2 {
        agg.viol("http:second-call:requests-differ-from-a-fresh-reader", detail2);
    }
}

fn http_leg(rep: &mut Report) {
    let thorough = rep.thorough();
    let file: Vec<u8> = (0..14u8).map(|i| b'A' + i).collect();
    // range lists: adjacent, gapped, unordered, overlapping
    let lists: Vec<Vec<(u64, usize)>> = vec![
        vec![(2, 5)],
        vec![(0, 3), (3, 4)],
        vec![(0, 3), (3, 4), (7, 2)],
        vec![(1, 3), (6, 3)],
        vec![(6, 3), (1, 3)],
        vec![(0, 4), (2, 4)],
        vec![(0, 2), (2, 2), (9, 2), (11, 3)],
        vec![(5, 1), (6, 1), (3, 2)],
    ];
    let mut jobs: Vec<(usize, Vec<HF>, Vec<usize>, u32)> = vec![];
    for (li, ranges) in lists.iter().enumerate() {
        let runs = runs_of(ranges);
        let first_len = (runs[0].1 - runs[0].0) as usize;
        // fragmentation: every single and (thorough: every double) split of the first response body
        for a in 1..first_len {
            jobs.push((li, vec![], vec![a], 0));
            if thorough || li < 3 {
                for b in a + 1..first_len {
                    jobs.push((li, vec![], vec![a, b], 0));
                }
            }
        }
        // fault menu per request of the first run: Refuse, CutAfter(k) for all k in 0..=len
        let mut menu: Vec<HF> = vec![HF::Refuse];
        for k in 0..=first_len {
            menu.push(HF::CutAfter(k));
        }
        let maxf = if thorough { 3 } else { 2 };
        let mut seqs: Vec<Vec<HF>> = vec![vec![]];
        let mut cur: Vec<Vec<HF>> = vec![vec![]];
        for _ in 0..maxf {
            let mut nxt = vec![];
            for s in &cur {
                for m in &menu {
                    let mut t = s.clone();
                    t.push(m.clone());
                    nxt.push(t);
                }
            }
            // keep the product bounded: beyond depth 1 only the first few lists take every sequence
            if nxt.len() > 400 && li >= 3 {
                nxt = nxt.into_iter().step_by(7).collect();
            }
            seqs.extend(nxt.iter().cloned());
            cur = nxt;
        }
        for s in seqs {
            for budget in 0..=3u32 {
                if !thorough && budget == 3 && s.len() < 2 {
                    continue;
                }
                jobs.push((li, s.clone(), vec![], budget));
            }
        }
        // failures spread over several runs, each within the budget of its own request (the budget is per request)
        if runs.len() >= 2 {
            for budget in 1..=2u32 {
                jobs.push((li, vec![HF::CutAfter(1), HF::None, HF::CutAfter(1), HF::None, HF::CutAfter(1)], vec![], budget));
                jobs.push((li, vec![HF::Refuse, HF::None, HF::Refuse, HF::None, HF::Refuse], vec![], budget));
                jobs.push((li, vec![HF::CutAfter(0), HF::None, HF::Refuse, HF::None], vec![], budget));
            }
            jobs.push((li, vec![HF::CutAfter(1), HF::CutAfter(1), HF::None, HF::CutAfter(1), HF::CutAfter(1), HF::None], vec![], 2));
        }
        // correct answers in chunked transfer encoding (no Content-Length), also after a cut transfer
        jobs.push((li, vec![HF::Chunked; 4], vec![], 0));
        jobs.push((li, vec![HF::Chunked; 4], vec![1, 2, 4], 0));
        jobs.push((li, vec![HF::CutAfter(1), HF::Chunked, HF::Chunked, HF::Chunked], vec![2], 1));
        // a fault hitting the second run, body ending early, and cut + fragmentation combined
        for budget in 0..=2u32 {
            jobs.push((li, vec![HF::None, HF::CutAfter(1), HF::Refuse], vec![], budget));
            jobs.push((li, vec![HF::ShortBody(first_len.saturating_sub(1))], vec![], budget));
            jobs.push((li, vec![HF::ShortBody(0)], vec![], budget));
            jobs.push((li, vec![HF::CutAfter(2.min(first_len))], vec![1], budget));
        }
    }
    rep.set("http_jobs", json!(jobs.len()));
    let (jobs_ref, lists_ref, file_ref) = (&jobs, &lists, &file);
    let nshards = threads();
    let a = par_shards(nshards, threads(), |k| {
        let mut agg = Agg::default();
        let lab = HttpLab::new();
        for (ji, (li, faults, splits, budget)) in jobs_ref.iter().enumerate() {
            if ji % nshards != k {
                continue;
            }
            http_case(&lab, file_ref, &lists_ref[*li], faults, splits, *budget, &mut agg);
            // a slice of the cases with the file behind a zero prefix ending just below / above 2^32
            if ji % 6 == 1 {
                let base = [(1u64 << 32) - 6, (1u64 << 32) + 9, (1u64 << 41) + 3][(ji / 6) % 3];
                http_case_based(&lab, base, file_ref, &lists_ref[*li], faults, splits, *budget, &mut agg);
            }
            if ji % 997 == 5 {
                agg.sample(|| json!({"leg": "http", "ranges": lists_ref[*li], "faults": format!("{:?}", faults), "splits": splits, "retries": budget}));
            }
        }
        // read_at (header path): cut / refuse with budgets
        if k == 0 {
            for budget in 0..=2u32 {
                for faults in [vec![], vec![HF::Refuse], vec![HF::CutAfter(2)], vec![HF::CutAfter(2), HF::Refuse], vec![HF::ShortBody(3)]] {
                    lab.server.arm(file_ref, Script { faults: faults.clone(), splits: vec![], keep_alive: false });
                    let it = lab.read_at(3, 6, budget);
                    agg.add("http_read_at_cases", 1);
                    let nfail = faults.iter().filter(|f| matches!(f, HF::Refuse | HF::CutAfter(_))).count() as u32;
                    let short = faults.iter().any(|f| matches!(f, HF::ShortBody(_)));
                    let want_ok = nfail <= budget && !short;
                    let ok = match &it {
                        Item::Bytes(b) => want_ok && b[..] == file_ref[3..9],
                        Item::Err(e) => !want_ok && !e.starts_with("panic at") && !e.starts_with("horizon"),
                    };
                    if !ok {
                        agg.viol("http:read_at-wrong-result", || json!({"leg": "http-read_at", "faults": format!("{:?}", faults), "retries": budget, "item": format!("{:?}", it)}));
                    }
                }
            }
        }
        agg
    });
    rep.agg.merge(a);
}

/// The archive level: `Archive::chunk_stream` must end after the first error (no item follows
/// it), and the CLI must hand `--http-retry-count` to the reader (a clone survives exactly that
/// many cut transfers per run).
fn archive_and_cli_leg(rep: &mut Report) {
    use crate::clonelab::{build_arch, new_rt, Comp};
    use crate::refchunk::Cfg;
    let rt0 = new_rt();
    let source = b"AAAABBBBCCCCDDDDEEEE".to_vec();
    let arch = build_arch(&rt0, &Cfg::fixed(4), 64, &Comp::None, &source, 2).unwrap_or_else(|e| machinery(e));
    let lab = HttpLab::new();
    let mut agg = Agg::default();
    let dir = crate::sched::scratch_dir("c08cli");
    let out = dir.path().join("out.bin");
    // (a) stream ends after the first error
    for cut in 0..=3usize {
        for budget in 0..=1u32 {
            let faults: Vec<HF> = std::iter::repeat(HF::CutAfter(4 + cut)).take(budget as usize + 1).collect();
            let mut script = vec![HF::None, HF::None];
            script.extend(faults);
            lab.server.arm(&arch.bytes, Script { faults: script, splits: vec![], keep_alive: false });
            lab.pooled.set(false);
            let reader = lab.reader(budget);
            let r = catch(|| {
                lab.rt.block_on(async {
                    let mut archive = bitar::Archive::try_init(reader).await.map_err(|e| format!("{e}"))?;
                    let idx = archive.build_source_index();
                    let mut st = archive.chunk_stream(&idx);
                    let mut seen_err = false;
                    let mut after_err = 0usize;
                    let mut n = 0usize;
                    while let Ok(Some(item)) = tokio::time::timeout(std::time::Duration::from_secs(10), st.next()).await {
                        n += 1;
                        if seen_err {
                            after_err += 1;
                        }
                        if item.is_err() {
                            seen_err = true;
                        }
                        if n > 20 {
                            break;
                        }
                    }
                    Ok::<(bool, usize), String>((seen_err, after_err))
                })
            });
            agg.add("chunk_stream_error_cases", 1);
            match r {
                Ok(Ok((true, 0))) => {}
                Ok(Ok((seen, after))) => agg.viol("http:items-after-first-error", || json!({"leg": "archive-stream", "cut_after": 4 + cut, "retries": budget, "error_seen": seen, "items_after_error": after})),
                Ok(Err(e)) => agg.viol("http:archive-open-failed", || json!({"leg": "archive-stream", "error": e})),
                Err(p) => agg.viol("http:reader-panicked", || json!({"leg": "archive-stream", "panic": p})),
            }
        }
    }
    // (b) CLI wiring of the retry budget, alone and next to the other transfer options
    for budget in 0..=3u32 {
        for nfaults in 0..=4usize {
            for fault in [HF::CutAfter(3), HF::Refuse] {
                for with_opts in [false, true] {
                    let mut script = vec![HF::None, HF::None];
                    script.extend(std::iter::repeat(fault.clone()).take(nfaults));
                    lab.server.arm(&arch.bytes, Script { faults: script, splits: vec![], keep_alive: false });
                    let _ = std::fs::remove_file(&out);
                    let mut xargs = vec!["--http-retry-count".to_string(), budget.to_string(), "--http-retry-delay".to_string(), "0".to_string()];
                    if with_opts {
                        xargs.extend(["--http-timeout".to_string(), "20".to_string(), "--http-header".to_string(), "X-Verif: 1".to_string()]);
                    }
                    let args = crate::c04::cli_clone_args(&lab.server.url(), &out, &xargs);
                    let r = crate::c04::cli_clone(&lab.rt, args);
                    agg.add("cli_retry_cases", 1);
                    let want_ok = nfaults as u32 <= budget;
                    let got_ok = matches!(r, Ok(Ok(())));
                    let detail = || json!({"leg": "cli-retry", "fault": format!("{:?}", fault), "faults": nfaults, "retries": budget, "with_http_timeout_and_header": with_opts, "result": format!("{:?}", r), "requests": lab.server.log().iter().map(|l| l.range).collect::<Vec<_>>()});
                    if got_ok != want_ok {
                        agg.viol(if got_ok { "http:clone-succeeded-beyond-retry-budget" } else { "http:clone-failed-within-retry-budget" }, detail);
                    } else if got_ok && std::fs::read(&out).unwrap_or_default() != source {
                        agg.viol("http:wrong-bytes-delivered", detail);
                    }
                }
            }
        }
    }
    rep.agg.merge(agg);
}

pub fn c08(rep: &mut Report) {
    local_leg(rep);
    http_leg(rep);
    archive_and_cli_leg(rep);
    let ev = rep.agg.get("local_executions") + rep.agg.get("http_cases") + rep.agg.get("http_read_at_cases") + rep.agg.get("chunk_stream_error_cases") + rep.agg.get("cli_retry_cases");
    rep.set("evaluations", json!(ev));
    rep.set("distinct_nontrivial", json!(rep.agg.distinct_count("local_outcomes") + rep.agg.distinct_count("http_outcomes")));
    rep.set("exhaustive", json!(rep.agg.get("local_capped_lists") == 0));
    rep.set("rule", json!("local: IoReader over a scripted 12-byte file, all lists of <=2 (quick: + a slice of triples; thorough: all <=3) ranges over offsets {0,3,5,9} x sizes {1,3,4} (adjacent, gapped, overlapping, unordered, past EOF), read_at and read_chunks, every answer script with <= bound deviations from Full (Short(k) for every k, Pending at every poll of read / seek completion; complete tree for single ranges; plus read_at / read_chunks of sizes around 2^16, 2^17, 2^18 at three offsets of a 300 kB file); http: HttpReader against a scripted loopback server, 8 range lists x every single/double body split x every fault sequence of <=2/3 faults from {Refuse, CutAfter(k) for all k} x retry budgets 0..3, oracle = reference model of the resuming retry loop (exact items, exact resume offsets in the request log, error iff faults exceed the budget or a body ends early); archive level: Archive::chunk_stream yields nothing after its first error, and the real clone_cmd with --http-retry-count b survives exactly b cut or refused transfers per run (b in 0..3, 0..4 faults); non-trivial = distinct (ranges, script) cases"));
    rep.assume("zero-length ranges are outside C08 (valid archives never store empty chunks); they are judged under C15");
    rep.assume("A4: real loopback TCP; body fragmentation is scripted on the server (flush + 1.5 ms pause) and may be coalesced by the client's transport");
}

// =========================================================== C07

pub fn c07(rep: &mut Report) {
    let thorough = rep.thorough();
    let n = if thorough { 14 } else { 9 };
    // three layouts of n unique chunks: contiguous, with gaps, permuted (descriptor order != file order)
    let sizes: Vec<usize> = (0..n).map(|i| 2 + (i * 3) % 5).collect();
    let mut layouts: Vec<(String, Vec<(u64, usize)>)> = vec![];
    let mut o = 20u64;
    let contiguous: Vec<(u64, usize)> = sizes.iter().map(|&s| { let r = (o, s); o += s as u64; r }).collect();
    layouts.push(("contiguous".into(), contiguous.clone()));
    let mut o = 20u64;
    let gapped: Vec<(u64, usize)> = sizes.iter().enumerate().map(|(i, &s)| { let r = (o, s); o += s as u64 + if i % 3 == 1 { 2 } else { 0 }; r }).collect();
    layouts.push(("gaps".into(), gapped));
    let mut permuted = contiguous.clone();
    permuted.swap(1, 2);
    permuted.swap(4, 5);
    layouts.push(("permuted".into(), permuted));
    // the contiguous layout again, served behind a zero prefix so that the third chunk straddles 2^32
    layouts.push(("beyond-4GiB".into(), contiguous.clone()));
    let far_base: u64 = (1u64 << 32) - 20 - (sizes[0] + sizes[1]) as u64 - 1;
    let file: Vec<u8> = (0..120u32).map(|i| (i * 7 + 3) as u8).collect();
    let total = layouts.len() * (1usize << n);
    let (layouts_ref, file_ref) = (&layouts, &file);
    let nshards = threads();
    let a = par_shards(nshards, threads(), |k| {
        let mut agg = Agg::default();
        let lab = HttpLab::new();
        for case in 0..total {
            if case % nshards != k {
                continue;
            }
            let (lname, descs) = &layouts_ref[case / (1usize << n)];
            let mask = case % (1usize << n);
            // the subset of descriptors left to fetch, in descriptor order (as chunk_stream builds it)
            let base = if lname == "beyond-4GiB" { far_base } else { 0 };
            let ranges: Vec<(u64, usize)> = descs.iter().enumerate().filter(|(i, _)| mask >> i & 1 == 1).map(|(_, r)| (r.0 + base, r.1)).collect();
            // body fragmentation (no failures): for the contiguous layout every other subset is served
            // with the body flushed at every chunk boundary of its runs, or one byte past each boundary
            let mut splits: Vec<usize> = vec![];
            if lname == "contiguous" && mask % 2 == 1 {
                for r in runs_of(&ranges) {
                    let mut rel = 0usize;
                    for &(o, s) in ranges.iter().filter(|(o, _)| *o >= r.0 && *o < r.1) {
                        let _ = o;
                        rel += s;
                        splits.push(if mask % 4 == 1 { rel } else { rel + 1 });
                    }
                }
                agg.add("subsets_with_fragmented_bodies", 1);
            }
            // the layout with gaps: every other subset is answered with chunked transfer encoding (no Content-Length),
            // one HTTP chunk per 3 body bytes
            let mut faults = vec![];
            if lname == "gaps" && mask % 2 == 1 {
                faults = vec![HF::Chunked; n + 2];
                splits = (1..40).map(|i| i * 3).collect();
                agg.add("subsets_with_chunked_transfer_encoding", 1);
            }
            lab.server.arm_based(base, file_ref, Script { faults, splits, keep_alive: case % 2 == 0 });
            lab.pooled.set(case % 2 == 0);
            let items = lab.read_chunks(&ranges, 0);
            let log = lab.server.log();
            agg.add("subsets", 1);
            let want: Vec<Option<(u64, u64)>> = runs_of(&ranges).iter().map(|r| Some((r.0, r.1 - 1))).collect();
            let got: Vec<Option<(u64, u64)>> = log.iter().map(|l| l.range).collect();
            let detail = || json!({"layout": lname, "zero_prefix": base, "descriptors": descs, "subset_mask": mask, "requests": got, "expected": want});
            if got != want {
                let class = if got.len() > want.len() { "adjacent-chunks-not-coalesced" } else if got.len() < want.len() { "non-adjacent-chunks-in-one-request" } else { "range-bounds-wrong" };
                agg.viol(class, detail);
            } else {
                let want_items: Vec<Option<Vec<u8>>> = ranges.iter().map(|&(o, s)| Some(file_ref[(o - base) as usize..(o - base) as usize + s].to_vec())).collect();
                if judge_items(&items, &want_items).is_some() {
                    agg.viol("wrong-chunk-data", detail);
                }
            }
            if want.len() > 1 && want.iter().zip(ranges.iter()).count() > 0 && runs_of(&ranges).iter().any(|r| r.2 > 1) {
                agg.add("subsets_with_multi_chunk_runs_and_gaps", 1);
            }
            agg.distinct("request_patterns", fnv(format!("{lname}{:?}", want).as_bytes()));
            if case % 601 == 77 {
                agg.sample(|| json!({"layout": lname, "to_fetch": ranges, "expected_requests": want}));
            }
        }
        agg
    });
    rep.agg.merge(a);
    // runs of any size are ONE request: k adjacent chunks of 8 MiB (k = 1..=9: 8 .. 72 MiB per run), then a gap and
    // one more chunk; served from a virtual hole of zeros
    {
        let mut agg = Agg::default();
        let lab = HttpLab::new();
        let csz = 8usize << 20;
        let head: Vec<u8> = (0..761u32).map(|i| (i % 251) as u8).collect();
        for k in 1..=9usize {
            let mut ranges: Vec<(u64, usize)> = (0..k).map(|i| (761 + (i * csz) as u64, csz)).collect();
            ranges.push((761 + ((k + 1) * csz) as u64, csz));
            lab.server.arm_hole(761, ((k + 3) * csz) as u64, &head, Script { faults: vec![], splits: vec![], keep_alive: true });
            lab.pooled.set(true);
            let items = lab.read_chunks(&ranges, 0);
            let log = lab.server.log();
            agg.add("subsets", 1);
            agg.add("large_run_cases", 1);
            let want: Vec<Option<(u64, u64)>> = runs_of(&ranges).iter().map(|r| Some((r.0, r.1 - 1))).collect();
            let got: Vec<Option<(u64, u64)>> = log.iter().map(|l| l.range).collect();
            let detail = || json!({"layout": "large-runs", "chunk_size": csz, "chunks_in_first_run": k, "requests": got, "expected": want});
            if got != want {
                let class = if got.len() > want.len() { "adjacent-chunks-not-coalesced" } else if got.len() < want.len() { "non-adjacent-chunks-in-one-request" } else { "range-bounds-wrong" };
                agg.viol(class, detail);
            } else if items.len() != ranges.len() || items.iter().any(|i| !matches!(i, Item::Bytes(b) if b.len() == csz && b.iter().all(|&x| x == 0))) {
                agg.viol("wrong-chunk-data", detail);
            }
        }
        rep.agg.merge(agg);
    }
    // A run stays ONE request with the run's own last byte when a transfer is resumed: the body of the j-th run is
    // cut after k bytes under a retry budget of 1; the follow-up request must start at first + k and still end at the
    // last byte of the last chunk of the run (every 8th subset of the contiguous and the gapped layout, every run, two k).
    {
        let a = par_shards(nshards, threads(), |kk| {
            let mut agg = Agg::default();
            let lab = HttpLab::new();
            let mut case = 0usize;
            for (lname, descs) in layouts_ref.iter().filter(|l| l.0 == "contiguous" || l.0 == "gaps") {
                for mask in 1..(1usize << n) {
                    if mask % 8 != 5 {
                        continue;
                    }
                    case += 1;
                    if case % nshards != kk {
                        continue;
                    }
                    let ranges: Vec<(u64, usize)> = descs.iter().enumerate().filter(|(i, _)| mask >> i & 1 == 1).map(|(_, r)| *r).collect();
                    let runs = runs_of(&ranges);
                    for (j, r) in runs.iter().enumerate() {
                        let len = (r.1 - r.0) as usize;
                        for k in [1usize, len / 2] {
                            if k == 0 || k >= len {
                                continue;
                            }
                            let mut faults = vec![HF::None; j];
                            faults.push(HF::CutAfter(k));
                            lab.server.arm_based(0, file_ref, Script { faults: faults.clone(), splits: vec![], keep_alive: false });
                            lab.pooled.set(false);
                            let items = lab.read_chunks(&ranges, 1);
                            let got: Vec<Option<(u64, u64)>> = lab.server.log().iter().map(|l| l.range).collect();
                            let (want, want_items) = http_model(0, file_ref, &ranges, &faults, 1);
                            agg.add("resumed_run_cases", 1);
                            agg.add("subsets", 1);
                            let detail = || json!({"layout": lname, "descriptors": descs, "subset_mask": mask, "run_cut": j, "cut_after_bytes": k, "retries": 1, "requests": got, "expected": want});
                            if got != want {
                                agg.viol("resumed-request-bounds-wrong", detail);
                            } else if judge_items(&items, &want_items).is_some() {
                                agg.viol("wrong-chunk-data", detail);
                            }
                        }
                    }
                }
            }
            agg
        });
        rep.agg.merge(a);
    }
    chunk_stream_leg(rep);
    // the real clone_cmd over HTTP with seeds and prior outputs (in place): what is missing is decided by
    // the reference clone model, not by the index the clone itself keeps
    crate::clilegs::run(rep, crate::clilegs::Which::C07, false);
    rep.set("chunks", json!(n));
    rep.set("layouts", json!(layouts.iter().map(|l| l.0.clone()).collect::<Vec<_>>()));
    rep.set("evaluations", json!(rep.agg.get("subsets")));
    rep.set("distinct_nontrivial", json!(rep.agg.distinct_count("request_patterns")));
    rep.set("exhaustive", json!(true));
    rep.set("rule", json!("every subset (2^n) of the descriptors of four archive layouts (contiguous; with gaps; descriptor order != file order; contiguous with a chunk straddling offset 2^32) is requested through the real HttpReader::read_chunks in descriptor order against a logging loopback server, with and without keep-alive, half of the contiguous layout's subsets with the response bodies flushed at (or one byte past) every chunk boundary; runs of 1..9 adjacent chunks of 8 MiB (8 .. 72 MiB in one request); a transfer of each run cut after 1 byte / half of its bytes under a retry budget of 1 (the follow-up request starts at the first missing byte and keeps the run's last byte); the same through Archive::chunk_stream on real archives whose sources repeat chunks (all subsets of the unique chunks), and through the real clone_cmd over HTTP for the seed / prior-output scenario families of C06 (missing chunks decided by the reference clone model); oracle: logged Range sequence == maximal runs of list- and offset-adjacent missing chunks with inclusive bounds first.offset .. last.end-1; non-trivial = distinct expected request patterns"));
    rep.assume("transfer failures only as far as the bounds of a resumed request go (C08 covers the rest); the library-level subset is induced directly through read_chunks exactly as Archive::chunk_stream builds it; the CLI leg induces subsets through seeds");
}

/// The same oracle one level up: `Archive::chunk_stream(&index)` on archives written by the real
/// writer whose sources repeat chunks (consecutively and not), for every subset of the unique
/// chunks left to fetch.
fn chunk_stream_leg(rep: &mut Report) {
    use crate::clonelab::{build_arch, new_rt, Comp};
    use crate::refchunk::Cfg;
    let words: Vec<&[u8]> = vec![b"AAAA", b"BBBB", b"CCCC", b"DDDD", b"EEEE"];
    let seqs: Vec<Vec<usize>> = vec![vec![0, 1, 0, 2], vec![0, 0, 1, 2, 1, 3], vec![0, 1, 2, 3, 4], vec![2, 1, 0, 1, 2, 3, 0, 4], vec![0, 1, 2, 0, 1, 2]];
    let seqs_ref = &seqs;
    let a = par_shards(seqs.len(), threads(), |si| {
        let mut agg = Agg::default();
        let rt0 = new_rt();
        let mut source = vec![];
        for &w in &seqs_ref[si] {
            source.extend_from_slice(words[w]);
        }
        let arch = build_arch(&rt0, &Cfg::fixed(4), 64, &Comp::None, &source, 2).unwrap_or_else(|e| machinery(e));
        let lab = HttpLab::new();
        lab.pooled.set(true);
        let nd = arch.descs.len();
        // the same archive with 100 bytes of slack between header and chunk data (header re-encoded by the
        // independent encoder with the chunk data offset field moved): every subset again
        let dec = crate::codec::decode(&arch.bytes).unwrap_or_else(|e| machinery(e));
        let mut enc = crate::codec::EncOpts::default();
        let h2len = crate::codec::encode_header(&dec.dict, &enc).len();
        enc.chunk_data_offset = Some((h2len + 100) as u64);
        let mut slack_bytes = crate::codec::encode_header(&dec.dict, &enc);
        slack_bytes.extend(std::iter::repeat(0xEEu8).take(100));
        slack_bytes.extend_from_slice(&arch.bytes[dec.chunk_data_offset as usize..]);
        let slack_descs: Vec<(u64, usize)> = dec.dict.chunk_descriptors.iter().map(|d| ((h2len + 100) as u64 + d.archive_offset, d.archive_size as usize)).collect();
        for mask in 0..(2usize << nd) {
            let with_slack = mask >> nd & 1 == 1;
            let mask = mask & ((1usize << nd) - 1);
            let (abytes, adescs): (&Vec<u8>, Vec<(u64, usize)>) = if with_slack { (&slack_bytes, slack_descs.clone()) } else { (&arch.bytes, arch.descs.iter().map(|d| (d.0, d.1)).collect()) };
            lab.server.arm(abytes, Script { faults: vec![], splits: vec![], keep_alive: true });
            let reader = lab.reader(0);
            let r = catch(|| {
                lab.rt.block_on(async {
                    let mut archive = bitar::Archive::try_init(reader).await.map_err(|e| format!("{e}"))?;
                    // the index of what is still missing: the source index minus the chunks not in the subset
                    let mut idx = archive.build_source_index();
                    let hashes: Vec<bitar::HashSum> = archive.chunk_descriptors().iter().map(|d| d.checksum.clone()).collect();
                    for (i, h) in hashes.iter().enumerate() {
                        if mask >> i & 1 == 0 {
                            idx.remove(h);
                        }
                    }
                    let mut st = archive.chunk_stream(&idx);
                    let mut n = 0usize;
                    while let Ok(Some(item)) = tokio::time::timeout(std::time::Duration::from_secs(10), st.next()).await {
                        item.map_err(|e| format!("{e}"))?;
                        n += 1;
                        if n > 64 {
                            return Err("horizon".to_string());
                        }
                    }
                    Ok::<usize, String>(n)
                })
            });
            agg.add("chunk_stream_subsets", 1);
            let want_ranges: Vec<(u64, usize)> = adescs.iter().enumerate().filter(|(i, _)| mask >> i & 1 == 1).map(|(_, d)| (d.0, d.1)).collect();
            let want: Vec<Option<(u64, u64)>> = runs_of(&want_ranges).iter().map(|r| Some((r.0, r.1 - 1))).collect();
            let got: Vec<Option<(u64, u64)>> = lab.server.log().iter().skip(2).map(|l| l.range).collect();
            let detail = || json!({"leg": "chunk-stream", "source_words": seqs_ref[si], "subset_mask": mask, "slack_between_header_and_chunk_data": if with_slack { 100 } else { 0 }, "requests": got, "expected": want, "result": format!("{:?}", r)});
            match &r {
                Ok(Ok(nitems)) => {
                    if got != want {
                        let class = if got.len() > want.len() { "adjacent-chunks-not-coalesced" } else if got.len() < want.len() { "non-adjacent-chunks-in-one-request" } else { "range-bounds-wrong" };
                        agg.viol(class, detail);
                    } else if *nitems != want_ranges.len() {
                        agg.viol("wrong-chunk-data", detail);
                    }
                }
                _ => agg.viol("chunk-stream-failed", detail),
            }
            agg.distinct("request_patterns", fnv(format!("cs{si}{:?}", want).as_bytes()));
        }
        agg
    });
    rep.agg.merge(a);
    let n = rep.agg.get("chunk_stream_subsets");
    rep.agg.add("subsets", n);
}

pub fn replay(pid: &str, v: &Value) -> bool {
    let mut agg = Agg::default();
    if pid == "C07" && v["leg"].as_str() == Some("chunk-stream") {
        let mut rep = Report::new("C07", "exploration", "quick", 0);
        chunk_stream_leg(&mut rep);
        return !rep.agg.classes.is_empty();
    }
    if pid == "C07" {
        let descs: Vec<(u64, usize)> = serde_json::from_value(v["descriptors"].clone()).unwrap();
        let mask = v["subset_mask"].as_u64().unwrap() as usize;
        let base = v["zero_prefix"].as_u64().unwrap_or(0);
        let ranges: Vec<(u64, usize)> = descs.iter().enumerate().filter(|(i, _)| mask >> i & 1 == 1).map(|(_, r)| (r.0 + base, r.1)).collect();
        let file: Vec<u8> = (0..120u32).map(|i| (i * 7 + 3) as u8).collect();
        let lab = HttpLab::new();
        lab.server.arm_based(base, &file, Script { faults: vec![], splits: vec![], keep_alive: true });
        let _ = lab.read_chunks(&ranges, 0);
        let got: Vec<Option<(u64, u64)>> = lab.server.log().iter().map(|l| l.range).collect();
        let want: Vec<Option<(u64, u64)>> = runs_of(&ranges).iter().map(|r| Some((r.0, r.1 - 1))).collect();
        println!("replay: requests {:?} expected {:?}", got, want);
        return got != want;
    }
    let file = unhex(v["file"].as_str().unwrap());
    let ranges: Vec<(u64, usize)> = serde_json::from_value(v["ranges"].clone()).unwrap();
    if v["leg"].as_str() == Some("local") || v["leg"].as_str() == Some("local-beyond-4GiB") {
        let answers: Vec<usize> = serde_json::from_value(v["answers"].clone()).unwrap();
        let data = Arc::new(file);
        let base = v["zero_prefix"].as_u64().unwrap_or(0);
        let (items, _, _) = run_local_based(&data, base, &ranges, v["api"].as_str() == Some("read_at"), &answers, 0).unwrap();
        let rel: Vec<(u64, usize)> = ranges.iter().map(|&(o, s)| (o - base, s)).collect();
        let want = expected_local(&data, &rel);
        println!("replay: items {:?}", items);
        return judge_items(&items, &want).is_some();
    }
    // http: the fault list is stored in Debug form; re-run the whole quick http leg instead
    let mut rep = Report::new("C08", "fault_enumeration", "quick", 0);
    http_leg(&mut rep);
    agg.merge(rep.agg);
    !agg.classes.is_empty()
}
