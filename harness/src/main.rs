//! vh — verification harness for oll3/bita (see /verif/DESIGN.md).
//! `vh run <ID> --tier quick|thorough --seed N --out result.json`
//! `vh replay <ID> <replay.json>`   (exit 1 if the violation reproduces, 0 if not)
#![allow(dead_code, unused_imports, clippy::all)]

// The real CLI code of oll3/bita, compiled in-process (mirrors src/main.rs' module list).
#[path = "/repo/src/cli.rs"]
mod cli;
#[path = "/repo/src/clone_cmd.rs"]
mod clone_cmd;
#[path = "/repo/src/compress_cmd.rs"]
mod compress_cmd;
#[path = "/repo/src/diff_cmd.rs"]
mod diff_cmd;
#[path = "/repo/src/info_cmd.rs"]
mod info_cmd;
#[path = "/repo/src/string_utils.rs"]
mod string_utils;
pub const PKG_NAME: &str = "bita";
pub const PKG_VERSION: &str = env!("CARGO_PKG_VERSION");

mod buztable;
mod c01;
mod c04;
mod c05;
mod c09;
mod c10;
mod c15;
mod c17;
mod clilegs;
mod clonechecks;
mod clonelab;
mod codec;
mod httpd;
mod isolate;
mod memdev;
mod netchecks;
mod sched;
mod subjects;
mod universe;
mod refchunk;
mod rep;

use rep::Report;

fn usage() -> ! {
    eprintln!("usage: vh run <ID> --tier quick|thorough --seed N --out FILE | vh replay <ID> FILE");
    std::process::exit(2)
}

fn main() {
    let args: Vec<String> = std::env::args().collect();
    if args.len() < 3 {
        usage();
    }
    // Discard log output but keep level Info so that log arguments are evaluated as in the CLI.
    log::set_max_level(log::LevelFilter::Info);
    rep::install_panic_hook();
    // Only plain HTTP on loopback is used: keep reqwest's TLS backend from loading the system CA
    // bundle for every client it creates (~100 ms each).
    std::env::set_var("SSL_CERT_FILE", "/dev/null");
    std::env::set_var("SSL_CERT_DIR", "/nonexistent");
    match args[1].as_str() {
        "sched-worker" => subjects::worker_main(&args[2..]),
        // vh lib-compress-seq <json list of specs>: write the archives one after the other in THIS process, print their fingerprints
        "lib-compress-seq" => c01::compress_seq_main(&args[2]),
        "iso-job" => {
            // vh iso-job <kind> <tier> <job>: run one isolated job in this process (debug / replay)
            let thorough = args[3] == "thorough";
            let job: usize = args[4].parse().unwrap();
            isolate::limit_memory(6);
            let mut agg = rep::Agg::default();
            let t0 = std::time::Instant::now();
            match args[2].as_str() {
                "c04" => c04::IsoCtx::new(thorough).run_job(job, &mut agg),
                "c15" => {
                    let ctx = c15::IsoCtx::new(thorough);
                    println!("job {job}: {}", ctx.describe(job));
                    ctx.run_job(job, &mut agg)
                }
                "c15srv" => {
                    let ctx = c15::SrvCtx::new();
                    println!("job {job}: {}", ctx.describe(job));
                    ctx.run_job(job, &mut agg)
                }
                _ => usage(),
            }
            println!("finished in {:.2}s; classes: {:?}; counters: {:?}", t0.elapsed().as_secs_f64(), agg.classes.keys().collect::<Vec<_>>(), agg.counters);
            if !agg.classes.is_empty() {
                std::process::exit(1);
            }
        }
        "iso-worker" => {
            let wa = isolate::parse_worker_args(&args[2..]);
            let thorough = wa.tier == "thorough";
            match wa.kind.as_str() {
                "c04" => {
                    let ctx = c04::IsoCtx::new(thorough);
                    isolate::worker_loop(wa.njobs, wa.offset, wa.stride, wa.start, &wa.skip, &wa.ckpt, &wa.progress, 6, |j, agg| ctx.run_job(j, agg));
                }
                "c15" => {
                    let ctx = c15::IsoCtx::new(thorough);
                    isolate::worker_loop(wa.njobs, wa.offset, wa.stride, wa.start, &wa.skip, &wa.ckpt, &wa.progress, 6, |j, agg| ctx.run_job(j, agg));
                }
                "c15srv" => {
                    let ctx = c15::SrvCtx::new();
                    isolate::worker_loop(wa.njobs, wa.offset, wa.stride, wa.start, &wa.skip, &wa.ckpt, &wa.progress, 6, |j, agg| ctx.run_job(j, agg));
                }
                k => {
                    eprintln!("MACHINERY-ERROR unknown iso-worker kind {k}");
                    std::process::exit(2)
                }
            }
        }
        "run" => {
            let id = args[2].clone();
            let mut tier = "quick".to_string();
            let mut seed = 0u64;
            let mut out = std::path::PathBuf::from("result.json");
            let mut i = 3;
            while i < args.len() {
                match args[i].as_str() {
                    "--tier" => {
                        tier = args[i + 1].clone();
                        i += 2
                    }
                    "--seed" => {
                        seed = args[i + 1].parse().unwrap_or(0);
                        i += 2
                    }
                    "--out" => {
                        out = args[i + 1].clone().into();
                        i += 2
                    }
                    _ => usage(),
                }
            }
            let level = match id.as_str() {
                "C09" | "C01" | "C11" | "C12" => "model_checking",
                "C08" | "C05" | "C04" | "C15" => "fault_enumeration",
                _ => "exploration",
            };
            let mut rep = Report::new(&id, level, &tier, seed);
            match id.as_str() {
                "C09" => c09::run(&mut rep),
                "C10" => c10::run(&mut rep),
                "C01" => c01::c01(&mut rep),
                "C11" => c01::c11(&mut rep),
                "C12" => c01::c12(&mut rep),
                "C17" => c17::run(&mut rep),
                "C04" => c04::run(&mut rep),
                "C05" => c05::run(&mut rep),
                "C15" => c15::run(&mut rep),
                "C07" => netchecks::c07(&mut rep),
                "C08" => netchecks::c08(&mut rep),
                "C02" => clonechecks::c02(&mut rep),
                "C03" => clonechecks::c03(&mut rep),
                "C06" => clonechecks::c06(&mut rep),
                "C13" => clonechecks::c13(&mut rep),
                _ => {
                    eprintln!("MACHINERY-ERROR unknown property {id}");
                    std::process::exit(2)
                }
            }
            rep.finish(&out);
        }
        "replay" => {
            let id = args[2].clone();
            let v: serde_json::Value = serde_json::from_slice(&std::fs::read(&args[3]).expect("read replay")).expect("json");
            let detail = if v.get("detail").is_some() { v["detail"].clone() } else { v.clone() };
            let still = match id.as_str() {
                "C09" => c09::replay(&detail),
                "C10" => c10::replay(&detail),
                "C07" | "C08" => netchecks::replay(&id, &detail),
                "C17" => c17::replay(&detail),
                "C04" => c04::replay(&detail),
                "C05" => c05::replay(&detail),
                "C15" => c15::replay(&detail),
                "C01" | "C11" | "C12" => c01::replay(&id, &detail),
                "C02" | "C03" | "C06" | "C13" => clonechecks::replay(&id, &detail),
                _ => {
                    eprintln!("MACHINERY-ERROR no replay for {id}");
                    std::process::exit(2)
                }
            };
            if still {
                println!("replay: violation reproduces");
                std::process::exit(1);
            }
            println!("replay: no violation");
        }
        _ => usage(),
    }
}
