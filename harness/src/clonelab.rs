//! Library-level clone laboratory (levels L0/L1 of DESIGN.md 4): the flow of `clone_archive`
//! re-assembled from bitar's public API over instrumented in-memory devices, plus the reference
//! clone model (3.5) and the oracles shared by C02, C03, C05, C06 and C13.
use crate::memdev::*;
use crate::refchunk::*;
use crate::rep::*;
use async_trait::async_trait;
use bitar::archive_reader::{ArchiveReader, IoReader};
use bitar::{Archive, ChunkIndex, ChunkOffset, CloneOutput, Compression};
use blake2::{Blake2b512, Digest};
use bytes::Bytes;
use futures_util::stream::Stream;
use futures_util::StreamExt;
use serde_json::{json, Value};
use std::collections::{BTreeMap, BTreeSet, HashMap};
use std::io::Cursor;
use std::pin::Pin;
use std::sync::{Arc, Mutex};

// ------------------------------------------------------------------ archives

#[derive(Clone, Debug, PartialEq, Eq, Hash)]
pub enum Comp {
    None,
    Brotli(u32),
    Zstd(u32),
    Lzma(u32),
}
impl Comp {
    pub fn to_bitar(&self) -> Option<Compression> {
        match self {
            Comp::None => None,
            Comp::Brotli(l) => Some(Compression::brotli(*l).unwrap()),
            Comp::Zstd(l) => Some(Compression::zstd(*l).unwrap()),
            Comp::Lzma(l) => Some(Compression::lzma(*l).unwrap()),
        }
    }
    pub fn cli(&self) -> Vec<String> {
        match self {
            Comp::None => vec!["--compression".into(), "none".into()],
            Comp::Brotli(l) => vec!["--compression".into(), "brotli".into(), "--compression-level".into(), l.to_string()],
            Comp::Zstd(l) => vec!["--compression".into(), "zstd".into(), "--compression-level".into(), l.to_string()],
            Comp::Lzma(l) => vec!["--compression".into(), "lzma".into(), "--compression-level".into(), l.to_string()],
        }
    }
}

/// An archive written by the real library writer, plus what the real reader reports about it.
#[derive(Clone, Debug)]
pub struct Arch {
    pub cfg: Cfg,
    pub hash_len: usize,
    pub comp: Comp,
    pub source: Vec<u8>,
    pub bytes: Vec<u8>,
    pub header_size: usize,
    /// source chunks in source order: (offset, len)
    pub src_chunks: Vec<(usize, usize)>,
    /// descriptors in archive order: (absolute archive offset, stored size, source size)
    pub descs: Vec<(u64, usize, usize)>,
    /// descriptor index per source chunk
    pub order: Vec<usize>,
}

pub fn new_rt() -> tokio::runtime::Runtime {
    tokio::runtime::Builder::new_current_thread().enable_all().build().unwrap()
}

/// Build an archive with bitar's library writer (`create_archive`) in memory.
pub fn build_arch(rt: &tokio::runtime::Runtime, cfg: &Cfg, hash_len: usize, comp: &Comp, source: &[u8], buffers: usize) -> Result<Arch, String> {
    let opts = bitar::api::compress::CreateArchiveOptions {
        chunker_config: cfg.to_bitar(),
        num_chunk_buffers: buffers,
        chunk_hash_length: hash_len,
        temporary_file_override: None,
        compression: comp.to_bitar(),
        metadata: BTreeMap::new(),
    };
    let bytes = rt.block_on(async {
        let mut out: Vec<u8> = vec![];
        bitar::api::compress::create_archive(source, &mut out, &opts).await.map_err(|e| format!("create_archive: {e}"))?;
        Ok::<Vec<u8>, String>(out)
    })?;
    arch_from_bytes(cfg, hash_len, comp, source, bytes)
}

pub fn arch_from_bytes(cfg: &Cfg, hash_len: usize, comp: &Comp, source: &[u8], bytes: Vec<u8>) -> Result<Arch, String> {
    let reader = IoReader::new(Cursor::new(bytes.clone()));
    let archive = drive_ready(Archive::try_init(reader))?.map_err(|e| format!("try_init: {e}"))?;
    let mut src_chunks = vec![];
    let mut order = vec![];
    let descs: Vec<(u64, usize, usize)> = archive.chunk_descriptors().iter().map(|d| (d.archive_offset, d.archive_size, d.source_size as usize)).collect();
    for (off, cd) in archive.iter_source_chunks() {
        src_chunks.push((off as usize, cd.source_size as usize));
        let idx = archive.chunk_descriptors().iter().position(|d| d.checksum == cd.checksum && d.archive_offset == cd.archive_offset).unwrap();
        order.push(idx);
    }
    Ok(Arch { cfg: *cfg, hash_len, comp: comp.clone(), source: source.to_vec(), header_size: archive.header_size(), bytes, src_chunks, descs, order })
}

/// Poll a future that must complete without ever being Pending (in-memory, no runtime).
pub fn drive_ready<F: std::future::Future>(fut: F) -> Result<F::Output, String> {
    let mut fut = std::pin::pin!(fut);
    let waker = futures_util::task::noop_waker();
    let mut cx = std::task::Context::from_waker(&waker);
    for _ in 0..1000 {
        if let std::task::Poll::Ready(r) = fut.as_mut().poll(&mut cx) {
            return Ok(r);
        }
    }
    Err("future pending on in-memory devices".into())
}

// ------------------------------------------------------------------ recording reader

#[derive(Clone, Debug, PartialEq, Eq)]
pub enum RecOp {
    ReadAt(u64, usize),
    ReadChunks(Vec<(u64, usize)>),
}

pub struct RecReader {
    inner: IoReader<Cursor<Vec<u8>>>,
    pub log: Arc<Mutex<Vec<RecOp>>>,
}
impl RecReader {
    pub fn new(bytes: Vec<u8>) -> Self {
        Self { inner: IoReader::new(Cursor::new(bytes)), log: Arc::new(Mutex::new(vec![])) }
    }
}
#[async_trait]
impl ArchiveReader for RecReader {
    type Error = std::io::Error;
    async fn read_at<'a>(&'a mut self, offset: u64, size: usize) -> Result<Bytes, Self::Error> {
        self.log.lock().unwrap().push(RecOp::ReadAt(offset, size));
        self.inner.read_at(offset, size).await
    }
    fn read_chunks<'a>(&'a mut self, chunks: Vec<ChunkOffset>) -> Pin<Box<dyn Stream<Item = Result<Bytes, Self::Error>> + Send + 'a>> {
        self.log.lock().unwrap().push(RecOp::ReadChunks(chunks.iter().map(|c| (c.offset, c.size)).collect()));
        self.inner.read_chunks(chunks)
    }
}

// ------------------------------------------------------------------ the flow

#[derive(Clone, Debug)]
pub struct Scenario {
    /// prior content of the output (None = output did not exist)
    pub prior: Option<Vec<u8>>,
    pub seed_output: bool,
    pub seeds: Vec<Vec<u8>>,
    pub fault: Fault,
    pub verify_output: bool,
}

#[derive(Clone, Debug)]
pub enum Outcome {
    Ok,
    Err(String),
    Crashed,
    Panic(String),
}

#[derive(Clone, Debug)]
pub struct Observed {
    pub outcome: Outcome,
    pub dev: Vec<u8>,
    pub log: Vec<Op>,
    pub reads: Vec<RecOp>,
}

/// Mirror of `clone_archive` (src/clone_cmd.rs) for a regular-file output, using only bitar's
/// public API; verification runs inline instead of on the blocking pool.
async fn clone_flow(reader: RecReader, mut out: MemDev, sc: &Scenario) -> Result<(), String> {
    let mut archive = Archive::try_init(reader).await.map_err(|e| format!("try_init: {e}"))?;
    let clone_index = archive.build_source_index();
    let config = archive.chunker_config().clone();
    let hash_len = archive.chunk_hash_length();
    out.mark("scan");
    let output_index = if sc.seed_output {
        let mut idx = ChunkIndex::new_empty(hash_len);
        let mut st = config.new_chunker(&mut out);
        while let Some(r) = st.next().await {
            let (offset, chunk) = r.map_err(|e| format!("scan output: {e}"))?;
            let (hash, chunk) = chunk.verify().into_parts();
            idx.add_chunk(hash, chunk.len(), &[offset]);
        }
        drop(st);
        Some(idx)
    } else {
        None
    };
    let marker = out.clone();
    let mut output = CloneOutput::new(out, clone_index);
    marker.mark("reorder");
    if let Some(idx) = output_index {
        output.reorder_in_place(idx).await.map_err(|e| format!("reorder: {e}"))?;
    }
    marker.mark("seeds");
    for seed in &sc.seeds {
        let mut st = config.new_chunker(&seed[..]);
        while let Some(r) = st.next().await {
            let (_o, chunk) = r.map_err(|e| format!("seed: {e}"))?;
            output.feed(&chunk.verify()).await.map_err(|e| format!("feed seed: {e}"))?;
        }
    }
    marker.mark("fetch");
    {
        let mut stream = archive.chunk_stream(output.chunks());
        while let Some(r) = stream.next().await {
            let cc = r.map_err(|e| format!("read archive: {e}"))?;
            let v = cc.decompress().map_err(|e| format!("decompress: {e}"))?.verify().map_err(|e| format!("verify: {e}"))?;
            output.feed(&v).await.map_err(|e| format!("feed: {e}"))?;
        }
    }
    let mut out = output.into_inner();
    marker.mark("resize");
    // the CLI flushes nothing explicitly; tokio's File::set_len waits for the in-flight write.
    // On the in-memory device writes are synchronous, so the resize is immediate.
    use tokio::io::AsyncWriteExt;
    out.flush().await.map_err(|e| format!("flush: {e}"))?;
    out.set_len(archive.total_source_size());
    if sc.verify_output {
        marker.mark("verify");
        let dev = marker.st.lock().unwrap().bytes.clone();
        let sum = Blake2b512::digest(&dev);
        if sum[..] != archive.source_checksum().slice()[..] {
            return Err("Checksum mismatch".into());
        }
    }
    Ok(())
}

pub fn run_scenario(arch: &Arch, sc: &Scenario) -> Observed {
    let reader = RecReader::new(arch.bytes.clone());
    let rlog = reader.log.clone();
    let dev = MemDev::new(sc.prior.clone().unwrap_or_default()).with_fault(sc.fault);
    let h = dev.handle();
    let outcome = match catch(|| drive(clone_flow(reader, dev, sc), &h)) {
        Err(p) => Outcome::Panic(p),
        Ok(Err(e)) => Outcome::Err(format!("machinery: {e}")),
        Ok(Ok(None)) => Outcome::Crashed,
        Ok(Ok(Some(Ok(())))) => Outcome::Ok,
        Ok(Ok(Some(Err(e)))) => Outcome::Err(e),
    };
    let st = h.lock().unwrap();
    let reads = rlog.lock().unwrap().clone();
    Observed { outcome, dev: st.bytes.clone(), log: st.log.clone(), reads }
}

// ------------------------------------------------------------------ reference clone model

pub fn b2(data: &[u8]) -> [u8; 64] {
    let mut o = [0u8; 64];
    o.copy_from_slice(&Blake2b512::digest(data));
    o
}

pub struct Model {
    /// source chunk locations (offset, content)
    pub src: Vec<(usize, Vec<u8>)>,
    /// offsets of source chunks already in place in the prior output
    pub in_place: BTreeSet<usize>,
    /// contents available from prior output (when used as seed) or seeds
    pub available: BTreeSet<Vec<u8>>,
    /// expected chunk ranges to fetch from the archive: (absolute offset, stored size)
    pub fetch: Vec<(u64, usize)>,
    /// true if the reference and the real chunker disagree somewhere in this scenario or hashes collide
    pub unusable: Option<String>,
}

pub fn model(arch: &Arch, sc: &Scenario) -> Model {
    let mut unusable = None;
    let src: Vec<(usize, Vec<u8>)> = arch.src_chunks.iter().map(|&(o, l)| (o, arch.source[o..o + l].to_vec())).collect();
    let refsrc = ref_cuts(&arch.cfg, &arch.source);
    if refsrc != arch.src_chunks.iter().map(|&(o, l)| o + l).collect::<Vec<_>>() {
        unusable = Some("archive chunking differs from the reference chunking of the source".to_string());
    }
    let bc = arch.cfg.to_bitar();
    let mut chunk_of = |data: &[u8], what: &str| -> Vec<(usize, Vec<u8>)> {
        let cuts = ref_cuts(&arch.cfg, data);
        if arch.cfg.algo == Algo::Buz {
            // known finding F5: do not build expectations on inputs where the real chunker deviates
            if let Ok(rc) = real_cuts(&bc, data) {
                if rc != cuts {
                    unusable = Some(format!("reference and real chunking differ on {what} (F5 input class)"));
                }
            }
        }
        let mut v = vec![];
        let mut s = 0;
        for e in cuts {
            v.push((s, data[s..e].to_vec()));
            s = e;
        }
        v
    };
    let mut available: BTreeSet<Vec<u8>> = BTreeSet::new();
    let mut in_place = BTreeSet::new();
    if sc.seed_output {
        if let Some(p) = &sc.prior {
            let pc = chunk_of(p, "prior output");
            for (o, c) in &pc {
                available.insert(c.clone());
                if src.iter().any(|(so, sc2)| so == o && sc2 == c) {
                    in_place.insert(*o);
                }
            }
        }
    }
    for s in &sc.seeds {
        for (_o, c) in chunk_of(s, "seed") {
            available.insert(c);
        }
    }
    // truncated-hash collisions between distinct contents make any clone wrong by construction (A1)
    if arch.hash_len < 16 {
        let mut seen: HashMap<Vec<u8>, Vec<u8>> = HashMap::new();
        for c in src.iter().map(|(_, c)| c).chain(available.iter()) {
            let h = b2(c)[..arch.hash_len].to_vec();
            if let Some(prev) = seen.get(&h) {
                if prev != c {
                    unusable = Some("truncated hash collision inside scenario (assumption A1)".into());
                }
            } else {
                seen.insert(h, c.clone());
            }
        }
    }
    let mut fetch = vec![];
    for (di, &(aoff, asize, _ss)) in arch.descs.iter().enumerate() {
        let first = arch.order.iter().position(|&d| d == di).unwrap();
        let content = &src[first].1;
        if !available.contains(content) {
            fetch.push((aoff, asize));
        }
    }
    Model { src, in_place, available, fetch, unusable }
}

// ------------------------------------------------------------------ oracles

pub fn scenario_json(arch: &Arch, sc: &Scenario) -> Value {
    json!({
        "cfg": arch.cfg.json(), "hash_len": arch.hash_len, "comp": format!("{:?}", arch.comp),
        "source": hex(&arch.source), "prior": sc.prior.as_ref().map(|p| hex(p)), "seed_output": sc.seed_output,
        "seeds": sc.seeds.iter().map(|s| hex(s)).collect::<Vec<_>>(), "fault": format!("{:?}", sc.fault),
    })
}

/// C02/C03: a run on valid inputs succeeds and leaves exactly the source.
pub fn oracle_output(arch: &Arch, sc: &Scenario, obs: &Observed, agg: &mut Agg) {
    match &obs.outcome {
        Outcome::Ok => {
            if obs.dev != arch.source {
                agg.viol("success-with-wrong-output", || {
                    let mut j = scenario_json(arch, sc);
                    j["output"] = json!(hex(&obs.dev));
                    j
                });
            }
        }
        Outcome::Panic(p) => {
            let site = panic_site(p);
            agg.viol(&format!("panic@{site}"), || {
                let mut j = scenario_json(arch, sc);
                j["panic"] = json!(p);
                j
            });
        }
        Outcome::Err(e) => {
            agg.viol("valid-clone-failed", || {
                let mut j = scenario_json(arch, sc);
                j["error"] = json!(e);
                j
            });
        }
        Outcome::Crashed => {}
    }
}

/// C03 "no reusable chunk is destroyed before it has been copied or buffered": the FIRST read
/// the reorder executor issues for a location (the copy or the buffering of that chunk) returns
/// the bytes the prior output held there. Later re-reads of a location whose chunk has already
/// been copied (a redundant buffering the planner may emit) are not constrained by the property.
pub fn oracle_reads_intact(arch: &Arch, sc: &Scenario, obs: &Observed, agg: &mut Agg) {
    let prior = sc.prior.clone().unwrap_or_default();
    let mut phase = "";
    let mut seen: BTreeSet<(usize, usize)> = BTreeSet::new();
    for op in &obs.log {
        match op {
            Op::Mark(m) => phase = m,
            Op::Read { offset, data } if phase == "reorder" => {
                let o = *offset as usize;
                if !seen.insert((o, data.len())) {
                    continue;
                }
                if o + data.len() > prior.len() || prior[o..o + data.len()] != data[..] {
                    agg.viol("reusable-chunk-destroyed-before-copied", || {
                        let mut j = scenario_json(arch, sc);
                        j["read_offset"] = json!(o);
                        j["read_len"] = json!(data.len());
                        j
                    });
                    return;
                }
            }
            _ => {}
        }
    }
}

/// C13: every write is one source chunk at one of its offsets, at most once, never in place,
/// never at or beyond the source length.
pub fn oracle_writes(arch: &Arch, sc: &Scenario, m: &Model, obs: &Observed, agg: &mut Agg) {
    let mut written: BTreeSet<usize> = BTreeSet::new();
    let loc: HashMap<usize, &Vec<u8>> = m.src.iter().map(|(o, c)| (*o, c)).collect();
    for op in &obs.log {
        if let Op::Write { offset, data } = op {
            let o = *offset as usize;
            let class = if o + data.len() > arch.source.len() {
                Some("write-beyond-source-length")
            } else if loc.get(&o).map(|c| c[..] == data[..]) != Some(true) {
                Some("write-not-a-source-chunk-at-its-offset")
            } else if m.in_place.contains(&o) {
                Some("in-place-location-rewritten")
            } else if !written.insert(o) {
                Some("location-written-twice")
            } else {
                None
            };
            if let Some(c) = class {
                agg.viol(c, || {
                    let mut j = scenario_json(arch, sc);
                    j["write_offset"] = json!(o);
                    j["write_len"] = json!(data.len());
                    j
                });
                return;
            }
        }
    }
    agg.add("writes_observed", written.len() as u64);
    agg.add("in_place_locations", m.in_place.len() as u64);
}

/// C06: chunk data requested == stored ranges of missing chunks, each once; the rest is header.
pub fn oracle_fetch(arch: &Arch, sc: &Scenario, m: &Model, obs: &Observed, agg: &mut Agg) {
    let mut got: Vec<(u64, usize)> = vec![];
    let mut bad_read_at = None;
    for r in &obs.reads {
        match r {
            RecOp::ReadAt(o, s) => {
                if *o as usize + *s > arch.header_size {
                    bad_read_at = Some((*o, *s));
                }
            }
            RecOp::ReadChunks(v) => got.extend(v.iter().copied()),
        }
    }
    let mut want = m.fetch.clone();
    let mut g2 = got.clone();
    want.sort();
    g2.sort();
    let detail = |extra: Value| {
        let mut j = scenario_json(arch, sc);
        j["requested"] = json!(got);
        j["expected"] = json!(m.fetch);
        j["extra"] = extra;
        j
    };
    if let Some(b) = bad_read_at {
        agg.viol("read-outside-header-and-chunks", || detail(json!(b)));
    } else if g2 != want {
        let mut dedup = g2.clone();
        dedup.dedup();
        let class = if dedup.len() != g2.len() {
            "chunk-fetched-twice"
        } else if g2.iter().any(|x| !want.contains(x)) {
            "available-chunk-fetched"
        } else {
            "missing-chunk-not-fetched"
        };
        agg.viol(class, || detail(json!(null)));
    }
    agg.add("chunks_fetched", got.len() as u64);
    agg.add("chunks_reused", (arch.descs.len() - m.fetch.len()) as u64);
}

/// Fingerprint of what happened, for distinct-outcome counting.
pub fn obs_fp(obs: &Observed) -> u64 {
    let mut v = vec![];
    for op in &obs.log {
        match op {
            Op::Write { offset, data } => {
                v.push(1u8);
                v.extend((*offset as u32).to_le_bytes());
                v.extend((data.len() as u32).to_le_bytes());
            }
            Op::Read { offset, data } => {
                v.push(2u8);
                v.extend((*offset as u32).to_le_bytes());
                v.extend((data.len() as u32).to_le_bytes());
            }
            _ => {}
        }
    }
    for r in &obs.reads {
        if let RecOp::ReadChunks(c) = r {
            for (o, s) in c {
                v.extend((*o as u32).to_le_bytes());
                v.extend((*s as u32).to_le_bytes());
            }
        }
    }
    fnv(&v)
}

pub fn scenario_from_json(v: &Value) -> (Cfg, usize, Comp, Vec<u8>, Scenario) {
    let cfg = Cfg::from_json(&v["cfg"]);
    let hash_len = v["hash_len"].as_u64().unwrap() as usize;
    let comp = match v["comp"].as_str().unwrap() {
        "None" => Comp::None,
        s if s.starts_with("Brotli") => Comp::Brotli(s[7..s.len() - 1].parse().unwrap()),
        s if s.starts_with("Zstd") => Comp::Zstd(s[5..s.len() - 1].parse().unwrap()),
        s => Comp::Lzma(s[5..s.len() - 1].parse().unwrap()),
    };
    let source = unhex(v["source"].as_str().unwrap());
    let sc = Scenario {
        prior: v["prior"].as_str().map(unhex),
        seed_output: v["seed_output"].as_bool().unwrap_or(false),
        seeds: v["seeds"].as_array().map(|a| a.iter().map(|s| unhex(s.as_str().unwrap())).collect()).unwrap_or_default(),
        fault: Fault::None,
        verify_output: false,
    };
    (cfg, hash_len, comp, source, sc)
}
