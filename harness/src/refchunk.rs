//! Reference chunker: a deliberately slow, non-incremental statement of the chunking rule,
//! written independently of bitar (DESIGN.md 3.2). For each candidate cut position the hash
//! is recomputed from the trailing window bytes alone.
use crate::buztable::T;
use bitar::chunker::{Config, FilterBits, FilterConfig};
use futures_util::{FutureExt, StreamExt};

const SEED: u32 = 0x1032_4195;

#[derive(Clone, Copy, Debug, PartialEq, Eq, Hash, PartialOrd, Ord)]
pub enum Algo {
    Fixed,
    Roll,
    Buz,
}

#[derive(Clone, Copy, Debug, PartialEq, Eq, Hash)]
pub struct Cfg {
    pub algo: Algo,
    pub w: usize,
    pub min: usize,
    pub max: usize,
    pub bits: u32,
}

impl Cfg {
    pub fn fixed(n: usize) -> Self {
        Cfg { algo: Algo::Fixed, w: 0, min: 0, max: n, bits: 0 }
    }
    pub fn new(algo: Algo, w: usize, min: usize, max: usize, bits: u32) -> Self {
        Cfg { algo, w, min, max, bits }
    }
    /// Valid per the property statements: FixedSize n>=1; window>=1, min<=max, window<=max, bits 1..=24.
    pub fn valid(&self) -> bool {
        match self.algo {
            Algo::Fixed => self.max >= 1,
            _ => self.w >= 1 && self.min <= self.max && self.w <= self.max && (1..=24).contains(&self.bits),
        }
    }
    pub fn to_bitar(&self) -> Config {
        let fc = FilterConfig {
            filter_bits: FilterBits::from_bits(self.bits),
            min_chunk_size: self.min,
            max_chunk_size: self.max,
            window_size: self.w,
        };
        match self.algo {
            Algo::Fixed => Config::FixedSize(self.max),
            Algo::Roll => Config::RollSum(fc),
            Algo::Buz => Config::BuzHash(fc),
        }
    }
    pub fn label(&self) -> String {
        match self.algo {
            Algo::Fixed => format!("Fixed({})", self.max),
            Algo::Roll => format!("RollSum(w={},min={},max={},bits={})", self.w, self.min, self.max, self.bits),
            Algo::Buz => format!("BuzHash(w={},min={},max={},bits={})", self.w, self.min, self.max, self.bits),
        }
    }
    pub fn json(&self) -> serde_json::Value {
        serde_json::json!({"algo": format!("{:?}", self.algo), "w": self.w, "min": self.min, "max": self.max, "bits": self.bits})
    }
    pub fn from_json(v: &serde_json::Value) -> Self {
        let algo = match v["algo"].as_str().unwrap() {
            "Fixed" => Algo::Fixed,
            "Roll" => Algo::Roll,
            _ => Algo::Buz,
        };
        Cfg {
            algo,
            w: v["w"].as_u64().unwrap() as usize,
            min: v["min"].as_u64().unwrap() as usize,
            max: v["max"].as_u64().unwrap() as usize,
            bits: v["bits"].as_u64().unwrap() as u32,
        }
    }
}

/// BuzHash of a full window: XOR of rotl(T[b_i]^seed, w-1-i).
pub fn buz(win: &[u8]) -> u32 {
    let w = win.len();
    let mut h = 0u32;
    for (i, &b) in win.iter().enumerate() {
        h ^= (T[b as usize] ^ SEED).rotate_left(((w - 1 - i) % 32) as u32);
    }
    h
}

/// bup/rsync rollsum of the window, zero padded on the left to w bytes.
pub fn roll(win: &[u8], w: usize) -> u32 {
    let pad = w - win.len();
    let mut s1 = 0u32;
    let mut s2 = 0u32;
    for j in 0..w {
        let b = if j < pad { 0u32 } else { win[j - pad] as u32 };
        s1 = s1.wrapping_add(b + 31);
        s2 = s2.wrapping_add(((w - j) as u32).wrapping_mul(b + 31));
    }
    let w32 = w as u32;
    let k = (31u32.wrapping_mul(w32).wrapping_mul(w32.wrapping_sub(1)))
        .wrapping_sub(31u32.wrapping_mul(((w as u64 * (w as u64 + 1) / 2) & 0xffff_ffff) as u32));
    s2 = s2.wrapping_add(k);
    (s1 << 16) | (s2 & 0xffff)
}

/// Reference chunking: end offsets of all chunks (last one = data.len()), quirk-free rule.
pub fn ref_cuts(c: &Cfg, data: &[u8]) -> Vec<usize> {
    let n = data.len();
    let mut cuts = vec![];
    if c.algo == Algo::Fixed {
        let mut s = 0;
        while s < n {
            let e = (s + c.max).min(n);
            cuts.push(e);
            s = e;
        }
        return cuts;
    }
    let mask: u32 = if c.bits >= 32 { !0 } else { (1u32 << c.bits) - 1 };
    let (w, min, max) = (c.w, c.min, c.max);
    let mut s = 0usize;
    while s < n {
        let mut cut = None;
        let mut l = 1usize;
        loop {
            if s + l > n {
                break;
            }
            let p = s + l;
            let mut candidate = l >= std::cmp::max(min, 1);
            if c.algo == Algo::Buz && p < w + 1 {
                // no position is examined before one full window has been rolled (stream start only)
                candidate = false;
            }
            if candidate {
                let lo = p.saturating_sub(w);
                let h = match c.algo {
                    Algo::Buz => buz(&data[lo..p]),
                    _ => roll(&data[lo..p], w),
                };
                if h & mask == mask {
                    cut = Some(l);
                    break;
                }
            }
            if l >= max {
                cut = Some(l);
                break;
            }
            l += 1;
        }
        match cut {
            Some(l) => {
                cuts.push(s + l);
                s += l;
            }
            None => {
                cuts.push(n);
                s = n;
            }
        }
    }
    cuts
}

/// Clean-room simulation of BuzHash chunking *with* the implementation's repeat-skip counter
/// (initial state last=0, repeated=0; init bytes not counted). Used only to classify a
/// disagreement as known finding F5. Returns (cuts, bad_skip) where bad_skip says that at least
/// one byte was skipped while the window was not uniform (the defect manifesting).
pub fn quirk_cuts(c: &Cfg, data: &[u8]) -> (Vec<usize>, bool) {
    assert!(c.algo == Algo::Buz);
    let (w, min, max) = (c.w, c.min, c.max);
    let mask: u32 = if c.bits >= 32 { !0 } else { (1u32 << c.bits) - 1 };
    let n = data.len();
    let mut ring: std::collections::VecDeque<u8> = Default::default();
    let (mut last, mut rep) = (0u8, 0usize);
    let mut bad_skip = false;
    let mut inited = 0usize;
    let limit = if min >= w { min - w } else { 0 };
    let mut cuts = vec![];
    let mut s = 0usize;
    while s < n {
        let mut off = 0usize;
        while inited < w && s + off < n {
            ring.push_back(data[s + off]);
            inited += 1;
            off += 1;
        }
        if limit > 0 && off < limit {
            off = std::cmp::min(limit - 1, n - s);
        }
        let mut push = |b: u8, ring: &mut std::collections::VecDeque<u8>| {
            if b == last {
                rep += 1;
            } else {
                rep = 0;
                last = b;
            }
            if rep < w {
                ring.push_back(b);
                if ring.len() > w {
                    ring.pop_front();
                }
            } else if !ring.iter().all(|&x| x == b) {
                bad_skip = true;
            }
        };
        if min > 0 && off < min {
            let end = std::cmp::min(min - 1, n - s);
            while off < end {
                push(data[s + off], &mut ring);
                off += 1;
            }
        }
        let mut cut = None;
        let lim = std::cmp::min(max, n - s);
        while off < lim {
            push(data[s + off], &mut ring);
            off += 1;
            let v: Vec<u8> = ring.iter().copied().collect();
            if inited >= w && buz(&v) & mask == mask {
                cut = Some(off);
                break;
            }
        }
        if cut.is_none() && off >= max {
            cut = Some(off);
        }
        match cut {
            Some(l) => {
                cuts.push(s + l);
                s += l;
            }
            None => {
                cuts.push(n);
                s = n;
            }
        }
    }
    (cuts, bad_skip)
}

/// Real chunker, whole input delivered by one reader (a byte slice): (offset, bytes) per chunk.
pub fn real_chunks(cfg: &Config, data: &[u8]) -> Result<Vec<(u64, Vec<u8>)>, String> {
    crate::rep::catch(|| real_chunks_inner(cfg, data)).and_then(|r| r)
}

fn real_chunks_inner(cfg: &Config, data: &[u8]) -> Result<Vec<(u64, Vec<u8>)>, String> {
    let mut st = cfg.new_chunker(data);
    let mut v = vec![];
    let horizon = data.len() + 2;
    loop {
        match st.next().now_or_never() {
            None => return Err("chunker stream pending on an always-ready reader".into()),
            Some(None) => break,
            Some(Some(Err(e))) => return Err(format!("chunker error: {e}")),
            Some(Some(Ok((o, c)))) => {
                v.push((o, c.data().to_vec()));
                if v.len() > horizon {
                    return Err("chunker emitted more chunks than input bytes (horizon)".into());
                }
            }
        }
    }
    Ok(v)
}

pub fn real_cuts(cfg: &Config, data: &[u8]) -> Result<Vec<usize>, String> {
    Ok(real_chunks(cfg, data)?.iter().map(|(o, c)| *o as usize + c.len()).collect())
}

/// Check tiling (offsets contiguous from 0, concatenation == input) of a real chunk list.
pub fn tiling_ok(chunks: &[(u64, Vec<u8>)], data: &[u8]) -> bool {
    let mut pos = 0usize;
    for (o, c) in chunks {
        if *o as usize != pos || c.is_empty() || pos + c.len() > data.len() || data[pos..pos + c.len()] != c[..] {
            return false;
        }
        pos += c.len();
    }
    pos == data.len()
}

/// All strings over `alpha` of length exactly n, by index.
pub fn nth_string(alpha: &[u8], n: usize, mut idx: u64) -> Vec<u8> {
    let k = alpha.len() as u64;
    (0..n)
        .map(|_| {
            let b = alpha[(idx % k) as usize];
            idx /= k;
            b
        })
        .collect()
}
pub fn count_strings(alpha: &[u8], n: usize) -> u64 {
    (alpha.len() as u64).pow(n as u32)
}
