//! Subjects of the schedule explorer: the real CLI compress, the real library writer and the
//! real CLI clone, each closed into "files in a scratch dir -> future -> observation".
use crate::cli;
use crate::clonelab::*;
use crate::codec;
use crate::memdev::Fault;
use crate::refchunk::*;
use crate::rep::*;
use crate::sched::*;
use serde_json::{json, Value};
use std::path::Path;

pub fn cfg_cli_args(c: &Cfg) -> Vec<String> {
    match c.algo {
        Algo::Fixed => vec!["--fixed-size".into(), format!("{}B", c.max)],
        _ => vec![
            "--hash-chunking".into(),
            if c.algo == Algo::Roll { "RollSum".into() } else { "BuzHash".into() },
            "--rolling-window-size".into(),
            format!("{}B", c.w),
            "--min-chunk-size".into(),
            format!("{}B", c.min),
            "--max-chunk-size".into(),
            format!("{}B", c.max),
            "--avg-chunk-size".into(),
            // FilterBits::from_size(s) = 30 - leading_zeros(s): bits b <=> size 2^(b+1)
            format!("{}B", 1u64 << (c.bits + 1)),
        ],
    }
}

/// Can this configuration be expressed on the command line? (avg must lie within [min, max])
pub fn cli_expressible(c: &Cfg) -> bool {
    match c.algo {
        Algo::Fixed => true,
        _ => {
            let avg = 1usize << (c.bits + 1);
            c.min <= avg && avg <= c.max
        }
    }
}

pub struct CompressSubject {
    pub judge: Judge,
    pub kind: String, // "cli-compress" | "lib-compress"
    pub cfg: Cfg,
    pub comp: Comp,
    pub hash_len: usize,
    pub buffers: usize,
    pub source: Vec<u8>,
    pub spec: Value,
}

/// Two library writers alive at once in one task (`join`): whatever the two calls share outside their
/// arguments (a temp path, a static buffer) shows as an archive that differs from the one written alone.
pub struct PairSubject {
    pub judge: Judge,
    pub cfg: Cfg,
    pub comp: Comp,
    pub hash_len: usize,
    pub buffers: usize,
    pub sources: [Vec<u8>; 2],
    pub spec: Value,
}

pub struct CloneSubject {
    pub cfg: Cfg,
    pub comp: Comp,
    pub hash_len: usize,
    pub buffers: usize,
    pub source: Vec<u8>,
    pub seed: Option<Vec<u8>>,
    pub prior: Option<Vec<u8>>,
    pub seed_output: bool,
    pub verify_output: bool,
    pub spec: Value,
}

pub fn comp_from_str(s: &str) -> Comp {
    match s {
        "None" => Comp::None,
        s if s.starts_with("Brotli") => Comp::Brotli(s[7..s.len() - 1].parse().unwrap()),
        s if s.starts_with("Zstd") => Comp::Zstd(s[5..s.len() - 1].parse().unwrap()),
        s => Comp::Lzma(s[5..s.len() - 1].parse().unwrap()),
    }
}

pub fn compress_spec(kind: &str, cfg: &Cfg, comp: &Comp, hash_len: usize, buffers: usize, source: &[u8]) -> Value {
    json!({"kind": kind, "cfg": cfg.json(), "comp": format!("{:?}", comp), "hash_len": hash_len, "buffers": buffers, "source": hex(source)})
}
pub fn pair_spec(cfg: &Cfg, comp: &Comp, hash_len: usize, buffers: usize, source: &[u8], source2: &[u8]) -> Value {
    json!({"kind": "lib-compress-pair", "cfg": cfg.json(), "comp": format!("{:?}", comp), "hash_len": hash_len, "buffers": buffers, "source": hex(source), "source2": hex(source2)})
}
pub fn clone_spec(cfg: &Cfg, comp: &Comp, hash_len: usize, buffers: usize, source: &[u8], seed: Option<&[u8]>, prior: Option<&[u8]>, seed_output: bool, verify_output: bool) -> Value {
    json!({"kind": "cli-clone", "cfg": cfg.json(), "comp": format!("{:?}", comp), "hash_len": hash_len, "buffers": buffers, "source": hex(source),
        "seed": seed.map(hex), "prior": prior.map(hex), "seed_output": seed_output, "verify_output": verify_output})
}

pub fn subject_from_spec(v: &Value) -> Box<dyn Subject> {
    let cfg = Cfg::from_json(&v["cfg"]);
    let comp = comp_from_str(v["comp"].as_str().unwrap());
    let hash_len = v["hash_len"].as_u64().unwrap() as usize;
    let buffers = v["buffers"].as_u64().unwrap() as usize;
    let source = unhex(v["source"].as_str().unwrap());
    match v["kind"].as_str().unwrap() {
        "cli-clone" => Box::new(CloneSubject {
            cfg,
            comp,
            hash_len,
            buffers,
            source,
            seed: v["seed"].as_str().map(unhex),
            prior: v["prior"].as_str().map(unhex),
            seed_output: v["seed_output"].as_bool().unwrap_or(false),
            verify_output: v["verify_output"].as_bool().unwrap_or(false),
            spec: v.clone(),
        }),
        "lib-compress-pair" => Box::new(PairSubject {
            judge: Judge::from_str(v["judge"].as_str().unwrap_or("nothing")),
            cfg,
            comp,
            hash_len,
            buffers,
            sources: [source, unhex(v["source2"].as_str().unwrap())],
            spec: v.clone(),
        }),
        k => Box::new(CompressSubject { judge: Judge::from_str(v["judge"].as_str().unwrap_or("nothing")), kind: k.to_string(), cfg, comp, hash_len, buffers, source, spec: v.clone() }),
    }
}

/// What to judge about a produced archive: C11 judges the format, C01 the round trip and the
/// recorded size/checksum, C12 only that every run gives the same bytes.
#[derive(Clone, Copy, PartialEq, Eq, Debug)]
pub enum Judge {
    Format,
    RoundTrip,
    Nothing,
}
impl Judge {
    pub fn from_str(s: &str) -> Judge {
        match s {
            "format" => Judge::Format,
            "roundtrip" => Judge::RoundTrip,
            _ => Judge::Nothing,
        }
    }
    pub fn name(&self) -> &'static str {
        match self {
            Judge::Format => "format",
            Judge::RoundTrip => "roundtrip",
            Judge::Nothing => "nothing",
        }
    }
}

/// Judge an archive produced by a writer. Returns (class, detail) of the first problem.
pub fn judge_archive(bytes: &[u8], source: &[u8], cfg: &Cfg, comp: &Comp, hash_len: usize, metadata: &[(String, Vec<u8>)], mode: Judge) -> Option<(String, Value)> {
    match mode {
        Judge::Nothing => None,
        Judge::Format => {
            let req = requested(cfg, comp, hash_len, metadata, Some(ref_cuts(cfg, source)));
            let issues = codec::conformance(bytes, source, &req);
            if issues.is_empty() {
                return None;
            }
            // F5: boundaries deviating from the rule on BuzHash's known input class are judged by C09
            let only_cuts = issues.iter().all(|i| i.starts_with("cuts:"));
            if only_cuts && cfg.algo == Algo::Buz && real_cuts(&cfg.to_bitar(), source).ok() != Some(ref_cuts(cfg, source)) {
                return None;
            }
            let tag = issues[0].split(':').next().unwrap_or("format").to_string();
            Some((format!("archive-nonconforming-{tag}"), json!({"issues": issues, "archive_len": bytes.len()})))
        }
        Judge::RoundTrip => {
            // recorded size and checksum, read by the independent decoder
            match codec::decode(bytes) {
                Ok(d) => {
                    if d.dict.source_total_size != source.len() as u64 {
                        return Some(("recorded-source-size-wrong".into(), json!({"recorded": d.dict.source_total_size, "true": source.len()})));
                    }
                    if d.dict.source_checksum[..] != codec::blake2b512(source)[..] {
                        return Some(("recorded-source-checksum-wrong".into(), json!({"recorded": hex(&d.dict.source_checksum)})));
                    }
                }
                Err(e) => return Some(("archive-undecodable".into(), json!({"error": e, "archive_len": bytes.len()}))),
            }
            // round trip through the real reader (library clone into memory)
            match arch_from_bytes(cfg, hash_len, comp, source, bytes.to_vec()) {
                Err(e) => Some(("archive-unreadable".into(), json!({"error": e, "archive_len": bytes.len()}))),
                Ok(arch) => {
                    let sc = Scenario { prior: None, seed_output: false, seeds: vec![], fault: Fault::None, verify_output: true };
                    let obs = run_scenario(&arch, &sc);
                    match obs.outcome {
                        Outcome::Ok if obs.dev == source => None,
                        Outcome::Ok => Some(("roundtrip-wrong-output".into(), json!({"output": hex(&obs.dev)}))),
                        o => Some(("roundtrip-failed".into(), json!({"outcome": format!("{:?}", o), "archive_len": bytes.len()}))),
                    }
                }
            }
        }
    }
}

pub fn requested(cfg: &Cfg, comp: &Comp, hash_len: usize, metadata: &[(String, Vec<u8>)], cuts: Option<Vec<usize>>) -> codec::Requested {
    let params = match cfg.algo {
        Algo::Fixed => codec::Params { chunk_filter_bits: 0, min_chunk_size: 0, max_chunk_size: cfg.max as u32, rolling_hash_window_size: 0, chunk_hash_length: hash_len as u32, chunking_algorithm: 2 },
        a => codec::Params {
            chunk_filter_bits: cfg.bits,
            min_chunk_size: cfg.min as u32,
            max_chunk_size: cfg.max as u32,
            rolling_hash_window_size: cfg.w as u32,
            chunk_hash_length: hash_len as u32,
            chunking_algorithm: if a == Algo::Buz { 0 } else { 1 },
        },
    };
    let c = match comp {
        Comp::None => codec::Comp { compression: 0, compression_level: 0 },
        Comp::Lzma(l) => codec::Comp { compression: 1, compression_level: *l },
        Comp::Zstd(l) => codec::Comp { compression: 2, compression_level: *l },
        Comp::Brotli(l) => codec::Comp { compression: 3, compression_level: *l },
    };
    codec::Requested { params, comp: c, metadata: metadata.to_vec(), expected_cuts: cuts }
}

impl Subject for CompressSubject {
    fn describe(&self) -> Value {
        self.spec.clone()
    }
    fn setup(&self, dir: &Path) {
        std::fs::write(dir.join("src.bin"), &self.source).unwrap();
    }
    fn reset(&self, dir: &Path) {
        let _ = std::fs::remove_file(dir.join("out.cba"));
        let _ = std::fs::remove_file(dir.join("out..tmp"));
        let _ = std::fs::remove_file(dir.join("lib.tmp"));
        let _ = std::fs::remove_file(dir.join("out.at-return"));
    }
    fn future(&self, dir: &Path) -> BoxFut {
        let out = dir.join("out.cba");
        let src = dir.join("src.bin");
        if self.kind == "cli-compress" {
            let mut args: Vec<String> = vec!["bita".into(), "compress".into()];
            args.extend(cfg_cli_args(&self.cfg));
            args.extend(self.comp.cli());
            args.extend(["--hash-length".into(), self.hash_len.to_string(), "--buffered-chunks".into(), self.buffers.to_string(), "-i".into(), src.to_str().unwrap().into(), out.to_str().unwrap().into()]);
            let (opts, _) = cli::parse_opts(args).expect("parse compress args");
            let opts = match opts {
                cli::CommandOpts::Compress(o) => o,
                _ => unreachable!(),
            };
            Box::pin(async move { crate::compress_cmd::compress_cmd(opts).await.map_err(|e| format!("{e:#}")) })
        } else {
            let opts = bitar::api::compress::CreateArchiveOptions {
                chunker_config: self.cfg.to_bitar(),
                num_chunk_buffers: self.buffers,
                chunk_hash_length: self.hash_len,
                temporary_file_override: None,
                compression: self.comp.to_bitar(),
                metadata: Default::default(),
            };
            Box::pin(async move {
                let input = tokio::fs::File::open(&src).await.map_err(|e| e.to_string())?;
                let mut output = tokio::fs::File::create(&out).await.map_err(|e| e.to_string())?;
                bitar::api::compress::create_archive(input, &mut output, &opts).await.map_err(|e| format!("{e}"))?;
                // The archive "the writer produced" is what the output path holds when create_archive returns
                // (read here through another handle, in the same poll): a trailing write still in flight on the
                // blocking pool would make that depend on the schedule.
                let at_return = std::fs::read(&out).map_err(|e| e.to_string())?;
                std::fs::write(out.with_extension("at-return"), at_return).map_err(|e| e.to_string())?;
                use tokio::io::AsyncWriteExt;
                output.flush().await.map_err(|e| e.to_string())?;
                Ok(())
            })
        }
    }
    fn observe(&self, dir: &Path, result: &Result<(), String>) -> Observation {
        let at_return = dir.join("out.at-return");
        let bytes = if self.kind != "cli-compress" && at_return.exists() { std::fs::read(&at_return).unwrap_or_default() } else { std::fs::read(dir.join("out.cba")).unwrap_or_default() };
        let tmp_left = self.kind == "cli-compress" && dir.join("out..tmp").exists();
        let key = format!("{}|len={}|fnv={:016x}", if result.is_ok() { "ok" } else { "err" }, bytes.len(), fnv(&bytes));
        let violation = match result {
            Err(e) => Some((if e.starts_with("panic at") { format!("panic@{}", panic_site(e)) } else { "valid-compress-failed".to_string() }, json!({"error": e}))),
            Ok(()) => {
                if tmp_left {
                    Some(("temp-file-left-behind".into(), json!({})))
                } else {
                    judge_archive(&bytes, &self.source, &self.cfg, &self.comp, self.hash_len, &[], self.judge)
                }
            }
        };
        Observation { key, violation }
    }
}


impl Subject for PairSubject {
    fn describe(&self) -> Value {
        self.spec.clone()
    }
    fn setup(&self, dir: &Path) {
        let rt = new_rt();
        for (i, src) in self.sources.iter().enumerate() {
            std::fs::write(dir.join(format!("src{i}.bin")), src).unwrap();
            // the archive of each source written ALONE (in memory, plain runtime) is the reference
            let arch = build_arch(&rt, &self.cfg, self.hash_len, &self.comp, src, self.buffers).expect("reference archive");
            std::fs::write(dir.join(format!("ref{i}.cba")), &arch.bytes).unwrap();
        }
    }
    fn reset(&self, dir: &Path) {
        for i in 0..2 {
            let _ = std::fs::remove_file(dir.join(format!("out{i}.cba")));
        }
    }
    fn future(&self, dir: &Path) -> BoxFut {
        let mk = |i: usize| {
            let opts = bitar::api::compress::CreateArchiveOptions {
                chunker_config: self.cfg.to_bitar(),
                num_chunk_buffers: self.buffers,
                chunk_hash_length: self.hash_len,
                temporary_file_override: None,
                compression: self.comp.to_bitar(),
                metadata: Default::default(),
            };
            let src = dir.join(format!("src{i}.bin"));
            let out = dir.join(format!("out{i}.cba"));
            async move {
                let input = tokio::fs::File::open(&src).await.map_err(|e| e.to_string())?;
                let mut output = tokio::fs::File::create(&out).await.map_err(|e| e.to_string())?;
                bitar::api::compress::create_archive(input, &mut output, &opts).await.map_err(|e| format!("{e}"))?;
                use tokio::io::AsyncWriteExt;
                output.flush().await.map_err(|e| e.to_string())?;
                Ok::<(), String>(())
            }
        };
        let (a, b) = (mk(0), mk(1));
        Box::pin(async move {
            let (ra, rb) = futures_util::future::join(a, b).await;
            ra?;
            rb
        })
    }
    fn observe(&self, dir: &Path, result: &Result<(), String>) -> Observation {
        let outs: Vec<Vec<u8>> = (0..2).map(|i| std::fs::read(dir.join(format!("out{i}.cba"))).unwrap_or_default()).collect();
        let refs: Vec<Vec<u8>> = (0..2).map(|i| std::fs::read(dir.join(format!("ref{i}.cba"))).unwrap_or_default()).collect();
        let key = format!("{}|len={}+{}|fnv={:016x}+{:016x}", if result.is_ok() { "ok" } else { "err" }, outs[0].len(), outs[1].len(), fnv(&outs[0]), fnv(&outs[1]));
        let violation = match result {
            Err(e) => Some((if e.starts_with("panic at") { format!("panic@{}", panic_site(e)) } else { "valid-compress-failed".to_string() }, json!({"error": e, "writers": "two library writers joined in one task"}))),
            Ok(()) => {
                let mut v = None;
                for i in 0..2 {
                    if outs[i] != refs[i] {
                        v = Some(("archive-differs-when-two-writers-run-concurrently".to_string(), json!({"writer": i, "archive_len": outs[i].len(), "alone_len": refs[i].len()})));
                        break;
                    }
                    if let Some(x) = judge_archive(&outs[i], &self.sources[i], &self.cfg, &self.comp, self.hash_len, &[], self.judge) {
                        v = Some(x);
                        break;
                    }
                }
                v
            }
        };
        Observation { key, violation }
    }
}

impl Subject for CloneSubject {
    fn describe(&self) -> Value {
        self.spec.clone()
    }
    fn setup(&self, dir: &Path) {
        let rt = new_rt();
        let arch = build_arch(&rt, &self.cfg, self.hash_len, &self.comp, &self.source, 2).expect("build archive");
        std::fs::write(dir.join("a.cba"), &arch.bytes).unwrap();
        if let Some(s) = &self.seed {
            std::fs::write(dir.join("seed.bin"), s).unwrap();
        }
    }
    fn reset(&self, dir: &Path) {
        let _ = std::fs::remove_file(dir.join("out.bin"));
        if let Some(p) = &self.prior {
            std::fs::write(dir.join("out.bin"), p).unwrap();
        }
    }
    fn future(&self, dir: &Path) -> BoxFut {
        let mut args: Vec<String> = vec!["bita".into(), "clone".into(), "--buffered-chunks".into(), self.buffers.to_string()];
        if self.seed.is_some() {
            args.extend(["--seed".into(), dir.join("seed.bin").to_str().unwrap().into()]);
        }
        if self.seed_output {
            args.push("--seed-output".into());
        } else if self.prior.is_some() {
            args.push("--force-create".into());
        }
        if self.verify_output {
            args.push("--verify-output".into());
        }
        args.extend([dir.join("a.cba").to_str().unwrap().into(), dir.join("out.bin").to_str().unwrap().into()]);
        let (opts, _) = cli::parse_opts(args).expect("parse clone args");
        let opts = match opts {
            cli::CommandOpts::Clone(o) => o,
            _ => unreachable!(),
        };
        Box::pin(async move { crate::clone_cmd::clone_cmd(opts).await.map_err(|e| format!("{e:#}")) })
    }
    fn observe(&self, dir: &Path, result: &Result<(), String>) -> Observation {
        let bytes = std::fs::read(dir.join("out.bin")).unwrap_or_default();
        let key = format!("{}|len={}|fnv={:016x}", if result.is_ok() { "ok" } else { "err" }, bytes.len(), fnv(&bytes));
        let violation = match result {
            Err(e) => Some((if e.starts_with("panic at") { format!("panic@{}", panic_site(e)) } else { "valid-clone-failed".to_string() }, json!({"error": e}))),
            Ok(()) if bytes != self.source => Some(("success-with-wrong-output".into(), json!({"output": hex(&bytes)}))),
            Ok(()) => None,
        };
        Observation { key, violation }
    }
}

pub fn worker_main(args: &[String]) {
    // vh sched-worker <spec-json> <bound> <reduce> <k> <n> <cap> <out>
    let spec: Value = serde_json::from_str(&args[0]).expect("spec");
    let bound: usize = args[1].parse().unwrap();
    let reduce = args[2] == "1";
    let k: usize = args[3].parse().unwrap();
    let n: usize = args[4].parse().unwrap();
    let cap: u64 = args[5].parse().unwrap();
    let subject = subject_from_spec(&spec);
    let dir = scratch_dir("sched");
    match explore(subject.as_ref(), dir.path(), bound, reduce, (k, n), cap) {
        Ok(st) => std::fs::write(&args[6], serde_json::to_vec(&stats_json(&st)).unwrap()).unwrap(),
        Err(e) => {
            eprintln!("MACHINERY-ERROR schedule worker: {e}");
            std::process::exit(2);
        }
    }
}
