//! C17 — any archive conforming to the documented format is cloned correctly: archives are
//! produced by the independent encoder (codec::build_archive) under every layout recipe of a
//! bounded space and read by the real reader, locally and over HTTP.
use crate::c01::accessor_check;
use crate::clonelab::*;
use crate::codec;
use crate::httpd::Script;
use crate::memdev::{Fault, HoleFile, MemDev};
use crate::netchecks::{runs_of, HttpLab};
use crate::refchunk::*;
use crate::rep::*;
use crate::subjects::requested;
use crate::universe::*;
use bitar::archive_reader::ArchiveReader;
use bitar::{Archive, CloneOutput};
use futures_util::StreamExt;
use serde_json::{json, Value};

fn machinery(e: String) -> ! {
    eprintln!("MACHINERY-ERROR {e}");
    std::process::exit(2)
}

fn permutations(n: usize) -> Vec<Vec<usize>> {
    fn rec(cur: &mut Vec<usize>, used: &mut Vec<bool>, n: usize, out: &mut Vec<Vec<usize>>) {
        if cur.len() == n {
            out.push(cur.clone());
            return;
        }
        for i in 0..n {
            if !used[i] {
                used[i] = true;
                cur.push(i);
                rec(cur, used, n, out);
                cur.pop();
                used[i] = false;
            }
        }
    }
    let mut out = vec![];
    rec(&mut vec![], &mut vec![false; n], n, &mut out);
    out
}

#[derive(Clone, Debug)]
struct Rc {
    legacy: bool,
    slack: usize,
    order: Vec<usize>,
    gap: usize, // 0 none, 1 one byte after each, 2 ramp 0,1,2,..
    unknown: bool,
    raw_mask: usize,
    hash_len: usize,
    unpacked: bool,
}

fn recipe(rc: &Rc, nuniq: usize, params: &codec::Params, comp: &codec::Comp) -> codec::Recipe {
    codec::Recipe {
        enc: codec::EncOpts { legacy_magic: rc.legacy, chunk_data_offset: None, inject_unknown: rc.unknown, unpacked_rebuild_order: rc.unpacked, emit_defaults: rc.unknown && rc.legacy },
        slack: rc.slack,
        order: rc.order.clone(),
        gaps: (0..nuniq).map(|i| match rc.gap { 0 => 0, 1 => 1, _ => i }).collect(),
        // storage form per chunk, base 3: 0 = compressed iff smaller, 1 = raw, 2 = compressed even if larger
        raw: (0..nuniq).map(|i| rc.raw_mask / 3usize.pow(i as u32) % 3 == 1).collect(),
        force_compressed: (0..nuniq).map(|i| rc.raw_mask / 3usize.pow(i as u32) % 3 == 2).collect(),
        hash_len: rc.hash_len,
        params: params.clone(),
        comp: comp.clone(),
        metadata: if rc.unknown { vec![("k".into(), vec![1, 2, 3])] } else { vec![] },
        app_version: "independent-encoder 1.0".into(),
        pad_byte: 0xEE,
    }
}

fn rc_json(rc: &Rc) -> Value {
    json!({"legacy_magic": rc.legacy, "slack": rc.slack, "order": rc.order, "gap": rc.gap, "unknown_fields": rc.unknown, "raw_mask": rc.raw_mask, "hash_len": rc.hash_len, "unpacked": rc.unpacked})
}

/// Clone through any ArchiveReader into memory with bitar's public API (no seeds).
async fn reader_clone<R: ArchiveReader>(reader: R) -> Result<Vec<u8>, String>
where
    R::Error: std::error::Error,
{
    let mut archive = Archive::try_init(reader).await.map_err(|e| format!("try_init: {e}"))?;
    let dev = MemDev::new(vec![]);
    let h = dev.handle();
    let mut output = CloneOutput::new(dev, archive.build_source_index());
    {
        let mut stream = archive.chunk_stream(output.chunks());
        let mut n = 0;
        while let Some(r) = stream.next().await {
            let cc = r.map_err(|e| format!("read archive: {e}"))?;
            let v = cc.decompress().map_err(|e| format!("decompress: {e}"))?.verify().map_err(|e| format!("verify: {e}"))?;
            output.feed(&v).await.map_err(|e| format!("feed: {e}"))?;
            n += 1;
            if n > 100_000 {
                return Err("horizon".into());
            }
        }
    }
    let mut b = h.lock().unwrap().bytes.clone();
    b.resize(archive.total_source_size() as usize, 0);
    Ok(b)
}


// ------------------------------------------------------------------ a conforming archive describing a source beyond 4 GiB

const BIG_CHUNK: usize = 1 << 20;

/// Sink that stores nothing: every write is compared with the described source (a sequence of 1 MiB chunks and a tail).
struct SeqSink {
    pos: u64,
    st: std::sync::Arc<std::sync::Mutex<SeqState>>,
}
struct SeqState {
    chunks: Vec<Vec<u8>>, // unique chunks
    seq: Vec<usize>,      // the source as a sequence of unique chunk numbers (all but the last 1 MiB long)
    filled: Vec<u64>,     // bytes received per position
    wrong: Vec<(u64, usize)>,
}
impl tokio::io::AsyncWrite for SeqSink {
    fn poll_write(mut self: std::pin::Pin<&mut Self>, _cx: &mut std::task::Context<'_>, data: &[u8]) -> std::task::Poll<std::io::Result<usize>> {
        {
            let pos = self.pos;
            let mut st = self.st.lock().unwrap();
            let (mut o, mut rest) = (pos, data);
            while !rest.is_empty() {
                let idx = (o / BIG_CHUNK as u64) as usize;
                let within = (o % BIG_CHUNK as u64) as usize;
                let ok = idx < st.seq.len() && {
                    let c = &st.chunks[st.seq[idx]];
                    within < c.len() && {
                        let n = rest.len().min(c.len() - within);
                        c[within..within + n] == rest[..n]
                    }
                };
                if !ok {
                    st.wrong.push((pos, data.len()));
                    break;
                }
                let n = rest.len().min(st.chunks[st.seq[idx]].len() - within);
                st.filled[idx] += n as u64;
                o += n as u64;
                rest = &rest[n..];
            }
        }
        self.pos += data.len() as u64;
        std::task::Poll::Ready(Ok(data.len()))
    }
    fn poll_flush(self: std::pin::Pin<&mut Self>, _cx: &mut std::task::Context<'_>) -> std::task::Poll<std::io::Result<()>> {
        std::task::Poll::Ready(Ok(()))
    }
    fn poll_shutdown(self: std::pin::Pin<&mut Self>, _cx: &mut std::task::Context<'_>) -> std::task::Poll<std::io::Result<()>> {
        std::task::Poll::Ready(Ok(()))
    }
}
impl tokio::io::AsyncSeek for SeqSink {
    fn start_seek(mut self: std::pin::Pin<&mut Self>, position: std::io::SeekFrom) -> std::io::Result<()> {
        match position {
            std::io::SeekFrom::Start(o) => self.pos = o,
            std::io::SeekFrom::Current(d) => self.pos = (self.pos as i64 + d) as u64,
            std::io::SeekFrom::End(_) => return Err(std::io::Error::new(std::io::ErrorKind::Unsupported, "seek from end")),
        }
        Ok(())
    }
    fn poll_complete(self: std::pin::Pin<&mut Self>, _cx: &mut std::task::Context<'_>) -> std::task::Poll<std::io::Result<u64>> {
        std::task::Poll::Ready(Ok(self.pos))
    }
}

/// A 3 MiB archive from the independent encoder describing a source of 4 100 MiB + 12 345 bytes: chunk X 4 095 times,
/// Y (ending exactly at offset 2^32), X three times, Y, a tail T. Stored in the order Y T X with gaps, behind slack.
/// Opened, reported and cloned by the real reader (local and over HTTP) into a comparing sink.
fn beyond_4gib_source_leg(rep: &mut Report) {
    use blake2::{Blake2b512, Digest};
    let mut agg = Agg::default();
    let x: Vec<u8> = (0..BIG_CHUNK).map(|i| (i * 7 + i / 251) as u8).collect();
    let y: Vec<u8> = (0..BIG_CHUNK).map(|i| (i * 13 + 5 + i / 127) as u8).collect();
    let t: Vec<u8> = (0..12_345usize).map(|i| (i * 3 + 1) as u8).collect();
    let mut seq: Vec<usize> = vec![0; 4095];
    seq.push(1);
    seq.extend([0, 0, 0, 1, 2]);
    let chunks = vec![x.clone(), y.clone(), t.clone()];
    let total: u64 = seq.iter().map(|&i| chunks[i].len() as u64).sum();
    // checksum of the described source (4.3 GB through Blake2b: a few seconds, on its own thread)
    let (chunks2, seq2) = (chunks.clone(), seq.clone());
    let hasher = std::thread::spawn(move || {
        let mut h = Blake2b512::new();
        for &i in &seq2 {
            h.update(&chunks2[i]);
        }
        h.finalize().to_vec()
    });
    // payload: [5 pad][Y][1 gap][T][3 gaps][X]
    let mut payload = vec![0xA5u8; 5];
    let off_y = payload.len() as u64;
    payload.extend_from_slice(&y);
    payload.push(0xA5);
    let off_t = payload.len() as u64;
    payload.extend_from_slice(&t);
    payload.extend_from_slice(&[0xA5; 3]);
    let off_x = payload.len() as u64;
    payload.extend_from_slice(&x);
    let desc = |c: &Vec<u8>, off: u64| codec::Desc { checksum: codec::blake2b512(c).to_vec(), archive_size: c.len() as u32, archive_offset: off, source_size: c.len() as u32 };
    let source_checksum = hasher.join().unwrap();
    let dict = codec::Dict {
        application_version: "0.13.0".into(),
        source_checksum: source_checksum.clone(),
        source_total_size: total,
        chunker_params: Some(codec::Params { chunk_filter_bits: 0, min_chunk_size: 0, max_chunk_size: BIG_CHUNK as u32, rolling_hash_window_size: 0, chunk_hash_length: 64, chunking_algorithm: 2 }),
        chunk_compression: Some(codec::Comp { compression: 0, compression_level: 0 }),
        rebuild_order: seq.iter().map(|&i| i as u32).collect(),
        chunk_descriptors: vec![desc(&x, off_x), desc(&y, off_y), desc(&t, off_t)],
        metadata: vec![],
        unknown: vec![],
    };
    let mut bytes = codec::encode_header(&dict, &codec::EncOpts { legacy_magic: true, ..Default::default() });
    bytes.extend_from_slice(&payload);
    let detail = |extra: Value| json!({"leg": "conforming archive describing a source beyond 4 GiB", "source_len": total, "sequence": "X*4095 Y X X X Y T (X, Y 1 MiB; T 12345 bytes)", "archive": "(3 MiB, not embedded)", "source": "", "extra": extra});
    let rt = tokio::runtime::Builder::new_current_thread().enable_all().build().unwrap();
    let lab = HttpLab::new();
    for transport in ["local", "http"] {
        let st = std::sync::Arc::new(std::sync::Mutex::new(SeqState { chunks: chunks.clone(), seq: seq.clone(), filled: vec![0; seq.len()], wrong: vec![] }));
        let st2 = st.clone();
        let bytes2 = bytes.clone();
        let cs = source_checksum.clone();
        async fn flow<R: ArchiveReader>(reader: R, total: u64, cs: Vec<u8>, nseq: usize, st: std::sync::Arc<std::sync::Mutex<SeqState>>) -> Result<(), String>
        where
            R::Error: std::error::Error,
        {
            let mut archive = Archive::try_init(reader).await.map_err(|e| format!("try_init: {e}"))?;
            if archive.total_source_size() != total {
                return Err(format!("reported source size {} != {}", archive.total_source_size(), total));
            }
            if archive.source_checksum().slice() != &cs[..] {
                return Err("reported source checksum differs".into());
            }
            let offs: Vec<u64> = archive.iter_source_chunks().map(|(o, _)| o).collect();
            if offs.len() != nseq || offs.iter().enumerate().any(|(i, &o)| o != i as u64 * BIG_CHUNK as u64) {
                return Err(format!("source chunk offsets differ (count {}, last {:?})", offs.len(), offs.last()));
            }
            let mut output = CloneOutput::new(SeqSink { pos: 0, st }, archive.build_source_index());
            let mut stream = archive.chunk_stream(output.chunks());
            while let Some(r) = stream.next().await {
                let v = r.map_err(|e| format!("read: {e}"))?.decompress().map_err(|e| format!("decompress: {e}"))?.verify().map_err(|e| format!("verify: {e}"))?;
                output.feed(&v).await.map_err(|e| format!("feed: {e}"))?;
            }
            Ok(())
        }
        let r = if transport == "local" {
            catch(|| rt.block_on(flow(bitar::archive_reader::IoReader::new(std::io::Cursor::new(bytes2)), total, cs, seq.len(), st2)))
        } else {
            lab.server.arm(&bytes, Script { faults: vec![], splits: vec![], keep_alive: true });
            lab.pooled.set(true);
            catch(|| lab.rt.block_on(flow(lab.reader(0), total, cs, seq.len(), st2)))
        };
        agg.add("archives_describing_sources_beyond_4gib", 1);
        agg.add("archives", 1);
        match r {
            Err(p) => agg.viol(&format!("panic@{}", panic_site(&p)), || detail(json!({"transport": transport, "panic": p}))),
            Ok(Err(e)) if e.starts_with("reported") || e.starts_with("source chunk offsets") => agg.viol("reader-reports-different-values", || detail(json!({"transport": transport, "error": e}))),
            Ok(Err(e)) => agg.viol("conforming-archive-rejected", || detail(json!({"transport": transport, "error": e}))),
            Ok(Ok(())) => {
                let st = st.lock().unwrap();
                let complete = st.filled.iter().enumerate().all(|(i, &n)| n == st.chunks[st.seq[i]].len() as u64);
                if !st.wrong.is_empty() || !complete {
                    agg.viol("conforming-archive-cloned-wrong", || detail(json!({"transport": transport, "writes_with_wrong_bytes": st.wrong.iter().take(5).collect::<Vec<_>>(), "positions_incomplete_or_overfilled": st.filled.iter().enumerate().filter(|(i, &n)| n != st.chunks[st.seq[*i]].len() as u64).count()})));
                }
            }
        }
    }
    rep.agg.merge(agg);
}

pub fn run(rep: &mut Report) {
    beyond_4gib_source_leg(rep);
    let thorough = rep.thorough();
    // (universe cfg, word sizes, compression)
    let mut specs: Vec<(Cfg, Vec<usize>, codec::Comp)> = vec![
        (Cfg::fixed(16), vec![16], codec::Comp { compression: 3, compression_level: 6 }),
        (Cfg::new(Algo::Roll, 4, 4, 12, 2), vec![5, 7, 9], codec::Comp { compression: 0, compression_level: 0 }),
        (Cfg::new(Algo::Buz, 4, 5, 12, 2), vec![6, 8, 9], codec::Comp { compression: 3, compression_level: 9 }),
    ];
    if thorough {
        specs.push((Cfg::fixed(16), vec![16], codec::Comp { compression: 2, compression_level: 3 }));
        specs.push((Cfg::fixed(16), vec![16], codec::Comp { compression: 1, compression_level: 2 }));
    }
    let nmax = if thorough { 4 } else { 3 };
    let mut jobs: Vec<(usize, Vec<usize>)> = vec![];
    for si in 0..specs.len() {
        // sources: the empty source, and word sequences with distinct and duplicate chunks
        let mut srcs: Vec<Vec<usize>> = vec![vec![], vec![0], vec![0, 1], vec![0, 1, 0], vec![2, 1, 0], vec![1, 1, 2]];
        if nmax >= 4 {
            srcs.push(vec![0, 1, 2, 3]);
            srcs.push(vec![3, 0, 3, 1]);
        }
        // a chunk three and more times, at regular and irregular distances (two unique chunks: the layout product stays small)
        srcs.push(vec![0, 1, 0, 1, 0]);
        srcs.push(vec![0, 0, 1, 0, 0]);
        srcs.push(vec![0, 1, 0, 0, 1, 0, 1]);
        for s in srcs {
            jobs.push((si, s));
        }
    }
    let unis: Vec<Universe> = specs.iter().map(|(c, sizes, _)| Universe::build(c, sizes, 4).unwrap_or_else(|| machinery(format!("no universe for {}", c.label())))).collect();
    let (specs_ref, unis_ref, jobs_ref) = (&specs, &unis, &jobs);
    let a = par_shards(jobs.len(), threads(), |ji| {
        let (si, seq) = &jobs_ref[ji];
        let (cfg, _, comp) = &specs_ref[*si];
        let u = &unis_ref[*si];
        let mut agg = Agg::default();
        let lab = HttpLab::new();
        lab.pooled.set(true);
        let dir = crate::sched::scratch_dir("c17");
        let source = u.concat(&u.words, seq);
        let mut cuts = vec![];
        let mut p = 0;
        for &w in seq {
            p += u.words[w].len();
            cuts.push(p);
        }
        let mut uniq: Vec<usize> = vec![];
        for &w in seq {
            if !uniq.contains(&w) {
                uniq.push(w);
            }
        }
        let nu = uniq.len();
        let rq = requested(cfg, &Comp::None, 64, &[], None);
        let mut count = 0usize;
        for hash_len in [4usize, 5, 64] {
            for legacy in [false, true] {
                for slack in [0usize, 1, 7, 100] {
                    for order in permutations(nu) {
                        for gap in 0..3usize {
                            for unknown in [false, true] {
                                for raw_mask in 0..3usize.pow(nu as u32) {
                                    // quick tier: thin the product deterministically, keeping every value of every dimension
                                    count += 1;
                                    if !thorough && nu >= 2 && (count * 7 + ji) % 5 != 0 {
                                        continue;
                                    }
                                    let rc = Rc { legacy, slack, order: order.clone(), gap, unknown, raw_mask, hash_len, unpacked: (slack + gap) % 2 == 1 };
                                    let mut params = rq.params.clone();
                                    params.chunk_hash_length = hash_len as u32;
                                    // a recorded minimum chunk size below the window size is valid: the reader takes both as recorded
                                    if slack == 7 && params.chunking_algorithm != 2 {
                                        params.min_chunk_size = 1;
                                    }
                                    let built = match codec::build_archive(&source, &cuts, &recipe(&rc, nu, &params, comp)) {
                                        Ok(b) => b,
                                        Err(e) if e.contains("collide") => {
                                            agg.add("skipped_hash_collision", 1);
                                            continue;
                                        }
                                        Err(e) => machinery(format!("independent encoder failed: {e}")),
                                    };
                                    agg.add("archives", 1);
                                    let detail = |what: &str, extra: Value| json!({"cfg": cfg.json(), "compression": comp.compression, "source": hex(&source), "cuts": cuts, "recipe": rc_json(&rc), "what": what, "extra": extra, "archive": if built.bytes.len() < 700 { hex(&built.bytes) } else { "(large)".into() }});
                                    // local: open + accessors + clone through IoReader
                                    let before = agg.classes.len();
                                    accessor_check(&built.bytes, &mut agg, &detail);
                                    if agg.classes.len() > before {
                                        continue;
                                    }
                                    // what `bita info` and every clone print about it
                                    {
                                        let reader = bitar::archive_reader::IoReader::new(std::io::Cursor::new(built.bytes.clone()));
                                        if let Err(p) = catch(|| {
                                            if let Ok(Ok(a)) = drive_ready(Archive::try_init(reader)) {
                                                crate::info_cmd::print_archive(&a);
                                            }
                                        }) {
                                            agg.viol(&format!("panic@{}", panic_site(&p)), || detail("info", json!(p)));
                                            continue;
                                        }
                                    }
                                    // the real clone_cmd on a file and over HTTP (every 16th archive)
                                    if count % 16 == 0 {
                                        let apath = dir.path().join("a.cba");
                                        let out = dir.path().join("out.bin");
                                        std::fs::write(&apath, &built.bytes).unwrap();
                                        let rev: Vec<usize> = seq.iter().rev().copied().collect();
                                        let prior = u.concat(&u.words, &rev);
                                        // (mode 2: --force-create over an existing file that is longer than the source, no verification asked for)
                                        for (http, mode) in [(false, 0), (true, 0), (false, 1), (false, 2), (true, 2)] {
                                            let in_place = mode == 1;
                                            let _ = std::fs::remove_file(&out);
                                            let mut extra = vec!["--verify-output".to_string()];
                                            if in_place {
                                                // over a prior output holding the same chunks in reverse order
                                                std::fs::write(&out, &prior).unwrap();
                                                extra = vec!["--seed-output".to_string()];
                                            }
                                            if mode == 2 {
                                                let mut longer = prior.clone();
                                                longer.extend_from_slice(b"-- the tail of an older, longer file --");
                                                std::fs::write(&out, &longer).unwrap();
                                                extra = vec!["--force-create".to_string()];
                                            }
                                            let target = if http {
                                                lab.server.arm(&built.bytes, Script { faults: vec![], splits: vec![], keep_alive: true });
                                                lab.server.url()
                                            } else {
                                                apath.to_str().unwrap().to_string()
                                            };
                                            agg.add("cli_clones", 1);
                                            match crate::c04::cli_clone(&lab.rt, crate::c04::cli_clone_args(&target, &out, &extra)) {
                                                Err(p) => agg.viol(&format!("panic@{}", panic_site(&p)), || detail("cli clone", json!(p))),
                                                Ok(Err(e)) => agg.viol("conforming-archive-rejected", || detail("cli clone", json!(e))),
                                                Ok(Ok(())) => {
                                                    if std::fs::read(&out).unwrap_or_default() != source {
                                                        agg.viol("conforming-archive-cloned-wrong", || detail("cli clone", json!({"http": http, "in_place_over_reversed_prior": in_place, "force_create_over_longer_file": mode == 2})));
                                                    }
                                                }
                                            }
                                        }
                                    }
                                    let reader = bitar::archive_reader::IoReader::new(std::io::Cursor::new(built.bytes.clone()));
                                    match catch(|| drive_ready(reader_clone(reader))) {
                                        Err(p) => agg.viol(&format!("panic@{}", panic_site(&p)), || detail("local clone", json!(p))),
                                        Ok(Err(e)) => machinery(e),
                                        Ok(Ok(Err(e))) => agg.viol("conforming-archive-rejected", || detail("local clone", json!(e))),
                                        Ok(Ok(Ok(out))) => {
                                            if out != source {
                                                agg.viol("conforming-archive-cloned-wrong", || detail("local clone", json!(hex(&out))));
                                            }
                                        }
                                    }
                                    // seeded: the recorded chunker parameters are used to chunk a seed = source
                                    if count % 3 == 0 && !source.is_empty() {
                                        if let Ok(arch) = arch_from_bytes(cfg, hash_len, &Comp::None, &source, built.bytes.clone()) {
                                            let sc = Scenario { prior: None, seed_output: false, seeds: vec![source.clone()], fault: Fault::None, verify_output: true };
                                            let obs = run_scenario(&arch, &sc);
                                            agg.add("seeded_clones", 1);
                                            match &obs.outcome {
                                                Outcome::Ok if obs.dev == source => {}
                                                o => agg.viol("conforming-archive-seeded-clone-wrong", || detail("seeded clone", json!(format!("{:?}", o)))),
                                            }
                                        }
                                    }
                                    // http: every 4th archive (and all of them for small products)
                                    if count % 4 == 0 || nu <= 1 {
                                        lab.server.arm(&built.bytes, Script { faults: vec![], splits: vec![], keep_alive: true });
                                        let reader = lab.reader(0);
                                        agg.add("http_clones", 1);
                                        match catch(|| lab.rt.block_on(async { tokio::time::timeout(std::time::Duration::from_secs(20), reader_clone(reader)).await })) {
                                            Err(p) => agg.viol(&format!("panic@{}", panic_site(&p)), || detail("http clone", json!(p))),
                                            Ok(Err(_)) => agg.viol("http-clone-timeout", || detail("http clone", json!(null))),
                                            Ok(Ok(Err(e))) => agg.viol("conforming-archive-rejected", || detail("http clone", json!(e))),
                                            Ok(Ok(Ok(out))) => {
                                                if out != source {
                                                    agg.viol("conforming-archive-cloned-wrong", || detail("http clone", json!(hex(&out))));
                                                }
                                                // Range log: 2 header requests, then maximal runs in descriptor order
                                                let log = lab.server.log();
                                                let descs: Vec<(u64, usize)> = built.dict.chunk_descriptors.iter().map(|d| (built.chunk_data_offset + d.archive_offset, d.archive_size as usize)).collect();
                                                let want: Vec<Option<(u64, u64)>> = runs_of(&descs).iter().map(|r| Some((r.0, r.1 - 1))).collect();
                                                let got: Vec<Option<(u64, u64)>> = log.iter().skip(2).map(|l| l.range).collect();
                                                if got != want {
                                                    agg.viol("http-requests-not-maximal-runs", || detail("http clone", json!({"requests": got, "expected": want})));
                                                }
                                            }
                                        }
                                    }
                                    // chunk data beyond 4 GiB: the same archive with its chunk data offset moved behind a hole
                                    // that makes the first stored chunk straddle 2^32 (or start at 2^33 + 1); header re-encoded
                                    // by the independent encoder, the hole is virtual (server and file insert zeros)
                                    if count % 8 == 0 || nu <= 1 {
                                        let target = if count % 16 == 0 { (1u64 << 33) + 1 } else { (1u64 << 32) - 2 };
                                        let hole = target - built.chunk_data_offset;
                                        let mut enc = recipe(&rc, nu, &params, comp).enc;
                                        enc.chunk_data_offset = Some(target);
                                        let mut far = codec::encode_header(&built.dict, &enc);
                                        if far.len() != built.header_len {
                                            machinery("far header length differs".into());
                                        }
                                        far.extend_from_slice(&built.bytes[built.header_len..]);
                                        let at = built.header_len as u64;
                                        agg.add("far_archives", 1);
                                        let reader = bitar::archive_reader::IoReader::new(HoleFile { data: far.clone(), at, len: hole, pos: 0 });
                                        match catch(|| drive_ready(reader_clone(reader))) {
                                            Err(p) => agg.viol(&format!("panic@{}", panic_site(&p)), || detail("local clone, chunk data beyond 4 GiB", json!(p))),
                                            Ok(Err(e)) => machinery(e),
                                            Ok(Ok(Err(e))) => agg.viol("conforming-archive-rejected", || detail("local clone, chunk data beyond 4 GiB", json!({"error": e, "chunk_data_offset": target}))),
                                            Ok(Ok(Ok(out))) => {
                                                if out != source {
                                                    agg.viol("conforming-archive-cloned-wrong", || detail("local clone, chunk data beyond 4 GiB", json!({"chunk_data_offset": target, "output": hex(&out)})));
                                                }
                                            }
                                        }
                                        lab.server.arm_hole(at, hole, &far, Script { faults: vec![], splits: vec![], keep_alive: true });
                                        let reader = lab.reader(0);
                                        match catch(|| lab.rt.block_on(async { tokio::time::timeout(std::time::Duration::from_secs(20), reader_clone(reader)).await })) {
                                            Err(p) => agg.viol(&format!("panic@{}", panic_site(&p)), || detail("http clone, chunk data beyond 4 GiB", json!(p))),
                                            Ok(Err(_)) => agg.viol("http-clone-timeout", || detail("http clone, chunk data beyond 4 GiB", json!(null))),
                                            Ok(Ok(Err(e))) => agg.viol("conforming-archive-rejected", || detail("http clone, chunk data beyond 4 GiB", json!({"error": e, "chunk_data_offset": target}))),
                                            Ok(Ok(Ok(out))) => {
                                                if out != source {
                                                    agg.viol("conforming-archive-cloned-wrong", || detail("http clone, chunk data beyond 4 GiB", json!({"chunk_data_offset": target, "output": hex(&out)})));
                                                }
                                                let log = lab.server.log();
                                                let descs: Vec<(u64, usize)> = built.dict.chunk_descriptors.iter().map(|d| (target + d.archive_offset, d.archive_size as usize)).collect();
                                                let want: Vec<Option<(u64, u64)>> = runs_of(&descs).iter().map(|r| Some((r.0, r.1 - 1))).collect();
                                                let got: Vec<Option<(u64, u64)>> = log.iter().skip(2).map(|l| l.range).collect();
                                                if got != want {
                                                    agg.viol("http-requests-not-maximal-runs", || detail("http clone, chunk data beyond 4 GiB", json!({"requests": got, "expected": want})));
                                                }
                                            }
                                        }
                                    }
                                    agg.distinct("layouts", fnv(&built.bytes));
                                    if agg.samples.len() < 2 && nu == 3 && gap == 2 && legacy && slack == 7 {
                                        agg.sample(|| json!({"cfg": cfg.label(), "source": hex(&source), "recipe": rc_json(&rc), "archive_len": built.bytes.len()}));
                                    }
                                }
                            }
                        }
                    }
                }
            }
        }
        agg
    });
    rep.agg.merge(a);
    rep.set("evaluations", json!(rep.agg.get("archives") + rep.agg.get("http_clones") + rep.agg.get("seeded_clones") + rep.agg.get("cli_clones")));
    rep.set("distinct_nontrivial", json!(rep.agg.distinct_count("layouts")));
    rep.set("exhaustive", json!(thorough));
    rep.set("rule", json!("independent encoder: sources of <=3/4 words (incl. empty source and duplicate chunks) x {current, legacy magic} x slack {0,1,7,100} x all permutations of the stored chunks x gap pattern {none, 1 byte after each, ramp} x unknown fields {none, in every message} x all per-chunk storage assignments {compressed iff smaller, raw, compressed although larger} x hash length {4,5,64} x {packed, unpacked rebuild order}, per chunker/compression universe (quick: a deterministic 1-in-5 thinning of the product that keeps every value of every dimension; thorough: the full product); each archive is opened by the real reader (accessors == encoder inputs), printed by the real info code, cloned through IoReader, every 16th through the real clone_cmd on a file and over HTTP (--verify-output onto a new file, --seed-output over the chunks in reverse order, --force-create over a longer file), with a seed (recorded chunker parameters in use) and through HttpReader against the logging loopback server (requests == maximal runs); one archive describing a source of 4 100 MiB + 12 345 bytes in three stored chunks (a chunk ends exactly at source offset 2^32; legacy magic, stored order Y T X with gaps), opened, reported and cloned locally and over HTTP into a comparing sink; non-trivial = distinct archive byte strings"));
    rep.assume("the independent encoder defines 'conforming'; it never stores a compressed chunk whose stored size equals its source size");
}

pub fn replay(v: &Value) -> bool {
    let source = unhex(v["source"].as_str().unwrap());
    let arch = v["archive"].as_str().unwrap_or("");
    if arch.starts_with('(') {
        println!("replay: archive too large to be embedded; re-run the check");
        return true;
    }
    let bytes = unhex(arch);
    let reader = bitar::archive_reader::IoReader::new(std::io::Cursor::new(bytes));
    match catch(|| drive_ready(reader_clone(reader))) {
        Ok(Ok(Ok(out))) => {
            println!("replay: clone ok={} ", out == source);
            out != source
        }
        o => {
            println!("replay: {:?}", o.map(|x| x.map(|y| y.map(|_| ()))));
            true
        }
    }
}
