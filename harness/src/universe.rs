//! Chunk-word alphabets (DESIGN.md 3.3): byte strings whose chunking the generator controls, so
//! that overlap / cycle / duplicate layouts are *reached* with a content-defined chunker.
//! Oracles never rely on word alignment: they re-chunk the actual bytes with the reference chunker.
use crate::refchunk::*;

#[derive(Clone, Debug)]
pub struct Universe {
    pub cfg: Cfg,
    /// words that sources are made of
    pub words: Vec<Vec<u8>>,
    /// valid words never used in a source
    pub junk: Vec<Vec<u8>>,
    /// a word cut in half (shifts the alignment of what follows)
    pub half: Vec<u8>,
    /// junk word with the same length as words[0] but different content
    pub collide: Vec<u8>,
}

/// x is a word for cfg: started at a chunk start, the rule emits exactly x.
pub fn is_word(c: &Cfg, x: &[u8]) -> bool {
    if x.is_empty() {
        return false;
    }
    match c.algo {
        Algo::Fixed => x.len() == c.max,
        _ => {
            let need = if c.algo == Algo::Buz { c.w + 1 } else { c.w };
            if c.min < need || x.len() < c.min || x.len() > c.max {
                return false;
            }
            // stream start and mid-stream coincide for such words (window inside the chunk)
            let mut xx = x.to_vec();
            xx.extend_from_slice(x);
            ref_cuts(c, &xx) == vec![x.len(), 2 * x.len()]
        }
    }
}

fn no_adjacent_equal(x: &[u8]) -> bool {
    x.windows(2).all(|p| p[0] != p[1])
}

/// Brute-force search for words of the given sizes over a small alphabet.
pub fn find_words(c: &Cfg, sizes: &[usize], per_size: usize) -> Vec<Vec<u8>> {
    let alpha: Vec<u8> = b"abcdefgh".to_vec();
    let mut out: Vec<Vec<u8>> = vec![];
    for &n in sizes {
        let mut found = 0;
        let total = count_strings(&alpha, n).min(3_000_000);
        // stride through the space so that words differ early
        let mut idx = 0u64;
        let step = 7919u64;
        let mut tried = 0u64;
        while tried < total && found < per_size {
            let x = nth_string(&alpha, n, idx % count_strings(&alpha, n));
            idx = idx.wrapping_add(step);
            tried += 1;
            if c.algo != Algo::Fixed && !no_adjacent_equal(&x) {
                continue;
            }
            if out.contains(&x) {
                continue;
            }
            if is_word(c, &x) {
                // first and last byte must not glue to other words into runs
                out.push(x);
                found += 1;
            }
        }
    }
    // keep only a set of words that is closed under concatenation (pairs and triples re-chunk into words)
    let mut keep: Vec<Vec<u8>> = vec![];
    for x in out {
        let mut cand = keep.clone();
        cand.push(x.clone());
        if closed(c, &cand) {
            keep.push(x);
        }
    }
    keep
}

fn closed(c: &Cfg, ws: &[Vec<u8>]) -> bool {
    let n = ws.len();
    for a in 0..n {
        for b in 0..n {
            for d in 0..n {
                let mut s = ws[a].clone();
                s.extend_from_slice(&ws[b]);
                s.extend_from_slice(&ws[d]);
                let want = vec![ws[a].len(), ws[a].len() + ws[b].len(), ws[a].len() + ws[b].len() + ws[d].len()];
                if ref_cuts(c, &s) != want {
                    return false;
                }
            }
        }
    }
    true
}

impl Universe {
    /// Build a universe with `nw` source words and 2 junk words, sizes from `sizes`.
    pub fn build(c: &Cfg, sizes: &[usize], nw: usize) -> Option<Universe> {
        let all = if c.algo == Algo::Fixed {
            let n = c.max;
            let mut v = vec![];
            for k in 0..(nw + 3) {
                // distinct n-byte strings; the first ones are runs so that they compress
                let b = b'A' + k as u8;
                let mut x = vec![b; n];
                if k % 2 == 1 && n > 1 {
                    x[n - 1] = b'0' + k as u8;
                }
                v.push(x);
            }
            v
        } else {
            find_words(c, sizes, (nw + 3 + sizes.len() - 1) / sizes.len() + 1)
        };
        if all.len() < nw + 3 {
            return None;
        }
        // spread sizes over words and junk: sort by (index mod) to mix sizes
        let mut mixed: Vec<Vec<u8>> = vec![];
        let mut by_size: std::collections::BTreeMap<usize, Vec<Vec<u8>>> = Default::default();
        for x in all {
            by_size.entry(x.len()).or_default().push(x);
        }
        loop {
            let mut any = false;
            for v in by_size.values_mut() {
                if let Some(x) = v.pop() {
                    mixed.push(x);
                    any = true;
                }
            }
            if !any {
                break;
            }
        }
        let words: Vec<Vec<u8>> = mixed[..nw].to_vec();
        let rest: Vec<Vec<u8>> = mixed[nw..].to_vec();
        // collide: a junk word with the length of words[0] if there is one
        let collide = rest.iter().find(|x| x.len() == words[0].len()).cloned().unwrap_or_else(|| rest[0].clone());
        let junk: Vec<Vec<u8>> = rest.iter().filter(|x| **x != collide).take(2).cloned().collect();
        if junk.len() < 2 {
            return None;
        }
        let half = words[0][..(words[0].len() / 2).max(1)].to_vec();
        Some(Universe { cfg: *c, words, junk, half, collide })
    }
    /// letters usable in seeds / prior outputs: words, junk, half word, colliding junk
    pub fn letters(&self) -> Vec<Vec<u8>> {
        let mut v = self.words.clone();
        v.extend(self.junk.iter().cloned());
        v.push(self.half.clone());
        v.push(self.collide.clone());
        v
    }
    pub fn letter_names(&self) -> Vec<String> {
        let mut v: Vec<String> = (0..self.words.len()).map(|i| format!("W{i}")).collect();
        v.push("J0".into());
        v.push("J1".into());
        v.push("half(W0)".into());
        v.push("collide(W0)".into());
        v
    }
    pub fn concat(&self, letters: &[Vec<u8>], seq: &[usize]) -> Vec<u8> {
        let mut v = vec![];
        for &i in seq {
            v.extend_from_slice(&letters[i]);
        }
        v
    }
}

/// All sequences over 0..alpha of length 0..=maxlen, shortest first.
pub fn seqs(alpha: usize, maxlen: usize) -> Vec<Vec<usize>> {
    let mut out = vec![vec![]];
    let mut cur: Vec<Vec<usize>> = vec![vec![]];
    for _ in 0..maxlen {
        let mut nxt = vec![];
        for s in &cur {
            for a in 0..alpha {
                let mut t = s.clone();
                t.push(a);
                nxt.push(t);
            }
        }
        out.extend(nxt.iter().cloned());
        cur = nxt;
    }
    out
}
