//! Scripted HTTP/1.1 range server (DESIGN.md 3.7): a blocking std::net server whose behaviour
//! per incoming request is decided by a script; logs the ordered Range headers it received.
use std::io::{Read, Write};
use std::net::{Shutdown, TcpListener, TcpStream};
use std::sync::atomic::{AtomicBool, Ordering};
use std::sync::{Arc, Mutex};
use std::time::Duration;

#[derive(Clone, Debug, PartialEq, Eq, Hash)]
pub enum Fault {
    /// serve the requested range correctly
    None,
    /// accept the connection and close it before sending anything
    Refuse,
    /// send the head (full Content-Length) and only the first k body bytes, then close
    CutAfter(usize),
    /// answer with a body of only k bytes and a matching Content-Length (body ends early, gracefully)
    ShortBody(usize),
    /// right length, wrong bytes (every byte xor 0x55)
    WrongBytes,
    /// an error page of exactly the requested length with the given status
    ErrorPage(u16),
    /// status 200 and the whole file, ignoring Range
    FullFile,
    /// k extra bytes after the requested range (Content-Length includes them)
    Extra(usize),
    /// empty body, Content-Length 0
    Empty,
    /// status line with a weird status but correct body
    Status(u16),
    /// garbage instead of an HTTP response
    Garbage,
    /// Content-Length larger than what is sent, then close
    LengthLie(usize),
    /// serve the range correctly, but with `Transfer-Encoding: chunked` and no Content-Length (one HTTP
    /// chunk per flushed piece of the body)
    Chunked,
    /// send the head (full Content-Length) and the first k body bytes, then go silent for 4 seconds
    /// before closing: only a receive timeout of the client ends the wait earlier
    Stall(usize),
    /// the whole body is delivered, but one more byte is promised (Content-Length + 1) and the connection stays open that many seconds
    Linger(u64),
    /// correct status and body, but a malformed Content-Range header (variant: `*/0`, `0-13`, empty,
    /// non-ASCII, `bytes` without a range)
    BadContentRange(usize),
    /// redirect to self
    Redirect,
    /// this and every later request is redirected to a fresh URL of this server, up to the given
    /// number of redirects in total (then requests are served normally): a redirect chain that
    /// only a hop limit on the client side ends
    RedirectLoop(usize),
}

#[derive(Clone, Debug, Default)]
pub struct Script {
    /// fault for the n-th incoming request (0-based); None beyond the end
    pub faults: Vec<Fault>,
    /// body split points (offsets into the response body) at which the server flushes and pauses
    pub splits: Vec<usize>,
    /// false: every response carries `Connection: close` and the connection is closed after it
    /// (no transparent retry of a request on a reused connection can blur the request log)
    pub keep_alive: bool,
}

#[derive(Clone, Debug, PartialEq, Eq)]
pub struct ReqLog {
    pub range: Option<(u64, u64)>,
    pub conn: usize,
    pub sent: usize,
    pub fault: String,
}

struct Shared {
    /// incremented by arm(); log entries of requests read under an older generation are dropped
    generation: u64,
    /// the served file is `file` with `hole.1` zero bytes inserted at offset `hole.0` (offsets
    /// beyond 2^32 without the memory)
    hole: (u64, u64),
    file: Vec<u8>,
    script: Script,
    log: Vec<ReqLog>,
    reqno: usize,
    conns: usize,
}

pub struct Server {
    pub port: u16,
    shared: Arc<Mutex<Shared>>,
    stop: Arc<AtomicBool>,
}

impl Server {
    pub fn start() -> Server {
        let listener = TcpListener::bind("127.0.0.1:0").expect("bind");
        let port = listener.local_addr().unwrap().port();
        let shared = Arc::new(Mutex::new(Shared { generation: 0, hole: (0, 0), file: vec![], script: Script::default(), log: vec![], reqno: 0, conns: 0 }));
        let stop = Arc::new(AtomicBool::new(false));
        let (sh, st) = (shared.clone(), stop.clone());
        std::thread::spawn(move || {
            for conn in listener.incoming() {
                if st.load(Ordering::SeqCst) {
                    break;
                }
                if let Ok(stream) = conn {
                    let sh2 = sh.clone();
                    std::thread::spawn(move || handle(stream, sh2));
                }
            }
        });
        Server { port, shared, stop }
    }
    pub fn url(&self) -> String {
        format!("http://127.0.0.1:{}/archive.cba", self.port)
    }
    /// Install the file and the script for the next case and clear the log.
    pub fn arm(&self, file: &[u8], script: Script) {
        self.arm_based(0, file, script)
    }
    /// Like `arm`, but the served file is `base` zero bytes followed by `file`.
    pub fn arm_based(&self, base: u64, file: &[u8], script: Script) {
        self.arm_hole(0, base, file, script)
    }
    /// Like `arm`, but `len` zero bytes are inserted into the served file at offset `at`.
    pub fn arm_hole(&self, at: u64, len: u64, file: &[u8], script: Script) {
        let mut s = self.shared.lock().unwrap();
        s.hole = (at, len);
        s.file = file.to_vec();
        s.script = script;
        s.log.clear();
        s.reqno = 0;
        s.generation += 1;
    }
    pub fn log(&self) -> Vec<ReqLog> {
        self.shared.lock().unwrap().log.clone()
    }
}

impl Drop for Server {
    fn drop(&mut self) {
        self.stop.store(true, Ordering::SeqCst);
        let _ = TcpStream::connect(("127.0.0.1", self.port));
    }
}

fn read_head(stream: &mut TcpStream) -> Option<String> {
    let mut buf = vec![];
    let mut b = [0u8; 1];
    loop {
        match stream.read(&mut b) {
            Ok(0) => return None,
            Ok(_) => {
                buf.push(b[0]);
                if buf.ends_with(b"\r\n\r\n") {
                    return String::from_utf8(buf).ok();
                }
                if buf.len() > 16384 {
                    return None;
                }
            }
            Err(_) => return None,
        }
    }
}

fn parse_range(head: &str) -> Option<(u64, u64)> {
    for line in head.lines() {
        let l = line.to_ascii_lowercase();
        if let Some(v) = l.strip_prefix("range:") {
            let v = v.trim().strip_prefix("bytes=")?;
            let (a, b) = v.split_once('-')?;
            return Some((a.trim().parse().ok()?, b.trim().parse().ok()?));
        }
    }
    None
}

fn handle(mut stream: TcpStream, shared: Arc<Mutex<Shared>>) {
    let _ = stream.set_nodelay(true);
    let _ = stream.set_read_timeout(Some(Duration::from_secs(20)));
    let conn = {
        let mut s = shared.lock().unwrap();
        s.conns += 1;
        s.conns
    };
    // a Refuse fault applies to the connection before its first request is even read
    {
        let mut s = shared.lock().unwrap();
        let n = s.reqno;
        if s.script.faults.get(n) == Some(&Fault::Refuse) {
            s.reqno += 1;
            s.log.push(ReqLog { range: None, conn, sent: 0, fault: "Refuse".into() });
            drop(s);
            let _ = stream.shutdown(Shutdown::Both);
            return;
        }
    }
    loop {
        let head = match read_head(&mut stream) {
            Some(h) => h,
            None => return,
        };
        let range = parse_range(&head);
        let (file, fault, splits, keep_alive, gen, slot, hole) = {
            let mut s = shared.lock().unwrap();
            let n = s.reqno;
            s.reqno += 1;
            let mut f = s.script.faults.get(n).cloned().unwrap_or(Fault::None);
            if let Some(Fault::RedirectLoop(max)) = s.script.faults.last().cloned() {
                if n + 1 >= s.script.faults.len() {
                    let sent = s.log.iter().filter(|l| l.fault.starts_with("RedirectLoop")).count();
                    f = if sent < max { Fault::RedirectLoop(max) } else { Fault::None };
                }
            }
            if f == Fault::Refuse {
                // request arrived on a kept-alive connection: close without answering
                s.log.push(ReqLog { range, conn, sent: 0, fault: "Refuse".into() });
                drop(s);
                let _ = stream.shutdown(Shutdown::Both);
                return;
            }
            if range.is_none() && !matches!(f, Fault::Garbage | Fault::Redirect | Fault::RedirectLoop(_)) {
                f = Fault::None;
            }
            // the request is logged when it is received; `sent` is filled in afterwards
            s.log.push(ReqLog { range, conn, sent: 0, fault: format!("{:?}", f) });
            let slot = s.log.len() - 1;
            (s.file.clone(), f, s.script.splits.clone(), s.script.keep_alive, s.generation, slot, s.hole)
        };
        let (hole_at, base) = hole;
        let flen = base + file.len() as u64;
        let (status, mut body): (u16, Vec<u8>) = match range {
            // (no more than 128 MiB of a hole are materialised per response)
            Some((a, b)) if a < flen && a <= b && b.min(flen - 1) - a < (128 << 20) + file.len() as u64 => {
                let e = b.min(flen - 1) + 1; // exclusive
                let mut body: Vec<u8> = Vec::with_capacity((e - a) as usize);
                // part before the hole, the hole, part after the hole
                if a < hole_at {
                    body.extend_from_slice(&file[a as usize..e.min(hole_at) as usize]);
                }
                let (hs, he) = (a.max(hole_at), e.min(hole_at + base));
                if hs < he {
                    body.resize(body.len() + (he - hs) as usize, 0);
                }
                if e > hole_at + base {
                    let s0 = a.max(hole_at + base) - base;
                    body.extend_from_slice(&file[s0 as usize..(e - base) as usize]);
                }
                (206, body)
            }
            Some(_) => (416, vec![]),
            None if base > 0 => (416, vec![]),
            None => (200, file.clone()),
        };
        let mut status = status;
        let mut declared: Option<usize> = None;
        let mut close_after: Option<usize> = None;
        match &fault {
            Fault::None | Fault::Refuse | Fault::Chunked | Fault::BadContentRange(_) => {}
            Fault::CutAfter(k) => {
                declared = Some(body.len());
                close_after = Some((*k).min(body.len()));
            }
            Fault::Stall(k) => {
                declared = Some(body.len());
                close_after = Some((*k).min(body.len()));
            }
            Fault::Linger(_) => declared = Some(body.len() + 1),
            Fault::ShortBody(k) => body.truncate(*k),
            Fault::WrongBytes => body.iter_mut().for_each(|x| *x ^= 0x55),
            Fault::ErrorPage(st) => {
                status = *st;
                let n = body.len();
                body = b"<html>error</html>".iter().cycle().take(n).copied().collect();
            }
            Fault::FullFile => {
                status = 200;
                body = file.clone();
            }
            Fault::Extra(k) => body.extend(std::iter::repeat(0xEE).take(*k)),
            Fault::Empty => body.clear(),
            Fault::Status(st) => status = *st,
            Fault::LengthLie(k) => {
                declared = Some(body.len() + *k);
                close_after = Some(body.len());
            }
            Fault::Garbage => {
                let _ = stream.write_all(b"\x00\x01garbage not http\r\n\r\n");
                let _ = stream.flush();
                let _ = stream.shutdown(Shutdown::Both);
                return;
            }
            Fault::RedirectLoop(_) => {
                let hop = shared.lock().unwrap().reqno;
                let _ = stream.write_all(format!("HTTP/1.1 302 Found\r\nLocation: /archive.cba?hop={hop}\r\nContent-Length: 0\r\n\r\n").as_bytes());
                let _ = stream.flush();
                continue;
            }
            Fault::Redirect => {
                let _ = stream.write_all(b"HTTP/1.1 302 Found\r\nLocation: /archive.cba\r\nContent-Length: 0\r\n\r\n");
                let _ = stream.flush();
                continue;
            }
        }
        let clen = declared.unwrap_or(body.len());
        let chunked = fault == Fault::Chunked;
        let mut headbuf = if chunked {
            format!("HTTP/1.1 {} X\r\nTransfer-Encoding: chunked\r\nAccept-Ranges: bytes\r\n", status)
        } else {
            format!("HTTP/1.1 {} X\r\nContent-Length: {}\r\nAccept-Ranges: bytes\r\n", status, clen)
        };
        if let Fault::BadContentRange(k) = &fault {
            let v: &[u8] = [&b"*/0"[..], &b"0-13"[..], &b""[..], &b"bytes \xff\xfe-\xff/9"[..], &b"bytes"[..]][*k % 5];
            let mut raw = headbuf.into_bytes();
            raw.extend_from_slice(b"Content-Range: ");
            raw.extend_from_slice(v);
            raw.extend_from_slice(b"\r\n");
            // (the head is sent as raw bytes below: a header value need not be UTF-8)
            headbuf = unsafe { String::from_utf8_unchecked(raw) };
        } else if let (206, Some((a, _))) = (status, range) {
            headbuf.push_str(&format!("Content-Range: bytes {}-{}/{}\r\n", a, a + body.len().max(1) as u64 - 1, flen));
        }
        if !keep_alive {
            headbuf.push_str("Connection: close\r\n");
        }
        headbuf.push_str("\r\n");
        let send = close_after.unwrap_or(body.len());
        let mut ok = stream.write_all(headbuf.as_bytes()).is_ok();
        let mut pos = 0usize;
        let mut cuts: Vec<usize> = splits.iter().copied().filter(|&s| s > 0 && s < send).collect();
        cuts.sort();
        cuts.dedup();
        cuts.push(send);
        for c in cuts {
            if !ok {
                break;
            }
            if chunked {
                if c > pos {
                    ok = stream.write_all(format!("{:x}\r\n", c - pos).as_bytes()).is_ok() && stream.write_all(&body[pos..c]).is_ok() && stream.write_all(b"\r\n").is_ok() && stream.flush().is_ok();
                }
            } else {
                ok = stream.write_all(&body[pos..c]).is_ok() && stream.flush().is_ok();
            }
            pos = c;
            if c < send {
                std::thread::sleep(Duration::from_micros(1500));
            }
        }
        if matches!(fault, Fault::Stall(_)) {
            std::thread::sleep(Duration::from_secs(4));
        }
        if let Fault::Linger(secs) = fault {
            std::thread::sleep(Duration::from_secs(secs));
            let _ = stream.shutdown(Shutdown::Both);
            return;
        }
        if chunked && ok {
            ok = stream.write_all(b"0\r\n\r\n").is_ok() && stream.flush().is_ok();
        }
        {
            let mut s = shared.lock().unwrap();
            if s.generation == gen {
                if let Some(e) = s.log.get_mut(slot) {
                    e.sent = pos;
                }
            }
        }
        if close_after.is_some() || !ok || !keep_alive {
            let _ = stream.shutdown(Shutdown::Both);
            return;
        }
    }
}
