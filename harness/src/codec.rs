//! Independent archive codec (DESIGN.md 3.1).
//!
//! A hand-written encoder/decoder of the bita archive format, written from the format
//! documentation only (the table in `bitar/src/header.rs` and `bitar/proto/chunk_dictionary.proto`).
//! It has its own protobuf wire reader/writer and calls the compression back-ends (brotli, zstd,
//! lzma) and blake2 directly. Outside of `#[cfg(test)]` nothing from the `bitar` crate is used.
//!
//! Layout: magic(6) | dictionary size u64le(8) | protobuf dictionary(n) | chunk data offset u64le(8)
//! | Blake2b-512 of all preceding bytes(64) | ... chunk data at `chunk data offset` ...
use blake2::{Blake2b512, Digest};
use std::collections::{BTreeMap, HashMap, HashSet};
use std::io::Write;

pub const MAGIC: &[u8; 6] = b"BITA1\0";
pub const LEGACY_MAGIC: &[u8; 6] = b"\0BITA1";
/// magic + dictionary size
pub const PRE_HEADER_LEN: usize = 6 + 8;
/// chunk data offset + header checksum
pub const TRAILER_LEN: usize = 8 + 64;
/// Unknown fields written by `EncOpts::inject_unknown`.
pub const INJECT_VARINT_FIELD: u32 = 15;
pub const INJECT_VARINT_VALUE: u64 = 7;
pub const INJECT_LEN_FIELD: u32 = 1000;
pub const INJECT_LEN_BYTES: [u8; 3] = [0xde, 0x00, 0xad];
/// `ref_unpack` refuses to rebuild sources larger than this (guards against adversarial headers).
pub const REF_UNPACK_LIMIT: u64 = 1 << 30;

pub const COMP_NONE: u32 = 0;
pub const COMP_LZMA: u32 = 1;
pub const COMP_ZSTD: u32 = 2;
pub const COMP_BROTLI: u32 = 3;

#[derive(Clone, Debug, PartialEq, Eq, Default)]
pub struct Desc {
    pub checksum: Vec<u8>,
    pub archive_size: u32,
    pub archive_offset: u64,
    pub source_size: u32,
}

#[derive(Clone, Debug, PartialEq, Eq, Default)]
pub struct Params {
    pub chunk_filter_bits: u32,
    pub min_chunk_size: u32,
    pub max_chunk_size: u32,
    pub rolling_hash_window_size: u32,
    pub chunk_hash_length: u32,
    /// raw enum value: 0 BUZHASH, 1 ROLLSUM, 2 FIXED_SIZE
    pub chunking_algorithm: u32,
}

#[derive(Clone, Debug, PartialEq, Eq, Default)]
pub struct Comp {
    /// raw enum value: 0 NONE, 1 LZMA, 2 ZSTD, 3 BROTLI
    pub compression: u32,
    pub compression_level: u32,
}

/// Raw unknown field kept verbatim: (field number, wire type, raw bytes of the value incl. the
/// length prefix for wire type 2).
#[derive(Clone, Debug, PartialEq, Eq)]
pub struct Unknown {
    pub field: u32,
    pub wire: u8,
    pub raw: Vec<u8>,
}

#[derive(Clone, Debug, PartialEq, Eq, Default)]
pub struct Dict {
    pub application_version: String,
    pub source_checksum: Vec<u8>,
    pub source_total_size: u64,
    pub chunker_params: Option<Params>,
    pub chunk_compression: Option<Comp>,
    pub rebuild_order: Vec<u32>,
    pub chunk_descriptors: Vec<Desc>,
    /// in the order found in the file / to be written
    pub metadata: Vec<(String, Vec<u8>)>,
    /// unknown top-level fields (decoder fills; encoder appends them at the end)
    pub unknown: Vec<Unknown>,
}

#[derive(Clone, Debug)]
pub struct Decoded {
    pub magic: [u8; 6],
    pub dictionary_size: u64,
    pub dict: Dict,
    pub chunk_data_offset: u64,
    pub header_checksum: [u8; 64],
    /// 6 + 8 + dictionary_size + 8 + 64
    pub header_len: usize,
    /// recomputed Blake2b-512 over bytes[..header_len-64] equals the stored one
    pub header_checksum_ok: bool,
    /// number of unknown fields seen at any nesting level
    pub unknown_fields: usize,
    /// false iff at least one rebuild_order element was written unpacked (wire type 0); informational
    pub rebuild_order_packed: bool,
}

// ------------------------------------------------------------------------------------------------
// protobuf wire format: reader
// ------------------------------------------------------------------------------------------------

const WT_VARINT: u8 = 0;
const WT_FIXED64: u8 = 1;
const WT_LEN: u8 = 2;
const WT_SGROUP: u8 = 3;
const WT_EGROUP: u8 = 4;
const WT_FIXED32: u8 = 5;

struct Rd<'a> {
    buf: &'a [u8],
    pos: usize,
}

impl<'a> Rd<'a> {
    fn new(buf: &'a [u8]) -> Self {
        Rd { buf, pos: 0 }
    }
    fn done(&self) -> bool {
        self.pos >= self.buf.len()
    }
    fn take(&mut self, n: usize) -> Result<&'a [u8], String> {
        let end = match self.pos.checked_add(n) {
            Some(e) if e <= self.buf.len() => e,
            _ => return Err(format!("truncated: need {} bytes at offset {} of {}", n, self.pos, self.buf.len())),
        };
        let s = &self.buf[self.pos..end];
        self.pos = end;
        Ok(s)
    }
    /// Base-128 varint, at most 10 bytes, must fit 64 bits. Non-minimal encodings are accepted
    /// (they are valid protobuf).
    fn varint(&mut self) -> Result<u64, String> {
        let mut v: u64 = 0;
        for i in 0..10u32 {
            let b = match self.buf.get(self.pos) {
                Some(b) => *b,
                None => return Err(format!("truncated varint at offset {}", self.pos)),
            };
            self.pos += 1;
            if i == 9 && b > 1 {
                return Err(format!("varint overflows 64 bits at offset {}", self.pos - 1));
            }
            v |= u64::from(b & 0x7f) << (7 * i);
            if b & 0x80 == 0 {
                return Ok(v);
            }
        }
        Err("varint longer than 10 bytes".to_string())
    }
    fn key(&mut self) -> Result<(u32, u8), String> {
        let k = self.varint()?;
        if k > u64::from(u32::MAX) {
            return Err(format!("field key {k} out of range"));
        }
        let field = (k >> 3) as u32;
        let wire = (k & 7) as u8;
        if field == 0 {
            return Err("field number 0".to_string());
        }
        Ok((field, wire))
    }
    fn len_delimited(&mut self) -> Result<&'a [u8], String> {
        let n = self.varint()?;
        let n = usize::try_from(n).map_err(|_| format!("length {n} does not fit usize"))?;
        self.take(n)
    }
    /// Skip one value of the given wire type, returning its raw bytes (incl. length prefix).
    fn skip(&mut self, field: u32, wire: u8) -> Result<&'a [u8], String> {
        let start = self.pos;
        match wire {
            WT_VARINT => {
                self.varint()?;
            }
            WT_FIXED64 => {
                self.take(8)?;
            }
            WT_LEN => {
                self.len_delimited()?;
            }
            WT_FIXED32 => {
                self.take(4)?;
            }
            WT_SGROUP | WT_EGROUP => return Err(format!("field {field}: group wire type {wire} not allowed")),
            _ => return Err(format!("field {field}: invalid wire type {wire}")),
        }
        Ok(&self.buf[start..self.pos])
    }
}

struct Ctx {
    unknown: usize,
    unpacked_seen: bool,
}

fn want(msg: &str, field: u32, wire: u8, expected: u8) -> Result<(), String> {
    if wire == expected {
        Ok(())
    } else {
        Err(format!("{msg}: field {field} has wire type {wire}, expected {expected}"))
    }
}
/// uint32 / enum: a 64-bit varint truncated to its low 32 bits (standard protobuf parser behaviour).
fn rd_u32(r: &mut Rd, msg: &str, field: u32, wire: u8) -> Result<u32, String> {
    want(msg, field, wire, WT_VARINT)?;
    Ok(r.varint()? as u32)
}
fn rd_u64(r: &mut Rd, msg: &str, field: u32, wire: u8) -> Result<u64, String> {
    want(msg, field, wire, WT_VARINT)?;
    r.varint()
}
fn rd_len<'a>(r: &mut Rd<'a>, msg: &str, field: u32, wire: u8) -> Result<&'a [u8], String> {
    want(msg, field, wire, WT_LEN)?;
    r.len_delimited().map_err(|e| format!("{msg}: field {field}: {e}"))
}
fn rd_string(r: &mut Rd, msg: &str, field: u32, wire: u8) -> Result<String, String> {
    let b = rd_len(r, msg, field, wire)?;
    match std::str::from_utf8(b) {
        Ok(s) => Ok(s.to_string()),
        Err(_) => Err(format!("{msg}: field {field}: invalid UTF-8 in string")),
    }
}

fn merge_desc(buf: &[u8], d: &mut Desc, ctx: &mut Ctx) -> Result<(), String> {
    const M: &str = "ChunkDescriptor";
    let mut r = Rd::new(buf);
    while !r.done() {
        let (f, w) = r.key()?;
        match f {
            1 => d.checksum = rd_len(&mut r, M, f, w)?.to_vec(),
            3 => d.archive_size = rd_u32(&mut r, M, f, w)?,
            4 => d.archive_offset = rd_u64(&mut r, M, f, w)?,
            5 => d.source_size = rd_u32(&mut r, M, f, w)?,
            _ => {
                r.skip(f, w).map_err(|e| format!("{M}: {e}"))?;
                ctx.unknown += 1;
            }
        }
    }
    Ok(())
}

fn merge_params(buf: &[u8], p: &mut Params, ctx: &mut Ctx) -> Result<(), String> {
    const M: &str = "ChunkerParameters";
    let mut r = Rd::new(buf);
    while !r.done() {
        let (f, w) = r.key()?;
        match f {
            1 => p.chunk_filter_bits = rd_u32(&mut r, M, f, w)?,
            2 => p.min_chunk_size = rd_u32(&mut r, M, f, w)?,
            3 => p.max_chunk_size = rd_u32(&mut r, M, f, w)?,
            4 => p.rolling_hash_window_size = rd_u32(&mut r, M, f, w)?,
            5 => p.chunk_hash_length = rd_u32(&mut r, M, f, w)?,
            6 => p.chunking_algorithm = rd_u32(&mut r, M, f, w)?,
            _ => {
                r.skip(f, w).map_err(|e| format!("{M}: {e}"))?;
                ctx.unknown += 1;
            }
        }
    }
    Ok(())
}

fn merge_comp(buf: &[u8], c: &mut Comp, ctx: &mut Ctx) -> Result<(), String> {
    const M: &str = "ChunkCompression";
    let mut r = Rd::new(buf);
    while !r.done() {
        let (f, w) = r.key()?;
        match f {
            2 => c.compression = rd_u32(&mut r, M, f, w)?,
            3 => c.compression_level = rd_u32(&mut r, M, f, w)?,
            _ => {
                r.skip(f, w).map_err(|e| format!("{M}: {e}"))?;
                ctx.unknown += 1;
            }
        }
    }
    Ok(())
}

fn decode_map_entry(buf: &[u8], ctx: &mut Ctx) -> Result<(String, Vec<u8>), String> {
    const M: &str = "metadata entry";
    let mut r = Rd::new(buf);
    let (mut k, mut v) = (String::new(), Vec::new());
    while !r.done() {
        let (f, w) = r.key()?;
        match f {
            1 => k = rd_string(&mut r, M, f, w)?,
            2 => v = rd_len(&mut r, M, f, w)?.to_vec(),
            _ => {
                r.skip(f, w).map_err(|e| format!("{M}: {e}"))?;
                ctx.unknown += 1;
            }
        }
    }
    Ok((k, v))
}

fn decode_dict(buf: &[u8], ctx: &mut Ctx) -> Result<Dict, String> {
    const M: &str = "ChunkDictionary";
    let mut r = Rd::new(buf);
    let mut d = Dict::default();
    while !r.done() {
        let (f, w) = r.key()?;
        match f {
            1 => d.application_version = rd_string(&mut r, M, f, w)?,
            2 => d.source_checksum = rd_len(&mut r, M, f, w)?.to_vec(),
            3 => d.source_total_size = rd_u64(&mut r, M, f, w)?,
            4 => {
                let body = rd_len(&mut r, M, f, w)?;
                merge_params(body, d.chunker_params.get_or_insert_with(Params::default), ctx)?;
            }
            5 => {
                let body = rd_len(&mut r, M, f, w)?;
                merge_comp(body, d.chunk_compression.get_or_insert_with(Comp::default), ctx)?;
            }
            6 => match w {
                WT_VARINT => {
                    ctx.unpacked_seen = true;
                    d.rebuild_order.push(r.varint()? as u32);
                }
                WT_LEN => {
                    let body = r.len_delimited().map_err(|e| format!("{M}: field 6: {e}"))?;
                    let mut p = Rd::new(body);
                    while !p.done() {
                        d.rebuild_order.push(p.varint()? as u32);
                    }
                }
                _ => return Err(format!("{M}: field 6 has wire type {w}, expected 0 or 2")),
            },
            7 => {
                let body = rd_len(&mut r, M, f, w)?;
                let mut desc = Desc::default();
                merge_desc(body, &mut desc, ctx)?;
                d.chunk_descriptors.push(desc);
            }
            8 => {
                let body = rd_len(&mut r, M, f, w)?;
                d.metadata.push(decode_map_entry(body, ctx)?);
            }
            _ => {
                let raw = r.skip(f, w).map_err(|e| format!("{M}: {e}"))?;
                ctx.unknown += 1;
                d.unknown.push(Unknown { field: f, wire: w, raw: raw.to_vec() });
            }
        }
    }
    Ok(d)
}

/// Strict decoder of the documented layout. See the module documentation for the error policy:
/// a wrong header checksum is reported via `header_checksum_ok`, everything else malformed is Err.
pub fn decode(bytes: &[u8]) -> Result<Decoded, String> {
    if bytes.len() < MAGIC.len() {
        return Err(format!("too short: {} bytes, no room for the magic", bytes.len()));
    }
    let mut magic = [0u8; 6];
    magic.copy_from_slice(&bytes[..6]);
    if &magic != MAGIC && &magic != LEGACY_MAGIC {
        return Err(format!("bad magic: {magic:02x?}"));
    }
    if bytes.len() < PRE_HEADER_LEN + TRAILER_LEN {
        return Err(format!("too short: {} bytes, minimal header is {}", bytes.len(), PRE_HEADER_LEN + TRAILER_LEN));
    }
    let mut sz = [0u8; 8];
    sz.copy_from_slice(&bytes[6..14]);
    let dictionary_size = u64::from_le_bytes(sz);
    let header_len = usize::try_from(dictionary_size)
        .ok()
        .and_then(|n| n.checked_add(PRE_HEADER_LEN + TRAILER_LEN))
        .filter(|&n| n <= bytes.len())
        .ok_or_else(|| format!("dictionary size {} runs past the end of the buffer ({} bytes)", dictionary_size, bytes.len()))?;
    let dict_end = header_len - TRAILER_LEN;
    let mut ctx = Ctx { unknown: 0, unpacked_seen: false };
    let dict = decode_dict(&bytes[PRE_HEADER_LEN..dict_end], &mut ctx).map_err(|e| format!("dictionary: {e}"))?;
    let mut off = [0u8; 8];
    off.copy_from_slice(&bytes[dict_end..dict_end + 8]);
    let mut header_checksum = [0u8; 64];
    header_checksum.copy_from_slice(&bytes[dict_end + 8..header_len]);
    let header_checksum_ok = blake2b512(&bytes[..dict_end + 8]) == header_checksum;
    Ok(Decoded {
        magic,
        dictionary_size,
        dict,
        chunk_data_offset: u64::from_le_bytes(off),
        header_checksum,
        header_len,
        header_checksum_ok,
        unknown_fields: ctx.unknown,
        rebuild_order_packed: !ctx.unpacked_seen,
    })
}

// ------------------------------------------------------------------------------------------------
// protobuf wire format: writer
// ------------------------------------------------------------------------------------------------

#[derive(Clone, Debug, Default)]
pub struct EncOpts {
    pub legacy_magic: bool,
    /// absolute chunk data offset to record; None = header length (data follows the header directly)
    pub chunk_data_offset: Option<u64>,
    /// inject unknown fields (varint field #15 = 7 and length-delimited field #1000 with 3 bytes)
    /// at the end of the dictionary, each descriptor, the chunker params and the compression message
    pub inject_unknown: bool,
    /// write rebuild_order unpacked (one tag per element) instead of packed
    pub unpacked_rebuild_order: bool,
    /// emit default-valued scalars explicitly (and an empty packed rebuild_order)
    pub emit_defaults: bool,
}

pub fn put_varint(out: &mut Vec<u8>, mut v: u64) {
    while v >= 0x80 {
        out.push((v as u8 & 0x7f) | 0x80);
        v >>= 7;
    }
    out.push(v as u8);
}
fn put_key(out: &mut Vec<u8>, field: u32, wire: u8) {
    put_varint(out, (u64::from(field) << 3) | u64::from(wire & 7));
}
fn put_uint(out: &mut Vec<u8>, field: u32, v: u64, o: &EncOpts) {
    if v != 0 || o.emit_defaults {
        put_key(out, field, WT_VARINT);
        put_varint(out, v);
    }
}
fn put_len(out: &mut Vec<u8>, field: u32, body: &[u8]) {
    put_key(out, field, WT_LEN);
    put_varint(out, body.len() as u64);
    out.extend_from_slice(body);
}
fn put_bytes(out: &mut Vec<u8>, field: u32, b: &[u8], o: &EncOpts) {
    if !b.is_empty() || o.emit_defaults {
        put_len(out, field, b);
    }
}
fn put_injected(out: &mut Vec<u8>, o: &EncOpts) {
    if o.inject_unknown {
        put_key(out, INJECT_VARINT_FIELD, WT_VARINT);
        put_varint(out, INJECT_VARINT_VALUE);
        put_len(out, INJECT_LEN_FIELD, &INJECT_LEN_BYTES);
    }
}

fn encode_desc(d: &Desc, o: &EncOpts) -> Vec<u8> {
    let mut b = Vec::new();
    put_bytes(&mut b, 1, &d.checksum, o);
    put_uint(&mut b, 3, u64::from(d.archive_size), o);
    put_uint(&mut b, 4, d.archive_offset, o);
    put_uint(&mut b, 5, u64::from(d.source_size), o);
    put_injected(&mut b, o);
    b
}
fn encode_params(p: &Params, o: &EncOpts) -> Vec<u8> {
    let mut b = Vec::new();
    put_uint(&mut b, 1, u64::from(p.chunk_filter_bits), o);
    put_uint(&mut b, 2, u64::from(p.min_chunk_size), o);
    put_uint(&mut b, 3, u64::from(p.max_chunk_size), o);
    put_uint(&mut b, 4, u64::from(p.rolling_hash_window_size), o);
    put_uint(&mut b, 5, u64::from(p.chunk_hash_length), o);
    put_uint(&mut b, 6, u64::from(p.chunking_algorithm), o);
    put_injected(&mut b, o);
    b
}
fn encode_comp(c: &Comp, o: &EncOpts) -> Vec<u8> {
    let mut b = Vec::new();
    put_uint(&mut b, 2, u64::from(c.compression), o);
    put_uint(&mut b, 3, u64::from(c.compression_level), o);
    put_injected(&mut b, o);
    b
}

/// Only the protobuf dictionary bytes.
pub fn encode_dict(dict: &Dict, opts: &EncOpts) -> Vec<u8> {
    let o = opts;
    let mut b = Vec::new();
    put_bytes(&mut b, 1, dict.application_version.as_bytes(), o);
    put_bytes(&mut b, 2, &dict.source_checksum, o);
    put_uint(&mut b, 3, dict.source_total_size, o);
    if let Some(p) = &dict.chunker_params {
        put_len(&mut b, 4, &encode_params(p, o));
    }
    if let Some(c) = &dict.chunk_compression {
        put_len(&mut b, 5, &encode_comp(c, o));
    }
    if o.unpacked_rebuild_order {
        for &i in &dict.rebuild_order {
            put_key(&mut b, 6, WT_VARINT);
            put_varint(&mut b, u64::from(i));
        }
    } else if !dict.rebuild_order.is_empty() || o.emit_defaults {
        let mut packed = Vec::new();
        for &i in &dict.rebuild_order {
            put_varint(&mut packed, u64::from(i));
        }
        put_len(&mut b, 6, &packed);
    }
    for d in &dict.chunk_descriptors {
        put_len(&mut b, 7, &encode_desc(d, o));
    }
    for (k, v) in &dict.metadata {
        let mut e = Vec::new();
        put_bytes(&mut e, 1, k.as_bytes(), o);
        put_bytes(&mut e, 2, v, o);
        put_len(&mut b, 8, &e);
    }
    put_injected(&mut b, o);
    for u in &dict.unknown {
        put_key(&mut b, u.field, u.wire);
        b.extend_from_slice(&u.raw);
    }
    b
}

fn header_len_for(dict_len: usize) -> usize {
    PRE_HEADER_LEN + dict_len + TRAILER_LEN
}

fn assemble_header(dict_bytes: &[u8], opts: &EncOpts) -> Vec<u8> {
    let header_len = header_len_for(dict_bytes.len());
    let mut h = Vec::with_capacity(header_len);
    h.extend_from_slice(if opts.legacy_magic { LEGACY_MAGIC } else { MAGIC });
    h.extend_from_slice(&(dict_bytes.len() as u64).to_le_bytes());
    h.extend_from_slice(dict_bytes);
    h.extend_from_slice(&opts.chunk_data_offset.unwrap_or(header_len as u64).to_le_bytes());
    let sum = blake2b512(&h);
    h.extend_from_slice(&sum);
    h
}

/// Encode a full header: magic, u64le dictionary size, dictionary, u64le chunk data offset,
/// Blake2b-512 of everything before.
pub fn encode_header(dict: &Dict, opts: &EncOpts) -> Vec<u8> {
    assemble_header(&encode_dict(dict, opts), opts)
}

pub fn blake2b512(data: &[u8]) -> [u8; 64] {
    let mut h = Blake2b512::new();
    h.update(data);
    let mut out = [0u8; 64];
    out.copy_from_slice(&h.finalize());
    out
}

// ------------------------------------------------------------------------------------------------
// compression back-ends
// ------------------------------------------------------------------------------------------------

/// compression: raw enum value as in `Comp::compression` (0 none: returns data unchanged).
pub fn compress(compression: u32, level: u32, data: &[u8]) -> Result<Vec<u8>, String> {
    let mut out = Vec::with_capacity(data.len() / 2 + 64);
    match compression {
        COMP_NONE => out.extend_from_slice(data),
        COMP_LZMA => {
            let mut w = lzma::LzmaWriter::new_compressor(&mut out, level).map_err(|e| format!("lzma: {e}"))?;
            w.write_all(data).map_err(|e| format!("lzma: {e}"))?;
            w.finish().map_err(|e| format!("lzma: {e}"))?;
        }
        COMP_ZSTD => {
            let level = i32::try_from(level).map_err(|_| format!("zstd: level {level} out of range"))?;
            zstd::stream::copy_encode(data, &mut out, level).map_err(|e| format!("zstd: {e}"))?;
        }
        COMP_BROTLI => {
            let quality = i32::try_from(level).map_err(|_| format!("brotli: level {level} out of range"))?;
            let params = brotli::enc::backward_references::BrotliEncoderParams { quality, magic_number: false, ..Default::default() };
            // The stream is finished when the writer is dropped.
            let mut w = brotli::CompressorWriter::with_params(&mut out, 1024 * 1024, &params);
            w.write_all(data).map_err(|e| format!("brotli: {e}"))?;
        }
        other => return Err(format!("unknown compression type {other}")),
    }
    Ok(out)
}

/// A Vec sink that refuses to grow past `cap` bytes (protects against decompression bombs).
struct Capped {
    out: Vec<u8>,
    cap: usize,
}
impl Write for Capped {
    fn write(&mut self, b: &[u8]) -> std::io::Result<usize> {
        match self.out.len().checked_add(b.len()) {
            Some(n) if n <= self.cap => {
                self.out.extend_from_slice(b);
                Ok(b.len())
            }
            _ => Err(std::io::Error::new(std::io::ErrorKind::Other, format!("output exceeds {} bytes", self.cap))),
        }
    }
    fn flush(&mut self) -> std::io::Result<()> {
        Ok(())
    }
}

fn decompress_capped(compression: u32, data: &[u8], size_hint: usize, cap: usize) -> Result<Vec<u8>, String> {
    let mut sink = Capped { out: Vec::with_capacity(size_hint.min(cap).min(1 << 26)), cap };
    match compression {
        COMP_NONE => sink.write_all(data).map_err(|e| format!("none: {e}"))?,
        COMP_LZMA => {
            let mut w = lzma::LzmaWriter::new_decompressor(&mut sink).map_err(|e| format!("lzma: {e}"))?;
            w.write_all(data).map_err(|e| format!("lzma: {e}"))?;
            w.finish().map_err(|e| format!("lzma: {e}"))?;
        }
        COMP_ZSTD => zstd::stream::copy_decode(data, &mut sink).map_err(|e| format!("zstd: {e}"))?,
        COMP_BROTLI => {
            let mut input = data;
            brotli_decompressor::BrotliDecompress(&mut input, &mut sink).map_err(|e| format!("brotli: {e}"))?;
        }
        other => return Err(format!("unknown compression type {other}")),
    }
    Ok(sink.out)
}

/// Decompress a chunk. `size_hint` only sizes the output buffer; no chunk of the format can exceed
/// u32::MAX bytes, so the output is capped there.
pub fn decompress(compression: u32, data: &[u8], size_hint: usize) -> Result<Vec<u8>, String> {
    decompress_capped(compression, data, size_hint, u32::MAX as usize)
}

// ------------------------------------------------------------------------------------------------
// chunk access shared by conformance / ref_unpack
// ------------------------------------------------------------------------------------------------

/// Stored bytes of a descriptor: bytes[chunk_data_offset + archive_offset ..][..archive_size].
fn stored_bytes<'a>(bytes: &'a [u8], chunk_data_offset: u64, d: &Desc) -> Result<&'a [u8], String> {
    let start = chunk_data_offset.checked_add(d.archive_offset);
    let end = start.and_then(|s| s.checked_add(u64::from(d.archive_size)));
    match (start.and_then(|s| usize::try_from(s).ok()), end.and_then(|e| usize::try_from(e).ok())) {
        (Some(s), Some(e)) if e <= bytes.len() => Ok(&bytes[s..e]),
        _ => Err(format!(
            "stored data at {}+{} size {} lies outside the file ({} bytes)",
            chunk_data_offset,
            d.archive_offset,
            d.archive_size,
            bytes.len()
        )),
    }
}

/// Decode one stored chunk ("stored size == source size" means raw, otherwise compressed with the
/// archive-wide compression) and verify Blake2b-512(chunk)[..checksum.len()] == checksum.
fn decode_chunk(bytes: &[u8], chunk_data_offset: u64, d: &Desc, compression: u32) -> Result<Vec<u8>, String> {
    let stored = stored_bytes(bytes, chunk_data_offset, d)?;
    let source_size = usize::try_from(d.source_size).map_err(|_| "source_size does not fit usize".to_string())?;
    let chunk = if d.archive_size == d.source_size {
        stored.to_vec()
    } else {
        if compression == COMP_NONE {
            return Err(format!("stored size {} != source size {} but the archive compression is NONE", d.archive_size, d.source_size));
        }
        let out = decompress_capped(compression, stored, source_size, source_size).map_err(|e| format!("does not decompress to source_size {source_size}: {e}"))?;
        if out.len() != source_size {
            return Err(format!("decompresses to {} bytes, source_size is {}", out.len(), source_size));
        }
        out
    };
    if d.checksum.is_empty() || d.checksum.len() > 64 {
        return Err(format!("checksum length {} not in 1..=64", d.checksum.len()));
    }
    if blake2b512(&chunk)[..d.checksum.len()] != d.checksum[..] {
        return Err("checksum mismatch".to_string());
    }
    Ok(chunk)
}

/// Reference "clone": decode the archive and rebuild the source purely with this codec.
/// Missing chunker_params / chunk_compression sub-messages are treated as proto3 defaults
/// (compression NONE). Only descriptors referenced by rebuild_order are read.
pub fn ref_unpack(bytes: &[u8]) -> Result<Vec<u8>, String> {
    let d = decode(bytes)?;
    if !d.header_checksum_ok {
        return Err("header checksum mismatch".to_string());
    }
    let dict = &d.dict;
    let compression = dict.chunk_compression.as_ref().map(|c| c.compression).unwrap_or(COMP_NONE);
    let mut total: u64 = 0;
    for (pos, &i) in dict.rebuild_order.iter().enumerate() {
        let desc = usize::try_from(i)
            .ok()
            .and_then(|i| dict.chunk_descriptors.get(i))
            .ok_or_else(|| format!("rebuild_order[{}] = {} but there are {} descriptors", pos, i, dict.chunk_descriptors.len()))?;
        total = total.checked_add(u64::from(desc.source_size)).ok_or_else(|| "source size overflow".to_string())?;
    }
    if total != dict.source_total_size {
        return Err(format!("sum of chunk sizes {} != source_total_size {}", total, dict.source_total_size));
    }
    if total > REF_UNPACK_LIMIT {
        return Err(format!("source of {total} bytes is too large for the reference unpacker"));
    }
    let mut cache: Vec<Option<Vec<u8>>> = vec![None; dict.chunk_descriptors.len()];
    let mut out = Vec::with_capacity(total as usize);
    for &i in &dict.rebuild_order {
        let i = i as usize;
        if cache[i].is_none() {
            let c = decode_chunk(bytes, d.chunk_data_offset, &dict.chunk_descriptors[i], compression).map_err(|e| format!("chunk {i}: {e}"))?;
            cache[i] = Some(c);
        }
        if let Some(c) = &cache[i] {
            out.extend_from_slice(c);
        }
    }
    if dict.source_checksum[..] != blake2b512(&out)[..] {
        return Err("source checksum mismatch".to_string());
    }
    Ok(out)
}

// ------------------------------------------------------------------------------------------------
// independent archive builder
// ------------------------------------------------------------------------------------------------

/// How an archive should be laid out by `build_archive`.
#[derive(Clone, Debug)]
pub struct Recipe {
    /// `enc.chunk_data_offset` is ignored by `build_archive` (it is always header_len + slack).
    pub enc: EncOpts,
    /// bytes of padding between header end and chunk data start
    pub slack: usize,
    /// permutation of 0..unique_chunks: order in which unique chunks are physically stored
    /// (empty = descriptor order)
    pub order: Vec<usize>,
    /// padding bytes AFTER each physically stored chunk, by physical position; shorter = 0 for the rest
    pub gaps: Vec<usize>,
    /// per unique chunk (descriptor index): true = store raw even if compression would shrink it.
    /// When false (or missing) the chunk is stored compressed iff compressed.len() < source len.
    pub raw: Vec<bool>,
    /// 1..=64 (bita itself uses 4..=64)
    pub hash_len: usize,
    /// recorded verbatim (chunk_hash_length is overwritten with hash_len)
    pub params: Params,
    pub comp: Comp,
    pub metadata: Vec<(String, Vec<u8>)>,
    pub app_version: String,
    pub pad_byte: u8,
}

pub struct Built {
    pub bytes: Vec<u8>,
    pub dict: Dict,
    pub header_len: usize,
    pub chunk_data_offset: u64,
}

/// Build a complete archive for `source` cut at `cuts` (end offsets of each chunk, strictly
/// increasing, last == source.len(); empty for an empty source). See `Recipe`.
pub fn build_archive(source: &[u8], cuts: &[usize], recipe: &Recipe) -> Result<Built, String> {
    if !(1..=64).contains(&recipe.hash_len) {
        return Err(format!("hash_len {} not in 1..=64", recipe.hash_len));
    }
    // 1. cut the source, deduplicate by the full hash
    let mut start = 0usize;
    let mut rebuild_order: Vec<u32> = Vec::with_capacity(cuts.len());
    let mut index_of: HashMap<[u8; 64], u32> = HashMap::new();
    let mut uniq: Vec<(&[u8], [u8; 64])> = Vec::new();
    for (n, &end) in cuts.iter().enumerate() {
        if end <= start || end > source.len() {
            return Err(format!("cut {n} = {end} is not in ({start}, {}]", source.len()));
        }
        let chunk = &source[start..end];
        if u32::try_from(chunk.len()).is_err() {
            return Err(format!("chunk {n} is larger than u32::MAX"));
        }
        let hash = blake2b512(chunk);
        let next = u32::try_from(uniq.len()).map_err(|_| "too many chunks".to_string())?;
        let idx = *index_of.entry(hash).or_insert_with(|| {
            uniq.push((chunk, hash));
            next
        });
        rebuild_order.push(idx);
        start = end;
    }
    if start != source.len() {
        return Err(format!("cuts end at {start} but the source has {} bytes", source.len()));
    }
    let n = uniq.len();
    let mut truncated = HashSet::new();
    for (_, h) in &uniq {
        if !truncated.insert(&h[..recipe.hash_len]) {
            return Err(format!("two distinct chunks share the same {}-byte checksum prefix", recipe.hash_len));
        }
    }
    // 2. storage form of each unique chunk
    let mut stored: Vec<Vec<u8>> = Vec::with_capacity(n);
    for (i, (chunk, _)) in uniq.iter().enumerate() {
        let raw = recipe.raw.get(i).copied().unwrap_or(false) || recipe.comp.compression == COMP_NONE;
        if raw {
            stored.push(chunk.to_vec());
        } else {
            let c = compress(recipe.comp.compression, recipe.comp.compression_level, chunk)?;
            stored.push(if c.len() < chunk.len() { c } else { chunk.to_vec() });
        }
    }
    // 3. physical order
    let order: Vec<usize> = if recipe.order.is_empty() { (0..n).collect() } else { recipe.order.clone() };
    let mut seen = vec![false; n];
    if order.len() != n {
        return Err(format!("order has {} entries for {} unique chunks", order.len(), n));
    }
    for &i in &order {
        if i >= n || seen[i] {
            return Err(format!("order is not a permutation of 0..{n}"));
        }
        seen[i] = true;
    }
    // 4. payload with offsets relative to the chunk data start
    let mut rel = vec![0u64; n];
    let mut payload: Vec<u8> = Vec::new();
    for (p, &i) in order.iter().enumerate() {
        rel[i] = payload.len() as u64;
        payload.extend_from_slice(&stored[i]);
        let gap = recipe.gaps.get(p).copied().unwrap_or(0);
        payload.resize(payload.len() + gap, recipe.pad_byte);
    }
    // 5. dictionary
    let mut params = recipe.params.clone();
    params.chunk_hash_length = recipe.hash_len as u32;
    let dict = Dict {
        application_version: recipe.app_version.clone(),
        source_checksum: blake2b512(source).to_vec(),
        source_total_size: source.len() as u64,
        chunker_params: Some(params),
        chunk_compression: Some(recipe.comp.clone()),
        rebuild_order,
        chunk_descriptors: (0..n)
            .map(|i| Desc {
                checksum: uniq[i].1[..recipe.hash_len].to_vec(),
                archive_size: stored[i].len() as u32,
                archive_offset: rel[i],
                source_size: uniq[i].0.len() as u32,
            })
            .collect(),
        metadata: recipe.metadata.clone(),
        unknown: Vec::new(),
    };
    // 6. header (its length does not depend on chunk_data_offset, a fixed-width field), slack, payload
    let dict_bytes = encode_dict(&dict, &recipe.enc);
    let header_len = header_len_for(dict_bytes.len());
    let chunk_data_offset = (header_len + recipe.slack) as u64;
    let mut enc = recipe.enc.clone();
    enc.chunk_data_offset = Some(chunk_data_offset);
    let mut bytes = assemble_header(&dict_bytes, &enc);
    if bytes.len() != header_len {
        return Err("internal: header length mismatch".to_string());
    }
    bytes.resize(header_len + recipe.slack, recipe.pad_byte);
    bytes.extend_from_slice(&payload);
    Ok(Built { bytes, dict, header_len, chunk_data_offset })
}

// ------------------------------------------------------------------------------------------------
// conformance checklist for archives written by bita's compress
// ------------------------------------------------------------------------------------------------

/// What compress was asked to do, for `conformance`.
#[derive(Clone, Debug)]
pub struct Requested {
    /// expected recorded parameters (incl. chunk_hash_length)
    pub params: Params,
    /// expected recorded compression (NONE implies level 0)
    pub comp: Comp,
    /// expected metadata as a set of pairs (order-insensitive; duplicate keys: last wins)
    pub metadata: Vec<(String, Vec<u8>)>,
    /// reference chunking of the source (end offsets); None = do not check boundaries
    pub expected_cuts: Option<Vec<usize>>,
}

const MAX_ISSUES_PER_TAG: usize = 8;

struct Issues {
    list: Vec<String>,
    per_tag: BTreeMap<&'static str, usize>,
}
impl Issues {
    fn add(&mut self, tag: &'static str, msg: String) {
        let n = self.per_tag.entry(tag).or_insert(0);
        *n += 1;
        if *n <= MAX_ISSUES_PER_TAG {
            self.list.push(format!("{tag}: {msg}"));
        }
    }
    fn finish(mut self) -> Vec<String> {
        for (tag, n) in &self.per_tag {
            if *n > MAX_ISSUES_PER_TAG {
                self.list.push(format!("{tag}: {} further issues suppressed", n - MAX_ISSUES_PER_TAG));
            }
        }
        self.list
    }
}

fn as_map(pairs: &[(String, Vec<u8>)]) -> BTreeMap<&str, &[u8]> {
    pairs.iter().map(|(k, v)| (k.as_str(), v.as_slice())).collect()
}

/// Conformance checklist for an archive written by bita's compress; empty result = conforming.
/// Issue tags: magic, dict, offset, hdrsum, length, desc, chunk, rebuild, srcsum, params, meta, cuts.
pub fn conformance(bytes: &[u8], source: &[u8], req: &Requested) -> Vec<String> {
    let mut is = Issues { list: Vec::new(), per_tag: BTreeMap::new() };
    // 1/2: magic and strict decoding
    if bytes.len() >= 6 && &bytes[..6] != MAGIC {
        is.add("magic", format!("{:02x?} is not the current magic", &bytes[..6]));
    }
    let d = match decode(bytes) {
        Ok(d) => d,
        Err(e) => {
            is.add("dict", format!("header does not decode: {e}"));
            return is.finish();
        }
    };
    let dict = &d.dict;
    if d.unknown_fields != 0 {
        is.add("dict", format!("{} unknown fields", d.unknown_fields));
    }
    // 3/4: chunk data offset and header checksum
    if d.chunk_data_offset != d.header_len as u64 {
        is.add("offset", format!("chunk_data_offset {} != header length {}", d.chunk_data_offset, d.header_len));
    }
    if !d.header_checksum_ok {
        is.add("hdrsum", "stored header checksum != Blake2b-512 of the preceding header bytes".to_string());
    }
    // 5: file length
    let stored_total: u64 = dict.chunk_descriptors.iter().fold(0u64, |a, c| a.saturating_add(u64::from(c.archive_size)));
    if d.chunk_data_offset.checked_add(stored_total) != Some(bytes.len() as u64) {
        is.add("length", format!("file length {} != chunk_data_offset {} + stored sizes {}", bytes.len(), d.chunk_data_offset, stored_total));
    }
    // 6: descriptors
    let hash_len = dict.chunker_params.as_ref().map(|p| p.chunk_hash_length).unwrap_or(0);
    let mut seen_sums: HashSet<&[u8]> = HashSet::new();
    let mut next_offset: u64 = 0;
    for (i, c) in dict.chunk_descriptors.iter().enumerate() {
        if !seen_sums.insert(&c.checksum) {
            is.add("desc", format!("descriptor {i}: checksum occurs more than once"));
        }
        if c.checksum.len() as u64 != u64::from(hash_len) {
            is.add("desc", format!("descriptor {i}: checksum length {} != chunk_hash_length {}", c.checksum.len(), hash_len));
        }
        if c.archive_offset != next_offset {
            is.add("desc", format!("descriptor {i}: archive_offset {} but the preceding stored sizes sum to {}", c.archive_offset, next_offset));
        }
        next_offset = next_offset.saturating_add(u64::from(c.archive_size));
        if c.archive_size > c.source_size {
            is.add("desc", format!("descriptor {i}: archive_size {} > source_size {}", c.archive_size, c.source_size));
        }
        if c.archive_size == 0 || c.source_size == 0 {
            is.add("desc", format!("descriptor {i}: archive_size {} / source_size {} must be > 0", c.archive_size, c.source_size));
        }
    }
    // 7: every stored chunk decodes and matches its checksum
    let compression = dict.chunk_compression.as_ref().map(|c| c.compression).unwrap_or(COMP_NONE);
    let mut chunks: Vec<Option<Vec<u8>>> = Vec::with_capacity(dict.chunk_descriptors.len());
    for (i, c) in dict.chunk_descriptors.iter().enumerate() {
        match decode_chunk(bytes, d.chunk_data_offset, c, compression) {
            Ok(chunk) => chunks.push(Some(chunk)),
            Err(e) => {
                is.add("chunk", format!("descriptor {i}: {e}"));
                chunks.push(None);
            }
        }
    }
    // 8: rebuild order
    let ndesc = dict.chunk_descriptors.len();
    let mut referenced = vec![false; ndesc];
    let mut next_new = 0usize;
    let mut pos: u64 = 0;
    let mut content_ok = true;
    let mut cuts: Vec<u64> = Vec::with_capacity(dict.rebuild_order.len());
    for (n, &i) in dict.rebuild_order.iter().enumerate() {
        let i = match usize::try_from(i) {
            Ok(i) if i < ndesc => i,
            _ => {
                is.add("rebuild", format!("rebuild_order[{n}] = {i} but there are {ndesc} descriptors"));
                content_ok = false;
                continue;
            }
        };
        if !referenced[i] {
            referenced[i] = true;
            if i != next_new {
                is.add("rebuild", format!("rebuild_order[{n}]: first reference to descriptor {i} but descriptor {next_new} was expected next (first-occurrence order)"));
            }
            next_new = next_new.max(i.saturating_add(1));
        }
        let size = u64::from(dict.chunk_descriptors[i].source_size);
        if content_ok {
            if let Some(chunk) = &chunks[i] {
                let lo = usize::try_from(pos).ok();
                let hi = lo.and_then(|lo| lo.checked_add(chunk.len()));
                let same = match (lo, hi) {
                    (Some(lo), Some(hi)) if hi <= source.len() => source[lo..hi] == chunk[..],
                    _ => false,
                };
                if !same {
                    is.add("rebuild", format!("rebuild_order[{n}] (descriptor {i}): chunk differs from the source at offset {pos}"));
                    content_ok = false;
                }
            }
        }
        pos = pos.saturating_add(size);
        cuts.push(pos);
    }
    for (i, r) in referenced.iter().enumerate() {
        if !r {
            is.add("rebuild", format!("descriptor {i} is never referenced"));
        }
    }
    if pos != dict.source_total_size || pos != source.len() as u64 {
        is.add("rebuild", format!("sum of chunk sizes {} / source_total_size {} / source length {} differ", pos, dict.source_total_size, source.len()));
    }
    // 9: source checksum
    if dict.source_checksum[..] != blake2b512(source)[..] {
        is.add("srcsum", format!("source_checksum ({} bytes) != Blake2b-512 of the source", dict.source_checksum.len()));
    }
    // 10: recorded parameters
    match &dict.chunker_params {
        None => is.add("params", "chunker_params missing".to_string()),
        Some(p) if *p != req.params => is.add("params", format!("recorded {:?} != requested {:?}", p, req.params)),
        _ => {}
    }
    match &dict.chunk_compression {
        None => is.add("params", "chunk_compression missing".to_string()),
        Some(c) if *c != req.comp => is.add("params", format!("recorded {:?} != requested {:?}", c, req.comp)),
        _ => {}
    }
    if dict.application_version.is_empty() {
        is.add("params", "application_version is empty".to_string());
    }
    let got = as_map(&dict.metadata);
    if got.len() != dict.metadata.len() {
        is.add("meta", "duplicate metadata keys in the file".to_string());
    }
    let exp = as_map(&req.metadata);
    if got != exp {
        for (k, v) in &exp {
            match got.get(k) {
                None => is.add("meta", format!("key {k:?} missing")),
                Some(g) if g != v => is.add("meta", format!("key {k:?}: value differs ({} vs {} bytes requested)", g.len(), v.len())),
                _ => {}
            }
        }
        for k in got.keys() {
            if !exp.contains_key(k) {
                is.add("meta", format!("unexpected key {k:?}"));
            }
        }
    }
    // 11: chunk boundaries
    if let Some(exp_cuts) = &req.expected_cuts {
        let same = cuts.len() == exp_cuts.len() && cuts.iter().zip(exp_cuts).all(|(a, b)| *a == *b as u64);
        if !same {
            let k = cuts.iter().zip(exp_cuts).position(|(a, b)| *a != *b as u64).unwrap_or(cuts.len().min(exp_cuts.len()));
            is.add(
                "cuts",
                format!("{} chunks recorded, {} expected; first difference at chunk {}: {:?} vs {:?}", cuts.len(), exp_cuts.len(), k, cuts.get(k), exp_cuts.get(k)),
            );
        }
    }
    is.finish()
}
