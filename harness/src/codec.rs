//! Independent archive codec (DESIGN.md 3.1).
//!
//! A hand-written encoder/decoder of the bita archive format, written from the format
//! documentation only (the table in `bitar/src/header.rs` and `bitar/proto/chunk_dictionary.proto`).
//! It has its own protobuf wire reader/writer and calls the compression back-ends (brotli, zstd,
//! lzma) and blake2 directly. Outside of `#[cfg(test)]` nothing from the `bitar` crate is used.
//!
//! Layout: magic(6) | dictionary size u64le(8) | protobuf dictionary(n) | chunk data offset u64le(8)
//! | Blake2b-512 of all preceding bytes(64) | ... chunk data at `chunk data offset` ...
use blake2::{Blake2b512, Digest};
use std::collections::{BTreeMap, HashMap, HashSet};
use std::io::Write;

pub const MAGIC: &[u8; 6] = b"BITA1\0";
pub const LEGACY_MAGIC: &[u8; 6] = b"\0BITA1";
/// magic + dictionary size
pub const PRE_HEADER_LEN: usize = 6 + 8;
/// chunk data offset + header checksum
pub const TRAILER_LEN: usize = 8 + 64;
/// Unknown fields written by `EncOpts::inject_unknown`.
pub const INJECT_VARINT_FIELD: u32 = 15;
pub const INJECT_VARINT_VALUE: u64 = 7;
pub const INJECT_LEN_FIELD: u32 = 1000;
pub const INJECT_LEN_BYTES: [u8; 3] = [0xde, 0x00, 0xad];
/// `ref_unpack` refuses to rebuild sources larger than this (guards against adversarial headers).
pub const REF_UNPACK_LIMIT: u64 = 1 << 30;

pub const COMP_NONE: u32 = 0;
pub const COMP_LZMA: u32 = 1;
pub const COMP_ZSTD: u32 = 2;
pub const COMP_BROTLI: u32 = 3;

#[derive(Clone, Debug, PartialEq, Eq, Default)]
pub struct Desc {
    pub checksum: Vec<u8>,
    pub archive_size: u32,
    pub archive_offset: u64,
    pub source_size: u32,
}

#[derive(Clone, Debug, PartialEq, Eq, Default)]
pub struct Params {
    pub chunk_filter_bits: u32,
    pub min_chunk_size: u32,
    pub max_chunk_size: u32,
    pub rolling_hash_window_size: u32,
    pub chunk_hash_length: u32,
    /// raw enum value: 0 BUZHASH, 1 ROLLSUM, 2 FIXED_SIZE
    pub chunking_algorithm: u32,
}

#[derive(Clone, Debug, PartialEq, Eq, Default)]
pub struct Comp {
    /// raw enum value: 0 NONE, 1 LZMA, 2 ZSTD, 3 BROTLI
    pub compression: u32,
    pub compression_level: u32,
}

/// Raw unknown field kept verbatim: (field number, wire type, raw bytes of the value incl. the
/// length prefix for wire type 2).
#[derive(Clone, Debug, PartialEq, Eq)]
pub struct Unknown {
    pub field: u32,
    pub wire: u8,
    pub raw: Vec<u8>,
}

#[derive(Clone, Debug, PartialEq, Eq, Default)]
pub struct Dict {
    pub application_version: String,
    pub source_checksum: Vec<u8>,
    pub source_total_size: u64,
    pub chunker_params: Option<Params>,
    pub chunk_compression: Option<Comp>,
    pub rebuild_order: Vec<u32>,
    pub chunk_descriptors: Vec<Desc>,
    /// in the order found in the file / to be written
    pub metadata: Vec<(String, Vec<u8>)>,
    /// unknown top-level fields (decoder fills; encoder appends them at the end)
    pub unknown: Vec<Unknown>,
}

#[derive(Clone, Debug)]
pub struct Decoded {
    pub magic: [u8; 6],
    pub dictionary_size: u64,
    pub dict: Dict,
    pub chunk_data_offset: u64,
    pub header_checksum: [u8; 64],
    /// 6 + 8 + dictionary_size + 8 + 64
    pub header_len: usize,
    /// recomputed Blake2b-512 over bytes[..header_len-64] equals the stored one
    pub header_checksum_ok: bool,
    /// number of unknown fields seen at any nesting level
    pub unknown_fields: usize,
    /// false iff at least one rebuild_order element was written unpacked (wire type 0); informational
    pub rebuild_order_packed: bool,
}

// ------------------------------------------------------------------------------------------------
// protobuf wire format: reader
// ------------------------------------------------------------------------------------------------

const WT_VARINT: u8 = 0;
const WT_FIXED64: u8 = 1;
const WT_LEN: u8 = 2;
const WT_SGROUP: u8 = 3;
const WT_EGROUP: u8 = 4;
const WT_FIXED32: u8 = 5;

struct Rd<'a> {
    buf: &'a [u8],
    pos: usize,
}

impl<'a> Rd<'a> {
    fn new(buf: &'a [u8]) -> Self {
        Rd { buf, pos: 0 }
    }
    fn done(&self) -> bool {
        self.pos >= self.buf.len()
    }
    fn take(&mut self, n: usize) -> Result<&'a [u8], String> {
        let end = match self.pos.checked_add(n) {
            Some(e) if e <= self.buf.len() => e,
            _ => return Err(format!("truncated: need {} bytes at offset {} of {}", n, self.pos, self.buf.len())),
        };
        let s = &self.buf[self.pos..end];
        self.pos = end;
        Ok(s)
    }
    /// Base-128 varint, at most 10 bytes, must fit 64 bits. Non-minimal encodings are accepted
    /// (they are valid protobuf).
    fn varint(&mut self) -> Result<u64, String> {
        let mut v: u64 = 0;
        for i in 0..10u32 {
            let b = match self.buf.get(self.pos) {
                Some(b) => *b,
                None => return Err(format!("truncated varint at offset {}", self.pos)),
            };
            self.pos += 1;
            if i == 9 && b > 1 {
                return Err(format!("varint overflows 64 bits at offset {}", self.pos - 1));
            }
            v |= u64::from(b & 0x7f) << (7 * i);
            if b & 0x80 == 0 {
                return Ok(v);
            }
        }
        Err("varint longer than 10 bytes".to_string())
    }
    fn key(&mut self) -> Result<(u32, u8), String> {
        let k = self.varint()?;
        if k > u64::from(u32::MAX) {
            return Err(format!("field key {k} out of range"));
        }
        let field = (k >> 3) as u32;
        let wire = (k & 7) as u8;
        if field == 0 {
            return Err("field number 0".to_string());
        }
        Ok((field, wire))
    }
    fn len_delimited(&mut self) -> Result<&'a [u8], String> {
        let n = self.varint()?;
        let n = usize::try_from(n).map_err(|_| format!("length {n} does not fit usize"))?;
        self.take(n)
    }
    /// Skip one value of the given wire type, returning its raw bytes (incl. length prefix).
    fn skip(&mut self, field: u32, wire: u8) -> Result<&'a [u8], String> {
        let start = self.pos;
        match wire {
            WT_VARINT => {
                self.varint()?;
            }
            WT_FIXED64 => {
                self.take(8)?;
            }
            WT_LEN => {
                self.len_delimited()?;
            }
            WT_FIXED32 => {
                self.take(4)?;
            }
            WT_SGROUP | WT_EGROUP => return Err(format!("field {field}: group wire type {wire} not allowed")),
            _ => return Err(format!("field {field}: invalid wire type {wire}")),
        }
        Ok(&self.buf[start..self.pos])
    }
}

struct Ctx {
    unknown: usize,
    unpacked_seen: bool,
}

fn want(msg: &str, field: u32, wire: u8, expected: u8) -> Result<(), String> {
    if wire == expected {
        Ok(())
    } else {
        Err(format!("{msg}: field {field} has wire type {wire}, expected {expected}"))
    }
}
/// uint32 / enum: a 64-bit varint truncated to its low 32 bits (standard protobuf parser behaviour).
fn rd_u32(r: &mut Rd, msg: &str, field: u32, wire: u8) -> Result<u32, String> {
    want(msg, field, wire, WT_VARINT)?;
    Ok(r.varint()? as u32)
}
fn rd_u64(r: &mut Rd, msg: &str, field: u32, wire: u8) -> Result<u64, String> {
    want(msg, field, wire, WT_VARINT)?;
    r.varint()
}
fn rd_len<'a>(r: &mut Rd<'a>, msg: &str, field: u32, wire: u8) -> Result<&'a [u8], String> {
    want(msg, field, wire, WT_LEN)?;
    r.len_delimited().map_err(|e| format!("{msg}: field {field}: {e}"))
}
fn rd_string(r: &mut Rd, msg: &str, field: u32, wire: u8) -> Result<String, String> {
    let b = rd_len(r, msg, field, wire)?;
    match std::str::from_utf8(b) {
        Ok(s) => Ok(s.to_string()),
        Err(_) => Err(format!("{msg}: field {field}: invalid UTF-8 in string")),
    }
}

fn merge_desc(buf: &[u8], d: &mut Desc, ctx: &mut Ctx) -> Result<(), String> {
    const M: &str = "ChunkDescriptor";
    let mut r = Rd::new(buf);
    while !r.done() {
        let (f, w) = r.key()?;
        match f {
            1 => d.checksum = rd_len(&mut r, M, f, w)?.to_vec(),
            3 => d.archive_size = rd_u32(&mut r, M, f, w)?,
            4 => d.archive_offset = rd_u64(&mut r, M, f, w)?,
            5 => d.source_size = rd_u32(&mut r, M, f, w)?,
            _ => {
                r.skip(f, w).map_err(|e| format!("{M}: {e}"))?;
                ctx.unknown += 1;
            }
        }
    }
    Ok(())
}

fn merge_params(buf: &[u8], p: &mut Params, ctx: &mut Ctx) -> Result<(), String> {
    const M: &str = "ChunkerParameters";
    let mut r = Rd::new(buf);
    while !r.done() {
        let (f, w) = r.key()?;
        match f {
            1 => p.chunk_filter_bits = rd_u32(&mut r, M, f, w)?,
            2 => p.min_chunk_size = rd_u32(&mut r, M, f, w)?,
            3 => p.max_chunk_size = rd_u32(&mut r, M, f, w)?,
            4 => p.rolling_hash_window_size = rd_u32(&mut r, M, f, w)?,
            5 => p.chunk_hash_length = rd_u32(&mut r, M, f, w)?,
            6 => p.chunking_algorithm = rd_u32(&mut r, M, f, w)?,
            _ => {
                r.skip(f, w).map_err(|e| format!("{M}: {e}"))?;
                ctx.unknown += 1;
            }
        }
    }
    Ok(())
}

fn merge_comp(buf: &[u8], c: &mut Comp, ctx: &mut Ctx) -> Result<(), String> {
    const M: &str = "ChunkCompression";
    let mut r = Rd::new(buf);
    while !r.done() {
        let (f, w) = r.key()?;
        match f {
            2 => c.compression = rd_u32(&mut r, M, f, w)?,
            3 => c.compression_level = rd_u32(&mut r, M, f, w)?,
            _ => {
                r.skip(f, w).map_err(|e| format!("{M}: {e}"))?;
                ctx.unknown += 1;
            }
        }
    }
    Ok(())
}

fn decode_map_entry(buf: &[u8], ctx: &mut Ctx) -> Result<(String, Vec<u8>), String> {
    const M: &str = "metadata entry";
    let mut r = Rd::new(buf);
    let (mut k, mut v) = (String::new(), Vec::new());
    while !r.done() {
        let (f, w) = r.key()?;
        match f {
            1 => k = rd_string(&mut r, M, f, w)?,
            2 => v = rd_len(&mut r, M, f, w)?.to_vec(),
            _ => {
                r.skip(f, w).map_err(|e| format!("{M}: {e}"))?;
                ctx.unknown += 1;
            }
        }
    }
    Ok((k, v))
}

fn decode_dict(buf: &[u8], ctx: &mut Ctx) -> Result<Dict, String> {
    const M: &str = "ChunkDictionary";
    let mut r = Rd::new(buf);
    let mut d = Dict::default();
    while !r.done() {
        let (f, w) = r.key()?;
        match f {
            1 => d.application_version = rd_string(&mut r, M, f, w)?,
            2 => d.source_checksum = rd_len(&mut r, M, f, w)?.to_vec(),
            3 => d.source_total_size = rd_u64(&mut r, M, f, w)?,
            4 => {
                let body = rd_len(&mut r, M, f, w)?;
                merge_params(body, d.chunker_params.get_or_insert_with(Params::default), ctx)?;
            }
            5 => {
                let body = rd_len(&mut r, M, f, w)?;
                merge_comp(body, d.chunk_compression.get_or_insert_with(Comp::default), ctx)?;
            }
            6 => match w {
                WT_VARINT => {
                    ctx.unpacked_seen = true;
                    d.rebuild_order.push(r.varint()? as u32);
                }
                WT_LEN => {
                    let body = r.len_delimited().map_err(|e| format!("{M}: field 6: {e}"))?;
                    let mut p = Rd::new(body);
                    while !p.done() {
                        d.rebuild_order.push(p.varint()? as u32);
                    }
                }
                _ => return Err(format!("{M}: field 6 has wire type {w}, expected 0 or 2")),
            },
            7 => {
                let body = rd_len(&mut r, M, f, w)?;
                let mut desc = Desc::default();
                merge_desc(body, &mut desc, ctx)?;
                d.chunk_descriptors.push(desc);
            }
            8 => {
                let body = rd_len(&mut r, M, f, w)?;
                d.metadata.push(decode_map_entry(body, ctx)?);
            }
            _ => {
                let raw = r.skip(f, w).map_err(|e| format!("{M}: {e}"))?;
                ctx.unknown += 1;
                d.unknown.push(Unknown { field: f, wire: w, raw: raw.to_vec() });
            }
        }
    }
    Ok(d)
}

/// Strict decoder of the documented layout. See the module documentation for the error policy:
/// a wrong header checksum is reported via `header_checksum_ok`, everything else malformed is Err.
pub fn decode(bytes: &[u8]) -> Result<Decoded, String> {
    if bytes.len() < MAGIC.len() {
        return Err(format!("too short: {} bytes, no room for the magic", bytes.len()));
    }
    let mut magic = [0u8; 6];
    magic.copy_from_slice(&bytes[..6]);
    if &magic != MAGIC && &magic != LEGACY_MAGIC {
        return Err(format!("bad magic: {magic:02x?}"));
    }
    if bytes.len() < PRE_HEADER_LEN + TRAILER_LEN {
        return Err(format!("too short: {} bytes, minimal header is {}", bytes.len(), PRE_HEADER_LEN + TRAILER_LEN));
    }
    let mut sz = [0u8; 8];
    sz.copy_from_slice(&bytes[6..14]);
    let dictionary_size = u64::from_le_bytes(sz);
    let header_len = usize::try_from(dictionary_size)
        .ok()
        .and_then(|n| n.checked_add(PRE_HEADER_LEN + TRAILER_LEN))
        .filter(|&n| n <= bytes.len())
        .ok_or_else(|| format!("dictionary size {} runs past the end of the buffer ({} bytes)", dictionary_size, bytes.len()))?;
    let dict_end = header_len - TRAILER_LEN;
    let mut ctx = Ctx { unknown: 0, unpacked_seen: false };
    let dict = decode_dict(&bytes[PRE_HEADER_LEN..dict_end], &mut ctx).map_err(|e| format!("dictionary: {e}"))?;
    let mut off = [0u8; 8];
    off.copy_from_slice(&bytes[dict_end..dict_end + 8]);
    let mut header_checksum = [0u8; 64];
    header_checksum.copy_from_slice(&bytes[dict_end + 8..header_len]);
    let header_checksum_ok = blake2b512(&bytes[..dict_end + 8]) == header_checksum;
    Ok(Decoded {
        magic,
        dictionary_size,
        dict,
        chunk_data_offset: u64::from_le_bytes(off),
        header_checksum,
        header_len,
        header_checksum_ok,
        unknown_fields: ctx.unknown,
        rebuild_order_packed: !ctx.unpacked_seen,
    })
}

// ------------------------------------------------------------------------------------------------
// protobuf wire format: writer
// ------------------------------------------------------------------------------------------------

#[derive(Clone, Debug, Default)]
pub struct EncOpts {
    pub legacy_magic: bool,
    /// absolute chunk data offset to record; None = header length (data follows the header directly)
    pub chunk_data_offset: Option<u64>,
    /// inject unknown fields (varint field #15 = 7 and length-delimited field #1000 with 3 bytes)
    /// at the end of the dictionary, each descriptor, the chunker params and the compression message
    pub inject_unknown: bool,
    /// write rebuild_order unpacked (one tag per element) instead of packed
    pub unpacked_rebuild_order: bool,
    /// emit default-valued scalars explicitly (and an empty packed rebuild_order)
    pub emit_defaults: bool,
}

pub fn put_varint(out: &mut Vec<u8>, mut v: u64) {
    while v >= 0x80 {
        out.push((v as u8 & 0x7f) | 0x80);
        v >>= 7;
    }
    out.push(v as u8);
}
fn put_key(out: &mut Vec<u8>, field: u32, wire: u8) {
    put_varint(out, (u64::from(field) << 3) | u64::from(wire & 7));
}
fn put_uint(out: &mut Vec<u8>, field: u32, v: u64, o: &EncOpts) {
    if v != 0 || o.emit_defaults {
        put_key(out, field, WT_VARINT);
        put_varint(out, v);
    }
}
fn put_len(out: &mut Vec<u8>, field: u32, body: &[u8]) {
    put_key(out, field, WT_LEN);
    put_varint(out, body.len() as u64);
    out.extend_from_slice(body);
}
fn put_bytes(out: &mut Vec<u8>, field: u32, b: &[u8], o: &EncOpts) {
    if !b.is_empty() || o.emit_defaults {
        put_len(out, field, b);
    }
}
fn put_injected(out: &mut Vec<u8>, o: &EncOpts) {
    if o.inject_unknown {
        put_key(out, INJECT_VARINT_FIELD, WT_VARINT);
        put_varint(out, INJECT_VARINT_VALUE);
        put_len(out, INJECT_LEN_FIELD, &INJECT_LEN_BYTES);
    }
}

fn encode_desc(d: &Desc, o: &EncOpts) -> Vec<u8> {
    let mut b = Vec::new();
    put_bytes(&mut b, 1, &d.checksum, o);
    put_uint(&mut b, 3, u64::from(d.archive_size), o);
    put_uint(&mut b, 4, d.archive_offset, o);
    put_uint(&mut b, 5, u64::from(d.source_size), o);
    put_injected(&mut b, o);
    b
}
fn encode_params(p: &Params, o: &EncOpts) -> Vec<u8> {
    let mut b = Vec::new();
    put_uint(&mut b, 1, u64::from(p.chunk_filter_bits), o);
    put_uint(&mut b, 2, u64::from(p.min_chunk_size), o);
    put_uint(&mut b, 3, u64::from(p.max_chunk_size), o);
    put_uint(&mut b, 4, u64::from(p.rolling_hash_window_size), o);
    put_uint(&mut b, 5, u64::from(p.chunk_hash_length), o);
    put_uint(&mut b, 6, u64::from(p.chunking_algorithm), o);
    put_injected(&mut b, o);
    b
}
fn encode_comp(c: &Comp, o: &EncOpts) -> Vec<u8> {
    let mut b = Vec::new();
    put_uint(&mut b, 2, u64::from(c.compression), o);
    put_uint(&mut b, 3, u64::from(c.compression_level), o);
    put_injected(&mut b, o);
    b
}

/// Only the protobuf dictionary bytes.
pub fn encode_dict(dict: &Dict, opts: &EncOpts) -> Vec<u8> {
    let o = opts;
    let mut b = Vec::new();
    put_bytes(&mut b, 1, dict.application_version.as_bytes(), o);
    put_bytes(&mut b, 2, &dict.source_checksum, o);
    put_uint(&mut b, 3, dict.source_total_size, o);
    if let Some(p) = &dict.chunker_params {
        put_len(&mut b, 4, &encode_params(p, o));
    }
    if let Some(c) = &dict.chunk_compression {
        put_len(&mut b, 5, &encode_comp(c, o));
    }
    if o.unpacked_rebuild_order {
        for &i in &dict.rebuild_order {
            put_key(&mut b, 6, WT_VARINT);
            put_varint(&mut b, u64::from(i));
        }
    } else if !dict.rebuild_order.is_empty() || o.emit_defaults {
        let mut packed = Vec::new();
        for &i in &dict.rebuild_order {
            put_varint(&mut packed, u64::from(i));
        }
        put_len(&mut b, 6, &packed);
    }
    for d in &dict.chunk_descriptors {
        put_len(&mut b, 7, &encode_desc(d, o));
    }
    for (k, v) in &dict.metadata {
        let mut e = Vec::new();
        put_bytes(&mut e, 1, k.as_bytes(), o);
        put_bytes(&mut e, 2, v, o);
        put_len(&mut b, 8, &e);
    }
    put_injected(&mut b, o);
    for u in &dict.unknown {
        put_key(&mut b, u.field, u.wire);
        b.extend_from_slice(&u.raw);
    }
    b
}

fn header_len_for(dict_len: usize) -> usize {
    PRE_HEADER_LEN + dict_len + TRAILER_LEN
}

fn assemble_header(dict_bytes: &[u8], opts: &EncOpts) -> Vec<u8> {
    let header_len = header_len_for(dict_bytes.len());
    let mut h = Vec::with_capacity(header_len);
    h.extend_from_slice(if opts.legacy_magic { LEGACY_MAGIC } else { MAGIC });
    h.extend_from_slice(&(dict_bytes.len() as u64).to_le_bytes());
    h.extend_from_slice(dict_bytes);
    h.extend_from_slice(&opts.chunk_data_offset.unwrap_or(header_len as u64).to_le_bytes());
    let sum = blake2b512(&h);
    h.extend_from_slice(&sum);
    h
}

/// Encode a full header: magic, u64le dictionary size, dictionary, u64le chunk data offset,
/// Blake2b-512 of everything before.
pub fn encode_header(dict: &Dict, opts: &EncOpts) -> Vec<u8> {
    assemble_header(&encode_dict(dict, opts), opts)
}

pub fn blake2b512(data: &[u8]) -> [u8; 64] {
    let mut h = Blake2b512::new();
    h.update(data);
    let mut out = [0u8; 64];
    out.copy_from_slice(&h.finalize());
    out
}

// ------------------------------------------------------------------------------------------------
// compression back-ends
// ------------------------------------------------------------------------------------------------

/// compression: raw enum value as in `Comp::compression` (0 none: returns data unchanged).
pub fn compress(compression: u32, level: u32, data: &[u8]) -> Result<Vec<u8>, String> {
    let mut out = Vec::with_capacity(data.len() / 2 + 64);
    match compression {
        COMP_NONE => out.extend_from_slice(data),
        COMP_LZMA => {
            let mut w = lzma::LzmaWriter::new_compressor(&mut out, level).map_err(|e| format!("lzma: {e}"))?;
            w.write_all(data).map_err(|e| format!("lzma: {e}"))?;
            w.finish().map_err(|e| format!("lzma: {e}"))?;
        }
        COMP_ZSTD => {
            let level = i32::try_from(level).map_err(|_| format!("zstd: level {level} out of range"))?;
            zstd::stream::copy_encode(data, &mut out, level).map_err(|e| format!("zstd: {e}"))?;
        }
        COMP_BROTLI => {
            let quality = i32::try_from(level).map_err(|_| format!("brotli: level {level} out of range"))?;
            let params = brotli::enc::backward_references::BrotliEncoderParams { quality, magic_number: false, ..Default::default() };
            // The stream is finished when the writer is dropped.
            let mut w = brotli::CompressorWriter::with_params(&mut out, 1024 * 1024, &params);
            w.write_all(data).map_err(|e| format!("brotli: {e}"))?;
        }
        other => return Err(format!("unknown compression type {other}")),
    }
    Ok(out)
}

/// A Vec sink that refuses to grow past `cap` bytes (protects against decompression bombs).
struct Capped {
    out: Vec<u8>,
    cap: usize,
}
impl Write for Capped {
    fn write(&mut self, b: &[u8]) -> std::io::Result<usize> {
        match self.out.len().checked_add(b.len()) {
            Some(n) if n <= self.cap => {
                self.out.extend_from_slice(b);
                Ok(b.len())
            }
            _ => Err(std::io::Error::new(std::io::ErrorKind::Other, format!("output exceeds {} bytes", self.cap))),
        }
    }
    fn flush(&mut self) -> std::io::Result<()> {
        Ok(())
    }
}

fn decompress_capped(compression: u32, data: &[u8], size_hint: usize, cap: usize) -> Result<Vec<u8>, String> {
    let mut sink = Capped { out: Vec::with_capacity(size_hint.min(cap).min(1 << 26)), cap };
    match compression {
        COMP_NONE => sink.write_all(data).map_err(|e| format!("none: {e}"))?,
        COMP_LZMA => {
            let mut w = lzma::LzmaWriter::new_decompressor(&mut sink).map_err(|e| format!("lzma: {e}"))?;
            w.write_all(data).map_err(|e| format!("lzma: {e}"))?;
            w.finish().map_err(|e| format!("lzma: {e}"))?;
        }
        COMP_ZSTD => zstd::stream::copy_decode(data, &mut sink).map_err(|e| format!("zstd: {e}"))?,
        COMP_BROTLI => {
            let mut input = data;
            brotli_decompressor::BrotliDecompress(&mut input, &mut sink).map_err(|e| format!("brotli: {e}"))?;
        }
        other => return Err(format!("unknown compression type {other}")),
    }
    Ok(sink.out)
}

/// Decompress a chunk. `size_hint` only sizes the output buffer; no chunk of the format can exceed
/// u32::MAX bytes, so the output is capped there.
pub fn decompress(compression: u32, data: &[u8], size_hint: usize) -> Result<Vec<u8>, String> {
    decompress_capped(compression, data, size_hint, u32::MAX as usize)
}

// ------------------------------------------------------------------------------------------------
// chunk access shared by conformance / ref_unpack
// ------------------------------------------------------------------------------------------------

/// Stored bytes of a descriptor: bytes[chunk_data_offset + archive_offset ..][..archive_size].
fn stored_bytes<'a>(bytes: &'a [u8], chunk_data_offset: u64, d: &Desc) -> Result<&'a [u8], String> {
    let start = chunk_data_offset.checked_add(d.archive_offset);
    let end = start.and_then(|s| s.checked_add(u64::from(d.archive_size)));
    match (start.and_then(|s| usize::try_from(s).ok()), end.and_then(|e| usize::try_from(e).ok())) {
        (Some(s), Some(e)) if e <= bytes.len() => Ok(&bytes[s..e]),
        _ => Err(format!(
            "stored data at {}+{} size {} lies outside the file ({} bytes)",
            chunk_data_offset,
            d.archive_offset,
            d.archive_size,
            bytes.len()
        )),
    }
}

/// Decode one stored chunk ("stored size == source size" means raw, otherwise compressed with the
/// archive-wide compression) and verify Blake2b-512(chunk)[..checksum.len()] == checksum.
fn decode_chunk(bytes: &[u8], chunk_data_offset: u64, d: &Desc, compression: u32) -> Result<Vec<u8>, String> {
    let stored = stored_bytes(bytes, chunk_data_offset, d)?;
    let source_size = usize::try_from(d.source_size).map_err(|_| "source_size does not fit usize".to_string())?;
    let chunk = if d.archive_size == d.source_size {
        stored.to_vec()
    } else {
        if compression == COMP_NONE {
            return Err(format!("stored size {} != source size {} but the archive compression is NONE", d.archive_size, d.source_size));
        }
        let out = decompress_capped(compression, stored, source_size, source_size).map_err(|e| format!("does not decompress to source_size {source_size}: {e}"))?;
        if out.len() != source_size {
            return Err(format!("decompresses to {} bytes, source_size is {}", out.len(), source_size));
        }
        out
    };
    if d.checksum.is_empty() || d.checksum.len() > 64 {
        return Err(format!("checksum length {} not in 1..=64", d.checksum.len()));
    }
    if blake2b512(&chunk)[..d.checksum.len()] != d.checksum[..] {
        return Err("checksum mismatch".to_string());
    }
    Ok(chunk)
}

/// Reference "clone": decode the archive and rebuild the source purely with this codec.
/// Missing chunker_params / chunk_compression sub-messages are treated as proto3 defaults
/// (compression NONE). Only descriptors referenced by rebuild_order are read.
pub fn ref_unpack(bytes: &[u8]) -> Result<Vec<u8>, String> {
    let d = decode(bytes)?;
    if !d.header_checksum_ok {
        return Err("header checksum mismatch".to_string());
    }
    let dict = &d.dict;
    let compression = dict.chunk_compression.as_ref().map(|c| c.compression).unwrap_or(COMP_NONE);
    let mut total: u64 = 0;
    for (pos, &i) in dict.rebuild_order.iter().enumerate() {
        let desc = usize::try_from(i)
            .ok()
            .and_then(|i| dict.chunk_descriptors.get(i))
            .ok_or_else(|| format!("rebuild_order[{}] = {} but there are {} descriptors", pos, i, dict.chunk_descriptors.len()))?;
        total = total.checked_add(u64::from(desc.source_size)).ok_or_else(|| "source size overflow".to_string())?;
    }
    if total != dict.source_total_size {
        return Err(format!("sum of chunk sizes {} != source_total_size {}", total, dict.source_total_size));
    }
    if total > REF_UNPACK_LIMIT {
        return Err(format!("source of {total} bytes is too large for the reference unpacker"));
    }
    let mut cache: Vec<Option<Vec<u8>>> = vec![None; dict.chunk_descriptors.len()];
    let mut out = Vec::with_capacity((total as usize).min(1 << 26));
    for &i in &dict.rebuild_order {
        let i = i as usize;
        if cache[i].is_none() {
            let c = decode_chunk(bytes, d.chunk_data_offset, &dict.chunk_descriptors[i], compression).map_err(|e| format!("chunk {i}: {e}"))?;
            cache[i] = Some(c);
        }
        if let Some(c) = &cache[i] {
            out.extend_from_slice(c);
        }
    }
    if dict.source_checksum[..] != blake2b512(&out)[..] {
        return Err("source checksum mismatch".to_string());
    }
    Ok(out)
}

// ------------------------------------------------------------------------------------------------
// independent archive builder
// ------------------------------------------------------------------------------------------------

/// How an archive should be laid out by `build_archive`.
#[derive(Clone, Debug)]
pub struct Recipe {
    /// `enc.chunk_data_offset` is ignored by `build_archive` (it is always header_len + slack).
    pub enc: EncOpts,
    /// bytes of padding between header end and chunk data start
    pub slack: usize,
    /// permutation of 0..unique_chunks: order in which unique chunks are physically stored
    /// (empty = descriptor order)
    pub order: Vec<usize>,
    /// padding bytes AFTER each physically stored chunk, by physical position; shorter = 0 for the rest
    pub gaps: Vec<usize>,
    /// per unique chunk (descriptor index): true = store raw even if compression would shrink it.
    /// When false (or missing) the chunk is stored compressed iff compressed.len() < source len.
    pub raw: Vec<bool>,
    /// per unique chunk: true = store the compressed form even when it is LARGER than the chunk
    /// (conforming: only "compressed with stored size == source size" is excluded, in which case
    /// the chunk is stored raw). Ignored for `raw` chunks and without compression.
    pub force_compressed: Vec<bool>,
    /// 1..=64 (bita itself uses 4..=64)
    pub hash_len: usize,
    /// recorded verbatim (chunk_hash_length is overwritten with hash_len)
    pub params: Params,
    pub comp: Comp,
    pub metadata: Vec<(String, Vec<u8>)>,
    pub app_version: String,
    pub pad_byte: u8,
}

pub struct Built {
    pub bytes: Vec<u8>,
    pub dict: Dict,
    pub header_len: usize,
    pub chunk_data_offset: u64,
}

/// Build a complete archive for `source` cut at `cuts` (end offsets of each chunk, strictly
/// increasing, last == source.len(); empty for an empty source). See `Recipe`.
pub fn build_archive(source: &[u8], cuts: &[usize], recipe: &Recipe) -> Result<Built, String> {
    if !(1..=64).contains(&recipe.hash_len) {
        return Err(format!("hash_len {} not in 1..=64", recipe.hash_len));
    }
    // 1. cut the source, deduplicate by the full hash
    let mut start = 0usize;
    let mut rebuild_order: Vec<u32> = Vec::with_capacity(cuts.len());
    let mut index_of: HashMap<[u8; 64], u32> = HashMap::new();
    let mut uniq: Vec<(&[u8], [u8; 64])> = Vec::new();
    for (n, &end) in cuts.iter().enumerate() {
        if end <= start || end > source.len() {
            return Err(format!("cut {n} = {end} is not in ({start}, {}]", source.len()));
        }
        let chunk = &source[start..end];
        if u32::try_from(chunk.len()).is_err() {
            return Err(format!("chunk {n} is larger than u32::MAX"));
        }
        let hash = blake2b512(chunk);
        let next = u32::try_from(uniq.len()).map_err(|_| "too many chunks".to_string())?;
        let idx = *index_of.entry(hash).or_insert_with(|| {
            uniq.push((chunk, hash));
            next
        });
        rebuild_order.push(idx);
        start = end;
    }
    if start != source.len() {
        return Err(format!("cuts end at {start} but the source has {} bytes", source.len()));
    }
    let n = uniq.len();
    let mut truncated = HashSet::new();
    for (_, h) in &uniq {
        if !truncated.insert(&h[..recipe.hash_len]) {
            return Err(format!("two distinct chunks share the same {}-byte checksum prefix", recipe.hash_len));
        }
    }
    // 2. storage form of each unique chunk
    let mut stored: Vec<Vec<u8>> = Vec::with_capacity(n);
    for (i, (chunk, _)) in uniq.iter().enumerate() {
        let raw = recipe.raw.get(i).copied().unwrap_or(false) || recipe.comp.compression == COMP_NONE;
        if raw {
            stored.push(chunk.to_vec());
        } else {
            let c = compress(recipe.comp.compression, recipe.comp.compression_level, chunk)?;
            let force = recipe.force_compressed.get(i).copied().unwrap_or(false);
            stored.push(if c.len() < chunk.len() || (force && c.len() != chunk.len()) { c } else { chunk.to_vec() });
        }
    }
    // 3. physical order
    let order: Vec<usize> = if recipe.order.is_empty() { (0..n).collect() } else { recipe.order.clone() };
    let mut seen = vec![false; n];
    if order.len() != n {
        return Err(format!("order has {} entries for {} unique chunks", order.len(), n));
    }
    for &i in &order {
        if i >= n || seen[i] {
            return Err(format!("order is not a permutation of 0..{n}"));
        }
        seen[i] = true;
    }
    // 4. payload with offsets relative to the chunk data start
    let mut rel = vec![0u64; n];
    let mut payload: Vec<u8> = Vec::new();
    for (p, &i) in order.iter().enumerate() {
        rel[i] = payload.len() as u64;
        payload.extend_from_slice(&stored[i]);
        let gap = recipe.gaps.get(p).copied().unwrap_or(0);
        payload.resize(payload.len() + gap, recipe.pad_byte);
    }
    // 5. dictionary
    let mut params = recipe.params.clone();
    params.chunk_hash_length = recipe.hash_len as u32;
    let dict = Dict {
        application_version: recipe.app_version.clone(),
        source_checksum: blake2b512(source).to_vec(),
        source_total_size: source.len() as u64,
        chunker_params: Some(params),
        chunk_compression: Some(recipe.comp.clone()),
        rebuild_order,
        chunk_descriptors: (0..n)
            .map(|i| Desc {
                checksum: uniq[i].1[..recipe.hash_len].to_vec(),
                archive_size: stored[i].len() as u32,
                archive_offset: rel[i],
                source_size: uniq[i].0.len() as u32,
            })
            .collect(),
        metadata: recipe.metadata.clone(),
        unknown: Vec::new(),
    };
    // 6. header (its length does not depend on chunk_data_offset, a fixed-width field), slack, payload
    let dict_bytes = encode_dict(&dict, &recipe.enc);
    let header_len = header_len_for(dict_bytes.len());
    let chunk_data_offset = (header_len + recipe.slack) as u64;
    let mut enc = recipe.enc.clone();
    enc.chunk_data_offset = Some(chunk_data_offset);
    let mut bytes = assemble_header(&dict_bytes, &enc);
    if bytes.len() != header_len {
        return Err("internal: header length mismatch".to_string());
    }
    bytes.resize(header_len + recipe.slack, recipe.pad_byte);
    bytes.extend_from_slice(&payload);
    Ok(Built { bytes, dict, header_len, chunk_data_offset })
}

// ------------------------------------------------------------------------------------------------
// conformance checklist for archives written by bita's compress
// ------------------------------------------------------------------------------------------------

/// What compress was asked to do, for `conformance`.
#[derive(Clone, Debug)]
pub struct Requested {
    /// expected recorded parameters (incl. chunk_hash_length)
    pub params: Params,
    /// expected recorded compression (NONE implies level 0)
    pub comp: Comp,
    /// expected metadata as a set of pairs (order-insensitive; duplicate keys: last wins)
    pub metadata: Vec<(String, Vec<u8>)>,
    /// reference chunking of the source (end offsets); None = do not check boundaries
    pub expected_cuts: Option<Vec<usize>>,
}

const MAX_ISSUES_PER_TAG: usize = 8;

struct Issues {
    list: Vec<String>,
    per_tag: BTreeMap<&'static str, usize>,
}
impl Issues {
    fn add(&mut self, tag: &'static str, msg: String) {
        let n = self.per_tag.entry(tag).or_insert(0);
        *n += 1;
        if *n <= MAX_ISSUES_PER_TAG {
            self.list.push(format!("{tag}: {msg}"));
        }
    }
    fn finish(mut self) -> Vec<String> {
        for (tag, n) in &self.per_tag {
            if *n > MAX_ISSUES_PER_TAG {
                self.list.push(format!("{tag}: {} further issues suppressed", n - MAX_ISSUES_PER_TAG));
            }
        }
        self.list
    }
}

fn as_map(pairs: &[(String, Vec<u8>)]) -> BTreeMap<&str, &[u8]> {
    pairs.iter().map(|(k, v)| (k.as_str(), v.as_slice())).collect()
}

/// Conformance checklist for an archive written by bita's compress; empty result = conforming.
/// Issue tags: magic, dict, offset, hdrsum, length, desc, chunk, rebuild, srcsum, params, meta, cuts.
pub fn conformance(bytes: &[u8], source: &[u8], req: &Requested) -> Vec<String> {
    let mut is = Issues { list: Vec::new(), per_tag: BTreeMap::new() };
    // 1/2: magic and strict decoding
    if bytes.len() >= 6 && &bytes[..6] != MAGIC {
        is.add("magic", format!("{:02x?} is not the current magic", &bytes[..6]));
    }
    let d = match decode(bytes) {
        Ok(d) => d,
        Err(e) => {
            is.add("dict", format!("header does not decode: {e}"));
            return is.finish();
        }
    };
    let dict = &d.dict;
    if d.unknown_fields != 0 {
        is.add("dict", format!("{} unknown fields", d.unknown_fields));
    }
    // 3/4: chunk data offset and header checksum
    if d.chunk_data_offset != d.header_len as u64 {
        is.add("offset", format!("chunk_data_offset {} != header length {}", d.chunk_data_offset, d.header_len));
    }
    if !d.header_checksum_ok {
        is.add("hdrsum", "stored header checksum != Blake2b-512 of the preceding header bytes".to_string());
    }
    // 5: file length
    let stored_total: u64 = dict.chunk_descriptors.iter().fold(0u64, |a, c| a.saturating_add(u64::from(c.archive_size)));
    if d.chunk_data_offset.checked_add(stored_total) != Some(bytes.len() as u64) {
        is.add("length", format!("file length {} != chunk_data_offset {} + stored sizes {}", bytes.len(), d.chunk_data_offset, stored_total));
    }
    // 6: descriptors
    let hash_len = dict.chunker_params.as_ref().map(|p| p.chunk_hash_length).unwrap_or(0);
    let mut seen_sums: HashSet<&[u8]> = HashSet::new();
    let mut next_offset: u64 = 0;
    for (i, c) in dict.chunk_descriptors.iter().enumerate() {
        if !seen_sums.insert(&c.checksum) {
            is.add("desc", format!("descriptor {i}: checksum occurs more than once"));
        }
        if c.checksum.len() as u64 != u64::from(hash_len) {
            is.add("desc", format!("descriptor {i}: checksum length {} != chunk_hash_length {}", c.checksum.len(), hash_len));
        }
        if c.archive_offset != next_offset {
            is.add("desc", format!("descriptor {i}: archive_offset {} but the preceding stored sizes sum to {}", c.archive_offset, next_offset));
        }
        next_offset = next_offset.saturating_add(u64::from(c.archive_size));
        if c.archive_size > c.source_size {
            is.add("desc", format!("descriptor {i}: archive_size {} > source_size {}", c.archive_size, c.source_size));
        }
        if c.archive_size == 0 || c.source_size == 0 {
            is.add("desc", format!("descriptor {i}: archive_size {} / source_size {} must be > 0", c.archive_size, c.source_size));
        }
    }
    // 7: every stored chunk decodes and matches its checksum
    let compression = dict.chunk_compression.as_ref().map(|c| c.compression).unwrap_or(COMP_NONE);
    let mut chunks: Vec<Option<Vec<u8>>> = Vec::with_capacity(dict.chunk_descriptors.len());
    for (i, c) in dict.chunk_descriptors.iter().enumerate() {
        match decode_chunk(bytes, d.chunk_data_offset, c, compression) {
            Ok(chunk) => chunks.push(Some(chunk)),
            Err(e) => {
                is.add("chunk", format!("descriptor {i}: {e}"));
                chunks.push(None);
            }
        }
    }
    // 8: rebuild order
    let ndesc = dict.chunk_descriptors.len();
    let mut referenced = vec![false; ndesc];
    let mut next_new = 0usize;
    let mut pos: u64 = 0;
    let mut content_ok = true;
    let mut cuts: Vec<u64> = Vec::with_capacity(dict.rebuild_order.len());
    for (n, &i) in dict.rebuild_order.iter().enumerate() {
        let i = match usize::try_from(i) {
            Ok(i) if i < ndesc => i,
            _ => {
                is.add("rebuild", format!("rebuild_order[{n}] = {i} but there are {ndesc} descriptors"));
                content_ok = false;
                continue;
            }
        };
        if !referenced[i] {
            referenced[i] = true;
            if i != next_new {
                is.add("rebuild", format!("rebuild_order[{n}]: first reference to descriptor {i} but descriptor {next_new} was expected next (first-occurrence order)"));
            }
            next_new = next_new.max(i.saturating_add(1));
        }
        let size = u64::from(dict.chunk_descriptors[i].source_size);
        if content_ok {
            if let Some(chunk) = &chunks[i] {
                let lo = usize::try_from(pos).ok();
                let hi = lo.and_then(|lo| lo.checked_add(chunk.len()));
                let same = match (lo, hi) {
                    (Some(lo), Some(hi)) if hi <= source.len() => source[lo..hi] == chunk[..],
                    _ => false,
                };
                if !same {
                    is.add("rebuild", format!("rebuild_order[{n}] (descriptor {i}): chunk differs from the source at offset {pos}"));
                    content_ok = false;
                }
            }
        }
        pos = pos.saturating_add(size);
        cuts.push(pos);
    }
    for (i, r) in referenced.iter().enumerate() {
        if !r {
            is.add("rebuild", format!("descriptor {i} is never referenced"));
        }
    }
    if pos != dict.source_total_size || pos != source.len() as u64 {
        is.add("rebuild", format!("sum of chunk sizes {} / source_total_size {} / source length {} differ", pos, dict.source_total_size, source.len()));
    }
    // 9: source checksum
    if dict.source_checksum[..] != blake2b512(source)[..] {
        is.add("srcsum", format!("source_checksum ({} bytes) != Blake2b-512 of the source", dict.source_checksum.len()));
    }
    // 10: recorded parameters
    match &dict.chunker_params {
        None => is.add("params", "chunker_params missing".to_string()),
        Some(p) if *p != req.params => is.add("params", format!("recorded {:?} != requested {:?}", p, req.params)),
        _ => {}
    }
    match &dict.chunk_compression {
        None => is.add("params", "chunk_compression missing".to_string()),
        Some(c) if *c != req.comp => is.add("params", format!("recorded {:?} != requested {:?}", c, req.comp)),
        _ => {}
    }
    if dict.application_version.is_empty() {
        is.add("params", "application_version is empty".to_string());
    }
    let got = as_map(&dict.metadata);
    if got.len() != dict.metadata.len() {
        is.add("meta", "duplicate metadata keys in the file".to_string());
    }
    let exp = as_map(&req.metadata);
    if got != exp {
        for (k, v) in &exp {
            match got.get(k) {
                None => is.add("meta", format!("key {k:?} missing")),
                Some(g) if g != v => is.add("meta", format!("key {k:?}: value differs ({} vs {} bytes requested)", g.len(), v.len())),
                _ => {}
            }
        }
        for k in got.keys() {
            if !exp.contains_key(k) {
                is.add("meta", format!("unexpected key {k:?}"));
            }
        }
    }
    // 11: chunk boundaries
    if let Some(exp_cuts) = &req.expected_cuts {
        let same = cuts.len() == exp_cuts.len() && cuts.iter().zip(exp_cuts).all(|(a, b)| *a == *b as u64);
        if !same {
            let k = cuts.iter().zip(exp_cuts).position(|(a, b)| *a != *b as u64).unwrap_or(cuts.len().min(exp_cuts.len()));
            is.add(
                "cuts",
                format!("{} chunks recorded, {} expected; first difference at chunk {}: {:?} vs {:?}", cuts.len(), exp_cuts.len(), k, cuts.get(k), exp_cuts.get(k)),
            );
        }
    }
    is.finish()
}

// ------------------------------------------------------------------------------------------------
// tests (these, and only these, may use bitar to cross-validate)
// ------------------------------------------------------------------------------------------------
#[cfg(test)]
mod tests {
    use super::*;

    struct Rng(u64);
    impl Rng {
        fn next(&mut self) -> u64 {
            self.0 ^= self.0 << 13;
            self.0 ^= self.0 >> 7;
            self.0 ^= self.0 << 17;
            self.0
        }
        fn bytes(&mut self, n: usize) -> Vec<u8> {
            (0..n).map(|_| (self.next() >> 24) as u8).collect()
        }
    }

    /// Mix of incompressible, compressible and repeated regions.
    fn sample_source(seed: u64, n: usize) -> Vec<u8> {
        let mut r = Rng(seed | 1);
        let mut v = Vec::with_capacity(n);
        let block = r.bytes(3000);
        while v.len() < n {
            match r.next() % 4 {
                0 => {
                    let n = 1 + (r.next() % 5000) as usize;
                    v.extend(r.bytes(n));
                }
                1 => v.extend(std::iter::repeat((r.next() & 0xff) as u8).take(1 + (r.next() % 6000) as usize)),
                2 => v.extend_from_slice(&block),
                _ => v.extend(b"the quick brown fox jumps over the lazy dog ".iter().cycle().take(1 + (r.next() % 4000) as usize)),
            }
        }
        v.truncate(n);
        v
    }

    fn fixed_cuts(len: usize, n: usize) -> Vec<usize> {
        let mut v: Vec<usize> = (1..=len / n).map(|i| i * n).collect();
        if len % n != 0 {
            v.push(len);
        }
        v
    }

    fn sample_dicts() -> Vec<Dict> {
        let full = Dict {
            application_version: "0.13.0-ünï".to_string(),
            source_checksum: (0u8..64).collect(),
            source_total_size: u64::MAX,
            chunker_params: Some(Params { chunk_filter_bits: 15, min_chunk_size: 16384, max_chunk_size: u32::MAX, rolling_hash_window_size: 64, chunk_hash_length: 64, chunking_algorithm: 1 }),
            chunk_compression: Some(Comp { compression: 3, compression_level: 6 }),
            rebuild_order: vec![0, 1, 0, 2, 300, u32::MAX, 0],
            chunk_descriptors: vec![
                Desc { checksum: vec![1, 2, 3, 4], archive_size: 10, archive_offset: 0, source_size: 20 },
                Desc { checksum: vec![0xff; 64], archive_size: u32::MAX, archive_offset: u64::MAX, source_size: u32::MAX },
                Desc { checksum: vec![], archive_size: 0, archive_offset: 1 << 40, source_size: 0 },
                Desc::default(),
            ],
            metadata: vec![
                ("".to_string(), vec![]),
                ("k".to_string(), vec![0, 255, 128, 0]),
                ("".to_string(), vec![7]),
                ("zz".to_string(), vec![]),
                ("a".to_string(), vec![b'x'; 300]),
            ],
            unknown: vec![],
        };
        let all_defaults_some = Dict { chunker_params: Some(Params::default()), chunk_compression: Some(Comp::default()), ..Dict::default() };
        vec![Dict::default(), all_defaults_some, full]
    }

    fn enc_variants() -> Vec<EncOpts> {
        let mut v = vec![];
        for bits in 0..16u32 {
            v.push(EncOpts {
                legacy_magic: bits & 1 != 0,
                chunk_data_offset: None,
                inject_unknown: bits & 2 != 0,
                unpacked_rebuild_order: bits & 4 != 0,
                emit_defaults: bits & 8 != 0,
            });
        }
        v
    }

    #[test]
    fn codec_varint_edges() {
        for v in [0u64, 1, 127, 128, 255, 300, 16383, 16384, u32::MAX as u64, 1 << 32, (1 << 63) - 1, 1 << 63, u64::MAX] {
            let mut b = vec![];
            put_varint(&mut b, v);
            let expect_len = if v == 0 { 1 } else { (64 - v.leading_zeros() as usize + 6) / 7 };
            assert_eq!(b.len(), expect_len, "{v}");
            let mut r = Rd::new(&b);
            assert_eq!(r.varint().unwrap(), v);
            assert!(r.done());
            // truncated
            let mut r = Rd::new(&b[..b.len() - 1]);
            assert!(r.varint().is_err(), "{v}");
        }
        // spec example
        let mut b = vec![];
        put_varint(&mut b, 150);
        assert_eq!(b, [0x96, 0x01]);
        // non-minimal encodings are valid
        assert_eq!(Rd::new(&[0x80, 0x00]).varint().unwrap(), 0);
        assert_eq!(Rd::new(&[0x81, 0x80, 0x80, 0x00]).varint().unwrap(), 1);
        // 10 bytes: the last one may only carry one bit
        let mut ten = vec![0xff; 9];
        ten.push(0x01);
        assert_eq!(Rd::new(&ten).varint().unwrap(), u64::MAX);
        *ten.last_mut().unwrap() = 0x02;
        assert!(Rd::new(&ten).varint().is_err());
        *ten.last_mut().unwrap() = 0x81;
        ten.push(0x00);
        assert!(Rd::new(&ten).varint().is_err());
        assert!(Rd::new(&[]).varint().is_err());
        // keys
        assert!(Rd::new(&[0x00]).key().is_err()); // field 0
        assert_eq!(Rd::new(&[0x08]).key().unwrap(), (1, 0));
        assert_eq!(Rd::new(&[0xc2, 0x3e]).key().unwrap(), (1000, 2));
        assert!(Rd::new(&[0x80, 0x80, 0x80, 0x80, 0x10]).key().is_err()); // > u32
    }

    #[test]
    fn codec_dict_roundtrip() {
        for dict in sample_dicts() {
            for o in enc_variants() {
                let h = encode_header(&dict, &o);
                let d = decode(&h).unwrap_or_else(|e| panic!("{o:?}: {e}"));
                assert_eq!(d.magic, if o.legacy_magic { *LEGACY_MAGIC } else { *MAGIC });
                assert_eq!(d.header_len, h.len());
                assert_eq!(d.chunk_data_offset, h.len() as u64);
                assert!(d.header_checksum_ok);
                assert_eq!(d.dictionary_size as usize, encode_dict(&dict, &o).len());
                assert_eq!(d.dictionary_size as usize + PRE_HEADER_LEN + TRAILER_LEN, h.len());
                let mut got = d.dict.clone();
                if o.inject_unknown {
                    let nmsg = 1 + dict.chunk_descriptors.len() + dict.chunker_params.is_some() as usize + dict.chunk_compression.is_some() as usize;
                    assert_eq!(d.unknown_fields, 2 * nmsg);
                    assert_eq!(
                        got.unknown,
                        vec![Unknown { field: 15, wire: 0, raw: vec![7] }, Unknown { field: 1000, wire: 2, raw: vec![3, 0xde, 0x00, 0xad] }]
                    );
                    got.unknown.clear();
                } else {
                    assert_eq!(d.unknown_fields, 0);
                }
                assert_eq!(got, dict, "{o:?}");
                assert_eq!(d.rebuild_order_packed, !(o.unpacked_rebuild_order && !dict.rebuild_order.is_empty()));
                // kept unknown fields are re-emitted verbatim: decode(encode(decoded)) is a fixpoint
                let plain = EncOpts { inject_unknown: false, ..o.clone() };
                let again = decode(&encode_header(&d.dict, &plain)).unwrap();
                assert_eq!(again.dict, d.dict);
                // explicit chunk data offset
                let o2 = EncOpts { chunk_data_offset: Some(u64::MAX - 5), ..o.clone() };
                let d2 = decode(&encode_header(&dict, &o2)).unwrap();
                assert_eq!(d2.chunk_data_offset, u64::MAX - 5);
                assert!(d2.header_checksum_ok);
            }
        }
        // default omission: an all-default dictionary is zero bytes, the minimal header is 86 bytes
        assert!(encode_dict(&Dict::default(), &EncOpts::default()).is_empty());
        assert_eq!(encode_header(&Dict::default(), &EncOpts::default()).len(), 86);
        assert!(!encode_dict(&Dict::default(), &EncOpts { emit_defaults: true, ..Default::default() }).is_empty());
        // a hand-checked encoding
        let d = Dict { application_version: "a".into(), source_total_size: 300, rebuild_order: vec![0, 1, 128], ..Default::default() };
        assert_eq!(encode_dict(&d, &EncOpts::default()), [0x0a, 1, b'a', 0x18, 0xac, 0x02, 0x32, 4, 0, 1, 0x80, 0x01]);
        assert_eq!(
            encode_dict(&d, &EncOpts { unpacked_rebuild_order: true, ..Default::default() }),
            [0x0a, 1, b'a', 0x18, 0xac, 0x02, 0x30, 0, 0x30, 1, 0x30, 0x80, 0x01]
        );
    }

    fn header_with_dict(dict_bytes: &[u8]) -> Vec<u8> {
        assemble_header(dict_bytes, &EncOpts::default())
    }

    #[test]
    fn codec_decode_rejects_malformed() {
        let good = encode_header(&sample_dicts()[2], &EncOpts::default());
        assert!(decode(&good).is_ok());
        // every strict prefix fails, without panicking
        for n in 0..good.len() {
            assert!(decode(&good[..n]).is_err(), "prefix {n}");
        }
        // trailing bytes after the header are fine
        let mut longer = good.clone();
        longer.extend_from_slice(&[0u8; 100]);
        assert_eq!(decode(&longer).unwrap().header_len, good.len());
        // bad magic
        let mut b = good.clone();
        b[0] = b'X';
        assert!(decode(&b).unwrap_err().contains("magic"));
        // wrong checksum is reported, not an error
        let mut b = good.clone();
        *b.last_mut().unwrap() ^= 1;
        assert!(!decode(&b).unwrap().header_checksum_ok);
        let mut b = good.clone();
        let n = b.len();
        b[n - 70] ^= 1; // chunk data offset
        assert!(!decode(&b).unwrap().header_checksum_ok);
        // adversarial dictionary sizes
        for sz in [u64::MAX, u64::MAX - 71, u64::MAX - 85, 1 << 63, (good.len() - 85) as u64, usize::MAX as u64] {
            let mut b = good.clone();
            b[6..14].copy_from_slice(&sz.to_le_bytes());
            assert!(decode(&b).is_err(), "{sz}");
        }
        // malformed protobuf
        let bad: Vec<(&str, Vec<u8>)> = vec![
            ("truncated varint", vec![0x18, 0x80]),
            ("truncated key", vec![0x80]),
            ("length past end", vec![0x0a, 5, b'a']),
            ("huge length", vec![0x12, 0xff, 0xff, 0xff, 0xff, 0xff, 0xff, 0xff, 0xff, 0xff, 0x01]),
            ("wire mismatch string as varint", vec![0x08, 1]),
            ("wire mismatch u64 as len", vec![0x1a, 1, 0]),
            ("wire mismatch u64 as fixed64", vec![0x19, 0, 0, 0, 0, 0, 0, 0, 0]),
            ("wire mismatch submessage", vec![0x20, 1]),
            ("wire mismatch rebuild_order fixed32", vec![0x35, 0, 0, 0, 0]),
            ("wire mismatch nested", vec![0x3a, 2, 0x1a, 0]),
            ("invalid utf8", vec![0x0a, 2, 0xc3, 0x28]),
            ("invalid utf8 map key", vec![0x42, 3, 0x0a, 1, 0xff]),
            ("start group", vec![0x7b]),
            ("end group", vec![0x7c]),
            ("group nested", vec![0x22, 1, 0x7b]),
            ("wire type 6", vec![0x7e]),
            ("wire type 7", vec![0x7f, 0]),
            ("field 0", vec![0x00, 0]),
            ("truncated packed", vec![0x32, 1, 0x80]),
            ("truncated fixed32 unknown", vec![0x7d, 0, 0, 0]),
            ("truncated nested", vec![0x3a, 2, 0x18]),
            ("varint overflow", vec![0x18, 0xff, 0xff, 0xff, 0xff, 0xff, 0xff, 0xff, 0xff, 0xff, 0x02]),
        ];
        for (what, dict) in bad {
            let e = decode(&header_with_dict(&dict));
            assert!(e.is_err(), "{what} was accepted: {:?}", e.map(|d| d.dict));
        }
        // unknown fields of every legal wire type are skipped, counted and kept
        let dict = vec![0x78, 0x96, 0x01, 0x79, 1, 2, 3, 4, 5, 6, 7, 8, 0x7a, 2, 9, 9, 0x7d, 1, 2, 3, 4, 0x18, 5];
        let d = decode(&header_with_dict(&dict)).unwrap();
        assert_eq!(d.unknown_fields, 4);
        assert_eq!(d.dict.source_total_size, 5);
        assert_eq!(d.dict.unknown.iter().map(|u| (u.field, u.wire, u.raw.len())).collect::<Vec<_>>(), [(15, 0, 2), (15, 1, 8), (15, 2, 3), (15, 5, 4)]);
        assert_eq!(encode_dict(&d.dict, &EncOpts::default()), [&[0x18, 5][..], &dict[..dict.len() - 2]].concat());
    }

    #[test]
    fn codec_proto3_merge_semantics() {
        let dict = vec![
            0x18, 1, 0x18, 2, // source_total_size twice: last wins
            0x22, 2, 0x08, 3, // chunker_params {filter_bits 3}
            0x22, 4, 0x10, 9, 0x08, 4, // chunker_params {min 9, filter_bits 4}: merged
            0x2a, 0, // empty chunk_compression: present with defaults
            0x30, 5, 0x32, 2, 6, 7, 0x30, 8, 0x32, 0, // rebuild_order mixed packed / unpacked
            0x3a, 4, 0x18, 1, 0x18, 2, // descriptor, archive_size twice
            0x3a, 0, // empty descriptor
            0x42, 0, // empty map entry
            0x42, 8, 0x12, 1, 1, 0x0a, 1, b'k', 0x12, 0, // value, key, value again (last wins: empty)
            0x42, 4, 0x78, 1, 0x0a, 0, // unknown in entry
            0x18, 0x83, 0x80, 0x80, 0x80, 0x80, 0x80, 0x80, 0x80, 0x80, 0x01, // u64 with top bit
            0x3a, 8, 0x28, 0x81, 0x80, 0x80, 0x80, 0x10, 0x20, 0, // source_size = 2^32 + 1 truncates to 1; explicit zero offset
        ];
        let d = decode(&header_with_dict(&dict)).unwrap();
        let x = &d.dict;
        assert_eq!(x.source_total_size, (1 << 63) | 3);
        assert_eq!(x.chunker_params, Some(Params { chunk_filter_bits: 4, min_chunk_size: 9, ..Default::default() }));
        assert_eq!(x.chunk_compression, Some(Comp::default()));
        assert_eq!(x.rebuild_order, [5, 6, 7, 8]);
        assert!(!d.rebuild_order_packed);
        assert_eq!(x.chunk_descriptors.len(), 3);
        assert_eq!(x.chunk_descriptors[0], Desc { archive_size: 2, ..Default::default() });
        assert_eq!(x.chunk_descriptors[1], Desc::default());
        assert_eq!(x.chunk_descriptors[2], Desc { source_size: 1, archive_offset: 0, ..Default::default() });
        assert_eq!(x.metadata, vec![(String::new(), vec![]), ("k".to_string(), vec![]), (String::new(), vec![])]);
        assert_eq!(d.unknown_fields, 1);
        assert!(x.unknown.is_empty());
    }

    fn recipe(comp: u32, level: u32, hash_len: usize) -> Recipe {
        Recipe {
            enc: EncOpts::default(),
            slack: 0,
            order: vec![],
            gaps: vec![],
            raw: vec![],
            force_compressed: vec![],
            hash_len,
            params: Params { chunk_filter_bits: 0, min_chunk_size: 0, max_chunk_size: 1000, rolling_hash_window_size: 0, chunk_hash_length: 0, chunking_algorithm: 2 },
            comp: Comp { compression: comp, compression_level: level },
            metadata: vec![],
            app_version: "codec-test".to_string(),
            pad_byte: 0xaa,
        }
    }

    fn requested(r: &Recipe, cuts: &[usize]) -> Requested {
        let mut params = r.params.clone();
        params.chunk_hash_length = r.hash_len as u32;
        Requested { params, comp: r.comp.clone(), metadata: r.metadata.clone(), expected_cuts: Some(cuts.to_vec()) }
    }

    fn tags(issues: &[String]) -> Vec<String> {
        let mut t: Vec<String> = issues.iter().map(|i| i.split(':').next().unwrap().to_string()).collect();
        t.dedup();
        t
    }

    #[test]
    fn codec_compression_roundtrip() {
        let data = sample_source(3, 50_000);
        for (c, level) in [(COMP_NONE, 0), (COMP_LZMA, 6), (COMP_ZSTD, 3), (COMP_ZSTD, 19), (COMP_BROTLI, 1), (COMP_BROTLI, 11)] {
            for d in [&data[..], &data[..1], &[][..]] {
                let z = compress(c, level, d).unwrap();
                assert_eq!(decompress(c, &z, d.len()).unwrap(), d, "{c} {level}");
                assert_eq!(decompress(c, &z, 0).unwrap(), d);
                if c != COMP_NONE && d.len() > 1000 {
                    assert!(z.len() < d.len());
                    assert!(decompress(c, &z[..z.len() / 2], d.len()).is_err(), "truncated {c}");
                    assert!(decompress_capped(c, &z, d.len(), d.len() - 1).is_err(), "cap {c}");
                    assert!(decompress(c, d, d.len()).is_err(), "garbage {c}");
                }
            }
        }
        assert!(compress(4, 1, b"x").is_err());
        assert!(decompress(4, b"x", 1).is_err());
        assert!(decompress(COMP_LZMA, b"", 1).is_err());
        assert!(decompress(COMP_ZSTD, b"", 1).is_err() || decompress(COMP_ZSTD, b"", 1).unwrap().is_empty());
    }

    #[test]
    fn codec_build_conformance_unpack_self_consistent() {
        let source = sample_source(11, 40_000);
        let cuts = fixed_cuts(source.len(), 1000);
        for (c, level) in [(COMP_NONE, 0), (COMP_LZMA, 3), (COMP_ZSTD, 5), (COMP_BROTLI, 4)] {
            for hash_len in [4usize, 17, 64] {
                let r = recipe(c, level, hash_len);
                let b = build_archive(&source, &cuts, &r).unwrap();
                assert_eq!(conformance(&b.bytes, &source, &requested(&r, &cuts)), Vec::<String>::new());
                assert_eq!(ref_unpack(&b.bytes).unwrap(), source);
                assert!(b.dict.chunk_descriptors.len() < cuts.len(), "sample source must contain duplicate chunks");
                if c != COMP_NONE {
                    assert!(b.dict.chunk_descriptors.iter().any(|d| d.archive_size < d.source_size));
                    assert!(b.dict.chunk_descriptors.iter().any(|d| d.archive_size == d.source_size));
                }
            }
        }
        // empty source
        let r = recipe(COMP_BROTLI, 6, 64);
        let b = build_archive(&[], &[], &r).unwrap();
        assert_eq!(conformance(&b.bytes, &[], &requested(&r, &[])), Vec::<String>::new());
        assert_eq!(ref_unpack(&b.bytes).unwrap(), Vec::<u8>::new());
        assert_eq!(b.bytes.len(), b.header_len);
        // bad inputs
        assert!(build_archive(&source, &[], &r).is_err());
        assert!(build_archive(&source, &[10, 10, source.len()], &r).is_err());
        assert!(build_archive(&source, &[source.len() + 1], &r).is_err());
        assert!(build_archive(&source, &[10], &r).is_err());
        assert!(build_archive(&[], &[0], &r).is_err());
        assert!(build_archive(&source, &cuts, &Recipe { hash_len: 0, ..r.clone() }).is_err());
        assert!(build_archive(&source, &cuts, &Recipe { hash_len: 65, ..r.clone() }).is_err());
        assert!(build_archive(&source, &cuts, &Recipe { order: vec![0, 0], ..r.clone() }).is_err());
        assert!(build_archive(&source, &cuts, &Recipe { comp: Comp { compression: 9, compression_level: 1 }, ..r.clone() }).is_err());
    }

    #[test]
    fn codec_conformance_flags_each_deviation() {
        let source = sample_source(5, 20_000);
        let cuts = fixed_cuts(source.len(), 1000);
        let base = recipe(COMP_ZSTD, 3, 32);
        let req = requested(&base, &cuts);
        let check = |r: &Recipe, want: &[&str]| {
            let b = build_archive(&source, &cuts, r).unwrap();
            assert_eq!(ref_unpack(&b.bytes).unwrap(), source, "conforming for readers: {want:?}");
            let got = tags(&conformance(&b.bytes, &source, &req));
            assert_eq!(got, want, "{:?}", conformance(&b.bytes, &source, &req));
        };
        let n = build_archive(&source, &cuts, &base).unwrap().dict.chunk_descriptors.len();
        check(&base, &[]);
        check(&Recipe { enc: EncOpts { legacy_magic: true, ..Default::default() }, ..base.clone() }, &["magic"]);
        check(&Recipe { enc: EncOpts { inject_unknown: true, ..Default::default() }, ..base.clone() }, &["dict"]);
        check(&Recipe { enc: EncOpts { unpacked_rebuild_order: true, emit_defaults: true, ..Default::default() }, ..base.clone() }, &[]);
        check(&Recipe { slack: 3, ..base.clone() }, &["offset"]);
        check(&Recipe { gaps: vec![0; n - 1].into_iter().chain([5]).collect(), ..base.clone() }, &["length"]);
        check(&Recipe { gaps: vec![2], ..base.clone() }, &["length", "desc"]);
        check(&Recipe { order: (0..n).rev().collect(), ..base.clone() }, &["desc"]);
        check(&Recipe { metadata: vec![("a".into(), vec![1])], ..base.clone() }, &["meta"]);
        check(&Recipe { app_version: String::new(), ..base.clone() }, &["params"]);
        check(&Recipe { hash_len: 31, ..base.clone() }, &["params"]);
        check(&Recipe { comp: Comp { compression: COMP_ZSTD, compression_level: 4 }, ..base.clone() }, &["params"]);
        // different cuts, same content
        let mut cuts2 = cuts.clone();
        cuts2.remove(3);
        let b = build_archive(&source, &cuts2, &base).unwrap();
        assert_eq!(tags(&conformance(&b.bytes, &source, &req)), ["cuts"]);
        assert!(conformance(&b.bytes, &source, &Requested { expected_cuts: None, ..req.clone() }).is_empty());
        // byte-level damage on a conforming archive
        let good = build_archive(&source, &cuts, &base).unwrap();
        let mut b = good.bytes.clone();
        let last = b.len() - 1;
        b[last] ^= 1;
        assert_eq!(tags(&conformance(&b, &source, &req)), ["chunk"]);
        assert!(ref_unpack(&b).is_err());
        let mut b = good.bytes.clone();
        b[good.header_len - 1] ^= 1;
        assert_eq!(tags(&conformance(&b, &source, &req)), ["hdrsum"]);
        assert!(ref_unpack(&b).is_err());
        let mut b = good.bytes.clone();
        b.pop();
        assert_eq!(tags(&conformance(&b, &source, &req)), ["length", "chunk"]);
        assert!(ref_unpack(&b).is_err());
        let mut b = good.bytes.clone();
        b.push(0);
        assert_eq!(tags(&conformance(&b, &source, &req)), ["length"]);
        assert!(tags(&conformance(&b[..50], &source, &req)).contains(&"dict".to_string()));
        assert_eq!(tags(&conformance(b"NOTBITA", &source, &req)), ["magic", "dict"]);
        assert_eq!(tags(&conformance(&[], &source, &req)), ["dict"]);
        // other source
        let mut other = source.clone();
        other[1500] ^= 1;
        assert_eq!(tags(&conformance(&good.bytes, &other, &req)), ["rebuild", "srcsum"]);
        assert_eq!(tags(&conformance(&good.bytes, &source[..source.len() - 1], &req)), ["rebuild", "srcsum"]);
        // dictionary-level damage (re-encoded with a valid checksum)
        let redo = |f: &dyn Fn(&mut Dict)| {
            let mut d = good.dict.clone();
            f(&mut d);
            let h = encode_header(&d, &EncOpts::default());
            // only usable when the header length is unchanged
            assert_eq!(h.len(), good.header_len);
            [&h[..], &good.bytes[good.header_len..]].concat()
        };
        let b = redo(&|d| {
            let k = (1..d.rebuild_order.len()).find(|&k| d.rebuild_order[k] != d.rebuild_order[k - 1]).unwrap();
            d.rebuild_order.swap(k - 1, k)
        });
        assert_eq!(tags(&conformance(&b, &source, &req)), ["rebuild"]);
        assert!(ref_unpack(&b).is_err());
        let b = redo(&|d| d.source_checksum[0] ^= 1);
        assert_eq!(tags(&conformance(&b, &source, &req)), ["srcsum"]);
        assert!(ref_unpack(&b).is_err());
        let b = redo(&|d| d.chunk_descriptors[2].checksum[0] ^= 1);
        assert_eq!(tags(&conformance(&b, &source, &req)), ["chunk"]);
        let b = redo(&|d| {
            let last = d.rebuild_order.len() - 1;
            d.rebuild_order[last] = 127
        });
        assert_eq!(tags(&conformance(&b, &source, &req))[0], "rebuild");
        assert!(ref_unpack(&b).is_err());
        // issue flood is capped
        let flood = conformance(&good.bytes, &vec![0u8; source.len()], &Requested { params: Params::default(), ..req.clone() });
        assert!(flood.len() < 40);
    }

    // ---------------------------------------------------------------------------------------
    // cross-validation against bitar
    // ---------------------------------------------------------------------------------------
    use bitar::chunker::{Config, FilterBits, FilterConfig};

    fn rt() -> tokio::runtime::Runtime {
        tokio::runtime::Builder::new_current_thread().enable_all().build().unwrap()
    }

    fn bitar_compression(c: &Comp) -> Option<bitar::Compression> {
        let alg = match c.compression {
            COMP_NONE => return None,
            COMP_LZMA => bitar::CompressionAlgorithm::Lzma,
            COMP_ZSTD => bitar::CompressionAlgorithm::Zstd,
            COMP_BROTLI => bitar::CompressionAlgorithm::Brotli,
            _ => unreachable!(),
        };
        Some(bitar::Compression::try_new(alg, c.compression_level).unwrap())
    }

    fn params_of(cfg: &Config, hash_len: usize) -> Params {
        let (algo, f) = match cfg {
            Config::BuzHash(f) => (0, Some(f)),
            Config::RollSum(f) => (1, Some(f)),
            Config::FixedSize(n) => {
                return Params { max_chunk_size: *n as u32, chunk_hash_length: hash_len as u32, chunking_algorithm: 2, ..Default::default() }
            }
        };
        let f = f.unwrap();
        Params {
            chunk_filter_bits: f.filter_bits.bits(),
            min_chunk_size: f.min_chunk_size as u32,
            max_chunk_size: f.max_chunk_size as u32,
            rolling_hash_window_size: f.window_size as u32,
            chunk_hash_length: hash_len as u32,
            chunking_algorithm: algo,
        }
    }

    fn config_of(p: &Params) -> Config {
        let f = FilterConfig {
            filter_bits: FilterBits::from_bits(p.chunk_filter_bits),
            min_chunk_size: p.min_chunk_size as usize,
            max_chunk_size: p.max_chunk_size as usize,
            window_size: p.rolling_hash_window_size as usize,
        };
        match p.chunking_algorithm {
            0 => Config::BuzHash(f),
            1 => Config::RollSum(f),
            2 => Config::FixedSize(p.max_chunk_size as usize),
            _ => unreachable!(),
        }
    }

    fn bitar_create(source: &[u8], cfg: &Config, comp: &Comp, hash_len: usize, metadata: &[(String, Vec<u8>)]) -> Vec<u8> {
        let options = bitar::api::compress::CreateArchiveOptions {
            chunker_config: cfg.clone(),
            chunk_hash_length: hash_len,
            compression: bitar_compression(comp),
            metadata: metadata.iter().cloned().collect(),
            num_chunk_buffers: 4,
            temporary_file_override: None,
        };
        let mut out: Vec<u8> = Vec::new();
        rt().block_on(async { bitar::api::compress::create_archive(source, &mut out, &options).await.unwrap() });
        out
    }

    #[test]
    fn codec_reads_archives_written_by_bitar() {
        let filter = FilterConfig { filter_bits: FilterBits::from_bits(9), min_chunk_size: 128, max_chunk_size: 4096, window_size: 20 };
        let cfgs = [Config::FixedSize(1000), Config::RollSum(filter), Config::BuzHash(filter)];
        let comps = [(COMP_NONE, 0), (COMP_BROTLI, 5), (COMP_ZSTD, 7), (COMP_LZMA, 4)];
        let metas: [Vec<(String, Vec<u8>)>; 2] =
            [vec![], vec![("zeta".to_string(), vec![0, 255, 1]), ("".to_string(), vec![]), ("alpha".to_string(), vec![b'v'; 300])]];
        let mut n = 0;
        for (si, source) in [sample_source(21, 60_000), vec![], vec![9u8], vec![0u8; 30_000]].iter().enumerate() {
            for cfg in &cfgs {
                for &(c, level) in &comps {
                    n += 1;
                    let comp = Comp { compression: c, compression_level: level };
                    let hash_len = [64, 4, 20][n % 3];
                    let meta = &metas[n % 2];
                    let bytes = bitar_create(source, cfg, &comp, hash_len, meta);
                    let what = format!("source {si} {cfg:?} {comp:?} hash_len {hash_len}");
                    let d = decode(&bytes).unwrap_or_else(|e| panic!("{what}: {e}"));
                    assert!(d.header_checksum_ok && d.unknown_fields == 0 && d.rebuild_order_packed, "{what}");
                    assert_eq!(d.magic, *MAGIC);
                    assert_eq!(d.dict.application_version, bitar::api::compress::PKG_VERSION);
                    let req = Requested { params: params_of(cfg, hash_len), comp: comp.clone(), metadata: meta.clone(), expected_cuts: None };
                    assert_eq!(conformance(&bytes, source, &req), Vec::<String>::new(), "{what}");
                    assert_eq!(&ref_unpack(&bytes).unwrap(), source, "{what}");
                    if c != COMP_NONE && source.len() > 1000 {
                        assert!(d.dict.chunk_descriptors.iter().any(|x| x.archive_size < x.source_size), "{what}: nothing compressed");
                    }
                    // for FixedSize the boundaries are known without a reference chunker
                    if let Config::FixedSize(sz) = cfg {
                        let req = Requested { expected_cuts: Some(fixed_cuts(source.len(), *sz)), ..req.clone() };
                        assert_eq!(conformance(&bytes, source, &req), Vec::<String>::new(), "{what}");
                    }
                    // this encoder reproduces bitar's header bit for bit from the decoded dictionary
                    // (same field order, default omission, packed rebuild order; metadata sorted by key)
                    assert_eq!(encode_header(&d.dict, &EncOpts::default()), &bytes[..d.header_len], "{what}");
                    // and the whole archive when fed the same cuts
                    let cuts: Vec<usize> = d
                        .dict
                        .rebuild_order
                        .iter()
                        .scan(0usize, |p, &i| {
                            *p += d.dict.chunk_descriptors[i as usize].source_size as usize;
                            Some(*p)
                        })
                        .collect();
                    let mut sorted = meta.clone();
                    sorted.sort();
                    let r = Recipe { params: req.params.clone(), comp: comp.clone(), metadata: sorted, app_version: d.dict.application_version.clone(), ..recipe(c, level, hash_len) };
                    assert!(build_archive(source, &cuts, &r).unwrap().bytes == bytes, "{what}: build_archive differs from bitar");
                    // a requested-options mismatch is noticed
                    let wrong = Requested { comp: Comp { compression: c, compression_level: level + 1 }, ..req.clone() };
                    assert_eq!(tags(&conformance(&bytes, source, &wrong)), ["params"]);
                }
            }
        }
        assert_eq!(n, 48);
    }

    async fn bitar_clone<R: bitar::archive_reader::ArchiveReader>(mut archive: bitar::Archive<R>) -> Vec<u8>
    where
        R::Error: std::fmt::Debug,
    {
        use futures_util::StreamExt;
        let mut output_buf = vec![];
        {
            let mut output = bitar::CloneOutput::new(std::io::Cursor::new(&mut output_buf), archive.build_source_index());
            let mut chunk_stream = archive.chunk_stream(output.chunks());
            while let Some(result) = chunk_stream.next().await {
                let verified = result.expect("chunk").decompress().expect("decompress").verify().expect("verify");
                output.feed(&verified).await.unwrap();
            }
        }
        output_buf
    }

    fn bitar_opens(source: &[u8], cuts: &[usize], r: &Recipe) {
        let b = build_archive(source, cuts, r).unwrap();
        assert_eq!(ref_unpack(&b.bytes).unwrap(), source);
        let d = decode(&b.bytes).unwrap();
        let mut stripped = d.dict.clone();
        stripped.unknown.clear();
        assert_eq!(stripped, b.dict);
        assert_eq!((d.header_len, d.chunk_data_offset), (b.header_len, b.chunk_data_offset));
        assert_eq!(b.chunk_data_offset, (b.header_len + r.slack) as u64);
        rt().block_on(async {
            let a = bitar::Archive::try_init(bitar::archive_reader::IoReader::new(std::io::Cursor::new(b.bytes.clone())))
                .await
                .unwrap_or_else(|e| panic!("bitar rejects {r:?}: {e:?}"));
            assert_eq!(a.total_source_size(), source.len() as u64);
            assert_eq!(a.source_checksum().slice(), &blake2b512(source)[..]);
            assert_eq!(a.chunk_hash_length(), r.hash_len);
            assert_eq!(a.chunk_data_offset(), b.chunk_data_offset);
            assert_eq!(a.header_size(), b.header_len);
            assert_eq!(a.header_checksum().slice(), &b.bytes[b.header_len - 64..b.header_len]);
            assert_eq!(a.built_with_version(), r.app_version);
            assert_eq!(*a.chunker_config(), config_of(&r.params));
            assert_eq!(a.chunk_compression(), bitar_compression(&r.comp));
            assert_eq!(a.total_chunks(), cuts.len());
            assert_eq!(a.unique_chunks(), b.dict.chunk_descriptors.len());
            let got_meta: Vec<(String, Vec<u8>)> = a.metadata_iter().map(|(k, v)| (k.to_string(), v.to_vec())).collect();
            let want_meta: Vec<(String, Vec<u8>)> = as_map(&r.metadata).into_iter().map(|(k, v)| (k.to_string(), v.to_vec())).collect();
            assert_eq!(got_meta, want_meta);
            assert_eq!(a.chunk_descriptors().len(), b.dict.chunk_descriptors.len());
            for (x, y) in a.chunk_descriptors().iter().zip(&b.dict.chunk_descriptors) {
                assert_eq!(x.checksum.slice(), &y.checksum[..]);
                assert_eq!(x.archive_size, y.archive_size as usize);
                assert_eq!(x.archive_offset, b.chunk_data_offset + y.archive_offset);
                assert_eq!(x.source_size, y.source_size);
                // the stored bytes are where the descriptor says
                let s = x.archive_offset as usize;
                let stored = &b.bytes[s..s + x.archive_size];
                let chunk = if y.archive_size == y.source_size { stored.to_vec() } else { decompress(r.comp.compression, stored, 0).unwrap() };
                assert_eq!(&blake2b512(&chunk)[..r.hash_len], &y.checksum[..]);
            }
            let order: Vec<u32> = a
                .iter_source_chunks()
                .map(|(_, cd)| a.chunk_descriptors().iter().position(|x| x == cd).unwrap() as u32)
                .collect();
            assert_eq!(order, b.dict.rebuild_order);
            assert_eq!(bitar_clone(a).await, source, "bitar clone of {r:?}");
        });
    }

    #[test]
    fn codec_archives_are_opened_by_bitar() {
        let source = sample_source(77, 30_000);
        let cuts = fixed_cuts(source.len(), 1000);
        let base = recipe(COMP_BROTLI, 5, 64);
        let n = build_archive(&source, &cuts, &base).unwrap().dict.chunk_descriptors.len();
        let mut rng = Rng(99);
        let mut shuffled: Vec<usize> = (0..n).collect();
        for i in (1..n).rev() {
            shuffled.swap(i, (rng.next() % (i as u64 + 1)) as usize);
        }
        let all_enc = EncOpts { legacy_magic: true, chunk_data_offset: Some(1), inject_unknown: true, unpacked_rebuild_order: true, emit_defaults: true };
        let meta = vec![("b".to_string(), vec![1, 2]), ("a".to_string(), vec![]), ("b".to_string(), vec![0xff; 200]), ("".to_string(), vec![0])];
        let recipes = vec![
            base.clone(),
            Recipe { enc: EncOpts { legacy_magic: true, ..Default::default() }, ..base.clone() },
            Recipe { slack: 1, ..base.clone() },
            Recipe { slack: 4097, pad_byte: 0, ..base.clone() },
            Recipe { order: (0..n).rev().collect(), ..base.clone() },
            Recipe { order: shuffled.clone(), gaps: (0..n).map(|i| i % 4 * 7).collect(), ..base.clone() },
            Recipe { gaps: vec![100], ..base.clone() },
            Recipe { enc: EncOpts { inject_unknown: true, ..Default::default() }, ..base.clone() },
            Recipe { enc: EncOpts { unpacked_rebuild_order: true, ..Default::default() }, ..base.clone() },
            Recipe { enc: EncOpts { emit_defaults: true, ..Default::default() }, ..base.clone() },
            Recipe { raw: vec![true; n], ..base.clone() },
            Recipe { raw: (0..n).map(|i| i % 2 == 0).collect(), ..base.clone() },
            Recipe { hash_len: 4, ..base.clone() },
            Recipe { hash_len: 33, ..base.clone() },
            Recipe { metadata: meta.clone(), ..base.clone() },
            Recipe { comp: Comp { compression: COMP_NONE, compression_level: 0 }, ..base.clone() },
            Recipe { comp: Comp { compression: COMP_ZSTD, compression_level: 9 }, ..base.clone() },
            Recipe { comp: Comp { compression: COMP_LZMA, compression_level: 2 }, ..base.clone() },
            Recipe {
                params: Params { chunk_filter_bits: 13, min_chunk_size: 77, max_chunk_size: 99999, rolling_hash_window_size: 48, chunk_hash_length: 1, chunking_algorithm: 0 },
                ..base.clone()
            },
            Recipe {
                params: Params { chunk_filter_bits: 1, min_chunk_size: 0, max_chunk_size: u32::MAX, rolling_hash_window_size: 1, chunk_hash_length: 0, chunking_algorithm: 1 },
                app_version: String::new(),
                ..base.clone()
            },
            Recipe {
                enc: all_enc.clone(),
                slack: 13,
                order: shuffled,
                gaps: vec![3; n],
                raw: (0..n).map(|i| i % 3 == 0).collect(),
                hash_len: 4,
                metadata: meta.clone(),
                comp: Comp { compression: COMP_ZSTD, compression_level: 1 },
                ..base.clone()
            },
        ];
        for r in &recipes {
            bitar_opens(&source, &cuts, r);
        }
        // zero chunks, one chunk, irregular cuts with one-byte chunks
        for r in [&base, &Recipe { enc: all_enc.clone(), slack: 5, metadata: meta.clone(), ..base.clone() }] {
            bitar_opens(&[], &[], r);
            bitar_opens(&source, &[source.len()], r);
            bitar_opens(&source[..5000], &[1, 2, 3, 1000, 1001, 4999, 5000], r);
            bitar_opens(&[0u8; 4000], &fixed_cuts(4000, 100), r);
        }
    }

    #[test]
    fn codec_golden_archives() {
        // first bytes of the source checksums listed in bitar/tests/common.rs (the sources themselves
        // are not in the repository; random.img / zero.img belong to the chunking tests)
        const RAND_B2SUM: [u8; 8] = [0x90, 0x40, 0x55, 0x51, 0x4a, 0xd3, 0x89, 0x66];
        const ZERO_B2SUM: [u8; 8] = [0xcd, 0x47, 0x10, 0x39, 0x0f, 0x85, 0x42, 0xc6];
        let dir = std::path::Path::new("/repo/bitar/tests/resources");
        let mut names: Vec<String> = std::fs::read_dir(dir)
            .unwrap()
            .map(|e| e.unwrap().file_name().into_string().unwrap())
            .filter(|n| n.ends_with(".cba"))
            .collect();
        names.sort();
        assert_eq!(names.len(), 7, "{names:?}");
        // pass 1: everything decodes; the intact ones unpack
        let mut sources: HashMap<Vec<u8>, Vec<u8>> = HashMap::new();
        for name in &names {
            let bytes = std::fs::read(dir.join(name)).unwrap();
            let d = decode(&bytes).unwrap_or_else(|e| panic!("{name}: {e}"));
            assert_eq!(d.header_checksum_ok, !name.contains("corrupt-header"), "{name}");
            assert_eq!(d.unknown_fields, 0, "{name}");
            // the 0.1.1 writer emitted rebuild_order unpacked
            assert_eq!(d.rebuild_order_packed, !name.contains("0_1_1"), "{name}");
            assert_eq!(d.magic, if name.contains("0_1_1") { *LEGACY_MAGIC } else { *MAGIC }, "{name}");
            assert_eq!(d.chunk_data_offset, d.header_len as u64, "{name}");
            assert_eq!(d.dict.source_checksum.len(), 64, "{name}");
            assert!(!d.dict.application_version.is_empty(), "{name}");
            if let Some(want_comp) = ["none", "lzma", "zstd", "brotli"].iter().position(|c| name.contains(c)) {
                assert_eq!(d.dict.chunk_compression.as_ref().unwrap().compression, want_comp as u32, "{name}");
            }
            if !name.contains("trunc") {
                let want = if name.starts_with("rand") { RAND_B2SUM } else { ZERO_B2SUM };
                assert_eq!(d.dict.source_checksum[..8], want, "{name}");
            }
            // re-encoding the decoded dictionary reproduces the header bit for bit
            if d.header_checksum_ok {
                let o = EncOpts { legacy_magic: d.magic == *LEGACY_MAGIC, unpacked_rebuild_order: !d.rebuild_order_packed, ..Default::default() };
                assert!(encode_header(&d.dict, &o)[..] == bytes[..d.header_len], "{name}");
            }
            let r = ref_unpack(&bytes);
            if name.contains("corrupt-header") {
                assert_eq!(r.unwrap_err(), "header checksum mismatch", "{name}");
            } else if name.contains("corrupt-chunk") {
                assert!(r.unwrap_err().contains("checksum mismatch"), "{name}");
            } else if name.contains("trunc") {
                assert!(r.unwrap_err().contains("outside the file"), "{name}");
            } else {
                let out = r.unwrap_or_else(|e| panic!("{name}: {e}"));
                assert_eq!(out.len() as u64, d.dict.source_total_size, "{name}");
                assert_eq!(blake2b512(&out)[..], d.dict.source_checksum[..], "{name}");
                if name.starts_with("zero") {
                    assert!(out.iter().all(|&b| b == 0), "{name}");
                }
                sources.insert(d.dict.source_checksum[..8].to_vec(), out);
            }
        }
        assert_eq!(sources.len(), 2);
        // pass 2: today's conformance checklist against the recovered sources
        for name in &names {
            let bytes = std::fs::read(dir.join(name)).unwrap();
            let d = decode(&bytes).unwrap();
            let Some(source) = sources.get(&d.dict.source_checksum[..8]) else {
                assert!(name.contains("trunc"), "{name}");
                continue;
            };
            let req = Requested { params: d.dict.chunker_params.clone().unwrap(), comp: d.dict.chunk_compression.clone().unwrap(), metadata: vec![], expected_cuts: None };
            let issues = tags(&conformance(&bytes, source, &req));
            if name.contains("corrupt-header") {
                // the corrupted byte lies inside the dictionary's source_checksum field
                assert_eq!(issues, ["hdrsum", "srcsum"], "{name}: {:?}", conformance(&bytes, source, &req));
            } else if name.contains("corrupt-chunk") {
                // (the file is also one byte shorter than the intact archive)
                assert_eq!(issues, ["length", "chunk"], "{name}: {:?}", conformance(&bytes, source, &req));
            } else if name.contains("0_1_1") {
                assert_eq!(issues, ["magic"], "{name}"); // old writers used the legacy magic
            } else {
                assert_eq!(issues, Vec::<String>::new(), "{name}");
            }
        }
    }

    /// No panics (the test profile has overflow checks and debug assertions on), whatever the input.
    #[test]
    fn codec_mutated_archives_do_not_panic() {
        let source = sample_source(31, 6000);
        let cuts = fixed_cuts(source.len(), 500);
        let mut rng = Rng(4242);
        let mut rejected = 0usize;
        let mut total = 0usize;
        for (c, level) in [(COMP_NONE, 0), (COMP_LZMA, 1), (COMP_ZSTD, 1), (COMP_BROTLI, 1)] {
            let r = Recipe { metadata: vec![("k".into(), vec![1, 2, 3])], ..recipe(c, level, 8) };
            let good = build_archive(&source, &cuts, &r).unwrap();
            let req = requested(&r, &cuts);
            for round in 0..1500 {
                let mut b = good.bytes.clone();
                match round % 5 {
                    // header byte
                    0 | 1 => {
                        let i = (rng.next() as usize) % good.header_len;
                        b[i] = (rng.next() >> 8) as u8;
                    }
                    // dictionary byte with a fixed-up checksum, so that the damage reaches the later checks
                    2 | 3 => {
                        let i = PRE_HEADER_LEN + (rng.next() as usize) % (good.header_len - PRE_HEADER_LEN - TRAILER_LEN);
                        b[i] ^= 1 << (rng.next() % 8);
                        let sum = blake2b512(&b[..good.header_len - 64]);
                        b[good.header_len - 64..good.header_len].copy_from_slice(&sum);
                    }
                    // payload byte or truncation
                    _ => {
                        if rng.next() % 2 == 0 && b.len() > good.header_len {
                            let i = good.header_len + (rng.next() as usize) % (b.len() - good.header_len);
                            b[i] ^= 1 << (rng.next() % 8);
                        } else {
                            b.truncate((rng.next() as usize) % b.len());
                        }
                    }
                }
                total += 1;
                let _ = decode(&b);
                let issues = conformance(&b, &source, &req);
                let unpacked = ref_unpack(&b);
                if b != good.bytes {
                    // an archive that differs from the conforming one is either flagged or still unpacks to the source
                    match &unpacked {
                        Ok(out) => assert!(*out == source, "round {round}: damaged archive unpacks to something else"),
                        Err(_) => assert!(!issues.is_empty(), "round {round}: ref_unpack fails but conformance is silent"),
                    }
                    if !issues.is_empty() {
                        rejected += 1;
                    }
                }
            }
        }
        assert!(rejected * 10 > total * 9, "{rejected} of {total}");
        // extreme dictionary sizes and offsets
        for sz in [0u64, 1, 71, 72, u64::MAX, u64::MAX - 86, 1 << 32, 1 << 63] {
            let mut b = encode_header(&Dict::default(), &EncOpts::default());
            b[6..14].copy_from_slice(&sz.to_le_bytes());
            let _ = decode(&b);
            let _ = ref_unpack(&b);
            let _ = conformance(&b, &[], &requested(&recipe(0, 0, 64), &[]));
        }
        let huge = Dict {
            source_total_size: u64::MAX,
            rebuild_order: vec![0, 1, 1, u32::MAX],
            chunk_descriptors: vec![
                Desc { checksum: vec![0; 64], archive_size: u32::MAX, archive_offset: u64::MAX, source_size: u32::MAX },
                Desc { checksum: vec![0; 65], archive_size: 1, archive_offset: u64::MAX - 1, source_size: u32::MAX },
            ],
            chunk_compression: Some(Comp { compression: 77, compression_level: u32::MAX }),
            ..Default::default()
        };
        for off in [0u64, 86, u64::MAX, u64::MAX - 1] {
            let b = encode_header(&huge, &EncOpts { chunk_data_offset: Some(off), ..Default::default() });
            assert!(decode(&b).is_ok());
            assert!(ref_unpack(&b).is_err());
            assert!(!conformance(&b, &source, &requested(&recipe(0, 0, 64), &[])).is_empty());
        }
    }
}
