//! Worker-subprocess isolation for sweeps over untrusted input (C04, C15): an allocation failure
//! or double panic aborts the process, so cases run in workers with an address-space limit and a
//! per-case watchdog. A worker checkpoints (next job, aggregator) regularly; when it dies the
//! parent records the case it was on, and respawns it after the last checkpoint with that case
//! on the skip list — a crash costs one process and at most one checkpoint interval of rework.
use crate::rep::*;
use serde_json::{json, Value};
use std::collections::BTreeSet;
use std::path::{Path, PathBuf};
use std::sync::atomic::{AtomicU64, Ordering};

pub const CHECKPOINT_EVERY: usize = 200;
pub const WATCHDOG_SECS: u64 = 20;
pub const EXIT_WATCHDOG: i32 = 97;

pub fn agg_to_json(a: &Agg) -> Value {
    json!({
        "counters": a.counters,
        "classes": a.classes.iter().map(|(k, v)| (k.clone(), json!({"count": v.count, "examples": v.examples}))).collect::<serde_json::Map<String, Value>>(),
        "samples": a.samples,
        "distinct": a.distinct.iter().map(|(k, v)| (k.clone(), json!(v.iter().collect::<Vec<_>>()))).collect::<serde_json::Map<String, Value>>(),
        "notes": a.notes,
    })
}

pub fn agg_from_json(v: &Value) -> Agg {
    let mut a = Agg::default();
    if let Some(o) = v["counters"].as_object() {
        for (k, x) in o {
            a.counters.insert(k.clone(), x.as_u64().unwrap_or(0));
        }
    }
    if let Some(o) = v["classes"].as_object() {
        for (k, x) in o {
            a.classes.insert(k.clone(), ClassAgg { count: x["count"].as_u64().unwrap_or(0), examples: x["examples"].as_array().cloned().unwrap_or_default() });
        }
    }
    a.samples = v["samples"].as_array().cloned().unwrap_or_default();
    if let Some(o) = v["distinct"].as_object() {
        for (k, x) in o {
            a.distinct.insert(k.clone(), x.as_array().map(|v| v.iter().filter_map(|y| y.as_u64()).collect()).unwrap_or_default());
        }
    }
    a.notes = v["notes"].as_array().map(|v| v.iter().filter_map(|x| x.as_str().map(|s| s.to_string())).collect()).unwrap_or_default();
    a
}

#[derive(Clone, Debug)]
pub struct Death {
    pub job: usize,
    pub how: String,
}

static CASE_STARTED: AtomicU64 = AtomicU64::new(0);

/// Restart the watchdog clock (called per operation inside a job).
pub fn case_tick() {
    if CASE_STARTED.load(Ordering::SeqCst) != 0 {
        CASE_STARTED.store(now_ms(), Ordering::SeqCst);
    }
}

fn now_ms() -> u64 {
    std::time::SystemTime::now().duration_since(std::time::UNIX_EPOCH).unwrap().as_millis() as u64
}

fn write_atomic(path: &Path, data: &[u8]) {
    let tmp = path.with_extension("tmp");
    std::fs::write(&tmp, data).expect("write checkpoint");
    std::fs::rename(&tmp, path).expect("rename checkpoint");
}

/// Worker side. `run_job(job_index, &mut agg)` executes one job. Jobs of this worker are
/// offset, offset+stride, ... < njobs; `start` is the first position (in that sequence) to run.
pub fn worker_loop(njobs: usize, offset: usize, stride: usize, start: usize, skip: &BTreeSet<usize>, ckpt: &Path, progress: &Path, mem_limit_gib: u64, mut run_job: impl FnMut(usize, &mut Agg)) {
    unsafe {
        let lim = libc::rlimit { rlim_cur: mem_limit_gib << 30, rlim_max: mem_limit_gib << 30 };
        libc::setrlimit(libc::RLIMIT_AS, &lim);
        // no core dumps for expected aborts
        let z = libc::rlimit { rlim_cur: 0, rlim_max: 0 };
        libc::setrlimit(libc::RLIMIT_CORE, &z);
    }
    let progress_path: PathBuf = progress.to_path_buf();
    std::thread::spawn(move || loop {
        std::thread::sleep(std::time::Duration::from_millis(250));
        let t = CASE_STARTED.load(Ordering::SeqCst);
        if t != 0 && now_ms().saturating_sub(t) > WATCHDOG_SECS * 1000 {
            let _ = std::fs::write(progress_path.with_extension("timeout"), b"1");
            unsafe { libc::_exit(EXIT_WATCHDOG) };
        }
    });
    let mut agg = Agg::default();
    // resume from the checkpoint if there is one
    if let Ok(b) = std::fs::read(ckpt) {
        if let Ok(v) = serde_json::from_slice::<Value>(&b) {
            agg = agg_from_json(&v["agg"]);
        }
    }
    let mut pos = start;
    loop {
        let job = offset + pos * stride;
        if job >= njobs {
            break;
        }
        if !skip.contains(&job) {
            std::fs::write(progress, job.to_string()).expect("progress");
            CASE_STARTED.store(now_ms(), Ordering::SeqCst);
            run_job(job, &mut agg);
            CASE_STARTED.store(0, Ordering::SeqCst);
        }
        pos += 1;
        if pos % CHECKPOINT_EVERY == 0 {
            write_atomic(ckpt, json!({"next": pos, "done": false, "agg": agg_to_json(&agg)}).to_string().as_bytes());
        }
    }
    write_atomic(ckpt, json!({"next": pos, "done": true, "agg": agg_to_json(&agg)}).to_string().as_bytes());
}

/// Parent side: run `nworkers` workers of `vh iso-worker <kind> <tier> ...` and merge.
pub fn run_isolated(kind: &str, tier: &str, njobs: usize, nworkers: usize) -> Result<(Agg, Vec<Death>), String> {
    let exe = std::env::current_exe().map_err(|e| e.to_string())?;
    let dir = crate::sched::scratch_dir("iso");
    let results: Vec<Result<(Agg, Vec<Death>), String>> = std::thread::scope(|s| {
        let hs: Vec<_> = (0..nworkers)
            .map(|w| {
                let exe = exe.clone();
                let dirp = dir.path().to_path_buf();
                s.spawn(move || -> Result<(Agg, Vec<Death>), String> {
                    let ckpt = dirp.join(format!("w{w}.ckpt"));
                    let progress = dirp.join(format!("w{w}.progress"));
                    let skipf = dirp.join(format!("w{w}.skip"));
                    let mut skip: BTreeSet<usize> = BTreeSet::new();
                    let mut deaths = vec![];
                    let mut start = 0usize;
                    let mut respawns = 0;
                    loop {
                        std::fs::write(&skipf, skip.iter().map(|x| x.to_string()).collect::<Vec<_>>().join(",")).map_err(|e| e.to_string())?;
                        let _ = std::fs::remove_file(&progress);
                        let _ = std::fs::remove_file(progress.with_extension("timeout"));
                        let status = std::process::Command::new(&exe)
                            .args(["iso-worker", kind, tier, &njobs.to_string(), &w.to_string(), &nworkers.to_string(), &start.to_string()])
                            .arg(&skipf)
                            .arg(&ckpt)
                            .arg(&progress)
                            .stdout(std::process::Stdio::null())
                            .stderr(std::process::Stdio::null())
                            .status()
                            .map_err(|e| e.to_string())?;
                        let ck: Option<Value> = std::fs::read(&ckpt).ok().and_then(|b| serde_json::from_slice(&b).ok());
                        if status.success() {
                            let ck = ck.ok_or("worker finished without checkpoint")?;
                            if ck["done"].as_bool() != Some(true) {
                                return Err("worker exited 0 without finishing".into());
                            }
                            return Ok((agg_from_json(&ck["agg"]), deaths));
                        }
                        // the worker died: which job was it on?
                        let job: usize = std::fs::read_to_string(&progress).ok().and_then(|s| s.trim().parse().ok()).ok_or(format!("worker died ({status}) before its first job"))?;
                        use std::os::unix::process::ExitStatusExt;
                        let how = if status.code() == Some(EXIT_WATCHDOG) {
                            format!("watchdog: no result within {WATCHDOG_SECS} s")
                        } else if let Some(sig) = status.signal() {
                            format!("killed by signal {sig}")
                        } else {
                            format!("exit status {}", status.code().unwrap_or(-1))
                        };
                        if !skip.insert(job) {
                            return Err(format!("worker died twice on job {job} although it was skipped"));
                        }
                        deaths.push(Death { job, how });
                        start = ck.as_ref().and_then(|c| c["next"].as_u64()).unwrap_or(0) as usize;
                        respawns += 1;
                        if respawns > 2000 {
                            return Err("too many worker deaths".into());
                        }
                    }
                })
            })
            .collect();
        hs.into_iter().map(|h| h.join().unwrap_or_else(|_| Err("isolation thread panicked".into()))).collect()
    });
    let mut agg = Agg::default();
    let mut deaths = vec![];
    for r in results {
        let (a, d) = r?;
        agg.merge(a);
        deaths.extend(d);
    }
    deaths.sort_by_key(|d| d.job);
    // A watchdog death seen while all workers (and whatever else runs on the machine) compete for CPU and memory is
    // not yet a verdict: the case is run again ALONE, one at a time, with the same limit. Only a case that exceeds
    // the limit on its own is reported; one that now ends in time is dropped from the list (and counted).
    let mut kept = vec![];
    for d in deaths {
        if !d.how.starts_with("watchdog") {
            kept.push(d);
            continue;
        }
        let mut child = std::process::Command::new(&exe)
            .args(["iso-job", kind, tier, &d.job.to_string()])
            .stdout(std::process::Stdio::null())
            .stderr(std::process::Stdio::null())
            .spawn()
            .map_err(|e| e.to_string())?;
        let t0 = std::time::Instant::now();
        let mut ended = None;
        while t0.elapsed().as_secs() < WATCHDOG_SECS {
            if let Ok(Some(st)) = child.try_wait() {
                ended = Some(st);
                break;
            }
            std::thread::sleep(std::time::Duration::from_millis(50));
        }
        match ended {
            Some(st) if st.success() => agg.add("watchdog_deaths_not_confirmed_when_run_alone", 1),
            Some(_) => kept.push(Death { job: d.job, how: format!("{} (alone: ended in time, with a failure)", d.how) }),
            None => {
                let _ = child.kill();
                let _ = child.wait();
                kept.push(Death { job: d.job, how: format!("{} (confirmed when run alone)", d.how) });
            }
        }
    }
    Ok((agg, kept))
}

/// Address-space limit for a process that runs untrusted-input cases outside worker_loop (iso-job).
pub fn limit_memory(gib: u64) {
    unsafe {
        let lim = libc::rlimit { rlim_cur: gib << 30, rlim_max: gib << 30 };
        libc::setrlimit(libc::RLIMIT_AS, &lim);
        let z = libc::rlimit { rlim_cur: 0, rlim_max: 0 };
        libc::setrlimit(libc::RLIMIT_CORE, &z);
    }
}

pub struct WorkerArgs {
    pub kind: String,
    pub tier: String,
    pub njobs: usize,
    pub offset: usize,
    pub stride: usize,
    pub start: usize,
    pub skip: BTreeSet<usize>,
    pub ckpt: PathBuf,
    pub progress: PathBuf,
}

pub fn parse_worker_args(a: &[String]) -> WorkerArgs {
    let skip: BTreeSet<usize> = std::fs::read_to_string(&a[6]).unwrap_or_default().split(',').filter_map(|x| x.trim().parse().ok()).collect();
    WorkerArgs { kind: a[0].clone(), tier: a[1].clone(), njobs: a[2].parse().unwrap(), offset: a[3].parse().unwrap(), stride: a[4].parse().unwrap(), start: a[5].parse().unwrap(), skip, ckpt: a[7].clone().into(), progress: a[8].clone().into() }
}
