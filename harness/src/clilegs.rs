//! CLI legs of C02 / C03 / C06: the real `clone_cmd` (argument parsing included) in-process on
//! real files and over loopback HTTP, on the scenario families of the word universes. They bind
//! the library-level legs to the CLI wiring (seed chunker configuration, hash length, in-place
//! scan, block device path via hook H1).
use crate::c04::{cli_clone, cli_clone_args};
use crate::clonechecks::*;
use crate::clonelab::*;
use crate::httpd::Script;
use crate::memdev::Fault;
use crate::netchecks::{runs_of, HttpLab};
use crate::rep::*;
use crate::sched::scratch_dir;
use crate::universe::*;
use serde_json::{json, Value};

fn machinery(e: String) -> ! {
    eprintln!("MACHINERY-ERROR {e}");
    std::process::exit(2)
}

#[derive(Clone, Copy, PartialEq, Debug)]
pub enum Which {
    C02,
    C03,
    C06,
    /// C06's scenarios, always over HTTP; judged by C07's statement (requests == maximal runs of the
    /// chunks that are really missing)
    C07,
}

fn scenarios(which0: Which, u: &Universe, arch: &Arch, n: usize) -> Vec<Scenario> {
    let which = if which0 == Which::C07 { Which::C06 } else { which0 };
    let letters = u.letters();
    let mut v = vec![];
    let mk = |prior: Option<Vec<u8>>, seed_output: bool, seeds: Vec<Vec<u8>>| Scenario { prior, seed_output, seeds, fault: Fault::None, verify_output: false };
    if which != Which::C03 {
        for s in seqs(letters.len(), n) {
            v.push(mk(None, false, vec![u.concat(&letters, &s)]));
        }
        for a in seqs(letters.len(), 1) {
            for b in seqs(letters.len(), 1) {
                v.push(mk(None, false, vec![u.concat(&letters, &a), u.concat(&letters, &b)]));
            }
        }
        v.push(mk(None, false, vec![arch.source.clone()]));
    }
    if which != Which::C02 {
        for p in seqs(letters.len(), n) {
            v.push(mk(Some(u.concat(&letters, &p)), true, vec![]));
        }
        v.push(mk(Some(arch.source.clone()), true, vec![]));
        // a chunk twice in the prior output before another one (whatever the depth n): the scan must not
        // lose count of what it has seen
        for a in 0..letters.len() {
            for b in 0..letters.len() {
                if a != b {
                    v.push(mk(Some(u.concat(&letters, &[a, a, b])), true, vec![]));
                }
            }
        }
    }
    if which == Which::C02 {
        // an existing, longer output that is overwritten (--force-create) while seeds supply some or
        // all of the chunks
        let mut longer = arch.source.clone();
        longer.extend_from_slice(b"a stale tail that must go");
        for sd in seqs(letters.len(), 1) {
            v.push(mk(Some(longer.clone()), false, vec![u.concat(&letters, &sd)]));
        }
        v.push(mk(Some(longer.clone()), false, vec![arch.source.clone()]));
        v.push(mk(Some(longer), false, vec![arch.source.clone(), arch.source.clone()]));
        // the output itself as one more seed, combined with a seed file: every prior of <= 2 letters
        // x every seed of <= 2 letters (the order in which the two kinds of seed are consumed matters)
        for p in seqs(letters.len(), 2) {
            for s in seqs(letters.len(), 2) {
                if p.is_empty() || s.is_empty() || (p.len() == 2 && s.len() == 2 && (p[0] + 2 * p[1] + s[0] + s[1]) % 6 != 0) {
                    continue; // 2x2-letter combinations: a deterministic third
                }
                v.push(mk(Some(u.concat(&letters, &p)), true, vec![u.concat(&letters, &s)]));
            }
        }
    }
    if which == Which::C06 {
        for p in seqs(letters.len(), 1) {
            // existing file that is overwritten, not used as seed
            v.push(mk(Some(u.concat(&letters, &p)), false, vec![]));
            for s in seqs(letters.len(), 1) {
                v.push(mk(Some(u.concat(&letters, &p)), true, vec![u.concat(&letters, &s)]));
            }
        }
    }
    v
}

/// Run the scenario families through the real clone_cmd. `block_dev`: set hook H1 so that the
/// regular output file takes the block device code path (the whole process phase uses it).
pub fn run(rep: &mut Report, which0: Which, block_dev: bool) {
    let which = if which0 == Which::C07 { Which::C06 } else { which0 };
    let thorough = rep.thorough();
    let lab = Lab::new(false);
    let n = if thorough { 3 } else { 2 };
    // truncated hash lengths are swept by the library legs; the CLI legs take both only where cheap
    let hls: &[usize] = if block_dev { &[64] } else { &[64, 4] };
    let sh = shards(&lab, if thorough { 3 } else { 2 }, hls);
    if block_dev {
        std::env::set_var("BITA_VERIF_BLOCKDEV", "1");
    }
    let (lab_ref, sh_ref) = (&lab, &sh);
    let nshards = threads();
    let a = par_shards(nshards, threads(), |k| {
        let mut agg = Agg::default();
        let rt = new_rt();
        let http = HttpLab::new();
        let dir = scratch_dir("cli");
        let apath = dir.path().join("a.cba");
        let out = dir.path().join("out.bin");
        for (si, s) in sh_ref.iter().enumerate() {
            if si % nshards != k {
                continue;
            }
            let arch = shard_arch(lab_ref, s, &rt).unwrap_or_else(|e| machinery(e));
            let (u, _) = &lab_ref.unis[s.ui];
            std::fs::write(&apath, &arch.bytes).unwrap();
            for (sci, sc) in scenarios(which, u, &arch, n).iter().enumerate() {
                // a block device has a fixed size: model it by a prior at least as large as the source
                let mut sc = sc.clone();
                if block_dev {
                    let mut p = sc.prior.clone().unwrap_or_default();
                    if p.len() < arch.source.len() + 8 {
                        p.resize(arch.source.len() + 8, 0);
                    }
                    sc.prior = Some(p);
                }
                let m = model(&arch, &sc);
                let use_http = which == Which::C06 || sci % 4 == 0;
                let _ = std::fs::remove_file(&out);
                if let Some(p) = &sc.prior {
                    std::fs::write(&out, p).unwrap();
                }
                let mut extra: Vec<String> = vec![];
                for (i, seed) in sc.seeds.iter().enumerate() {
                    let sp = dir.path().join(format!("seed{i}.bin"));
                    std::fs::write(&sp, seed).unwrap();
                    extra.extend(["--seed".to_string(), sp.to_str().unwrap().to_string()]);
                }
                if sc.seed_output {
                    extra.push("--seed-output".into());
                    // both flags together must behave like --seed-output alone
                    if sci % 2 == 1 {
                        extra.push("--force-create".into());
                    }
                } else if sc.prior.is_some() {
                    extra.push("--force-create".into());
                }
                // the number of chunks in flight rotates through 1 / 2 (default of the legs) / 7
                match sci % 3 {
                    0 => extra.extend(["--buffered-chunks".to_string(), "1".to_string()]),
                    1 => extra.extend(["--buffered-chunks".to_string(), "7".to_string()]),
                    _ => {}
                }
                if use_http && sci % 40 == 19 {
                    extra.extend(["--http-header".to_string(), "X-Verif: one".to_string(), "--http-header".to_string(), "Authorization: Bearer abc".to_string()]);
                }
                let archive_arg = if use_http {
                    // every 40th HTTP scenario: the bodies are flushed byte by byte (no failure involved)
                    let splits: Vec<usize> = if sci % 40 == 3 { (1..40).collect() } else { vec![] };
                    // every 40th: all answers in chunked transfer encoding (no Content-Length)
                    let faults = if sci % 40 == 11 { vec![crate::httpd::Fault::Chunked; 64] } else { vec![] };
                    http.server.arm(&arch.bytes, Script { faults, splits, keep_alive: true });
                    http.server.url()
                } else {
                    apath.to_str().unwrap().to_string()
                };
                let r = cli_clone(if use_http { &http.rt } else { &rt }, cli_clone_args(&archive_arg, &out, &extra));
                agg.add("cli_scenarios", 1);
                if use_http {
                    agg.add("cli_scenarios_http", 1);
                }
                let detail = |extra: Value| {
                    let mut j = scenario_json(&arch, &sc);
                    j["leg"] = json!(if block_dev { "cli-blockdev" } else { "cli" });
                    j["archive_over_http"] = json!(use_http);
                    j["extra"] = extra;
                    j
                };
                let outb = std::fs::read(&out).unwrap_or_default();
                let got = if block_dev { outb[..arch.source.len().min(outb.len())].to_vec() } else { outb.clone() };
                match &r {
                    Err(p) => {
                        if which != Which::C06 {
                            agg.viol(&format!("panic@{}", panic_site(p)), || detail(json!(p)));
                        }
                        continue;
                    }
                    Ok(Err(e)) => {
                        if which != Which::C06 {
                            agg.viol("valid-clone-failed", || detail(json!(e)));
                        }
                        continue;
                    }
                    Ok(Ok(())) => {
                        if got != arch.source {
                            if which != Which::C06 {
                                agg.viol("success-with-wrong-output", || detail(json!(hex(&got))));
                            }
                            continue;
                        }
                    }
                }
                if which == Which::C06 && use_http {
                    if let Some(why) = &m.unusable {
                        agg.add("scenarios_outside_model", 1);
                        let _ = why;
                        continue;
                    }
                    // requests: two header reads, then maximal runs of the missing descriptors
                    let log = http.server.log();
                    let got_req: Vec<Option<(u64, u64)>> = log.iter().map(|l| l.range).collect();
                    let hdr_ok = got_req.len() >= 2 && got_req[..2].iter().all(|r| matches!(r, Some((_, e)) if (*e as usize) < arch.header_size));
                    let want: Vec<Option<(u64, u64)>> = runs_of(&m.fetch).iter().map(|r| Some((r.0, r.1 - 1))).collect();
                    let data_req = if got_req.len() >= 2 { got_req[2..].to_vec() } else { vec![] };
                    if !hdr_ok {
                        agg.viol("read-outside-header-and-chunks", || detail(json!({"requests": got_req})));
                    } else if data_req != want {
                        let fetched: u64 = data_req.iter().map(|r| r.map(|(a, b)| b + 1 - a).unwrap_or(0)).sum();
                        let wanted: u64 = want.iter().map(|r| r.map(|(a, b)| b + 1 - a).unwrap_or(0)).sum();
                        let class = if which0 == Which::C07 {
                            "requests-differ-from-maximal-runs-of-missing-chunks"
                        } else if fetched > wanted {
                            "available-chunk-fetched"
                        } else if fetched < wanted {
                            "missing-chunk-not-fetched"
                        } else {
                            "fetch-requests-differ"
                        };
                        agg.viol(class, || detail(json!({"requests": data_req, "expected": want})));
                    }
                    if m.fetch.len() < arch.descs.len() {
                        agg.add("cli_scenarios_with_reuse", 1);
                    }
                }
                agg.distinct("cli_outcomes", fnv(format!("{:?}{:?}{}", sc.prior, sc.seeds, arch.bytes.len()).as_bytes()));
                if k == 1 && agg.samples.len() < 2 && sc.seed_output {
                    agg.sample(|| detail(json!(null)));
                }
            }
        }
        agg
    });
    if block_dev {
        std::env::remove_var("BITA_VERIF_BLOCKDEV");
    }
    // keep counters of the two phases apart
    let mut a = a;
    if block_dev {
        let keys: Vec<String> = a.counters.keys().cloned().collect();
        for key in keys {
            if key.starts_with("cli_") {
                let v = a.counters.remove(&key).unwrap();
                a.counters.insert(key.replace("cli_", "cli_blockdev_"), v);
            }
        }
    }
    rep.agg.merge(a);
}
