//! Result reporting: every sub-command produces one raw result JSON that `/verif/check`
//! turns into evidence, replay files, KNOWN-FINDING / VIOLATION lines and the exit status.
use serde_json::{json, Map, Value};
use std::collections::BTreeMap;
use std::time::Instant;

pub const MAX_EXAMPLES: usize = 3;
pub const MAX_SAMPLES: usize = 6;

#[derive(Default, Clone)]
pub struct ClassAgg {
    pub count: u64,
    pub examples: Vec<Value>,
}

/// Aggregator that can be built per shard and merged.
#[derive(Default, Clone)]
pub struct Agg {
    pub counters: BTreeMap<String, u64>,
    pub classes: BTreeMap<String, ClassAgg>,
    pub samples: Vec<Value>,
    pub distinct: BTreeMap<String, std::collections::BTreeSet<u64>>,
    pub notes: Vec<String>,
}

impl Agg {
    pub fn add(&mut self, key: &str, n: u64) {
        *self.counters.entry(key.to_string()).or_insert(0) += n;
    }
    pub fn max(&mut self, key: &str, n: u64) {
        let e = self.counters.entry(key.to_string()).or_insert(0);
        if n > *e {
            *e = n;
        }
    }
    pub fn get(&self, key: &str) -> u64 {
        self.counters.get(key).copied().unwrap_or(0)
    }
    /// Record a violation of class `class` (the known-findings matcher key).
    pub fn viol(&mut self, class: &str, detail: impl FnOnce() -> Value) {
        let e = self.classes.entry(class.to_string()).or_default();
        e.count += 1;
        if e.examples.len() < MAX_EXAMPLES {
            e.examples.push(detail());
        }
    }
    pub fn sample(&mut self, v: impl FnOnce() -> Value) {
        if self.samples.len() < MAX_SAMPLES {
            self.samples.push(v());
        }
    }
    /// Track a distinct outcome (by 64-bit fingerprint) under a named family.
    pub fn distinct(&mut self, family: &str, fp: u64) {
        self.distinct.entry(family.to_string()).or_default().insert(fp);
    }
    pub fn distinct_count(&self, family: &str) -> u64 {
        self.distinct.get(family).map(|s| s.len() as u64).unwrap_or(0)
    }
    pub fn merge(&mut self, o: Agg) {
        for (k, v) in o.counters {
            if k.starts_with("max_") {
                self.max(&k, v);
            } else {
                self.add(&k, v);
            }
        }
        for (k, v) in o.classes {
            let e = self.classes.entry(k).or_default();
            e.count += v.count;
            for x in v.examples {
                if e.examples.len() < MAX_EXAMPLES {
                    e.examples.push(x);
                }
            }
        }
        for s in o.samples {
            if self.samples.len() < MAX_SAMPLES {
                self.samples.push(s);
            }
        }
        for (k, v) in o.distinct {
            self.distinct.entry(k).or_default().extend(v);
        }
        self.notes.extend(o.notes);
    }
}

pub struct Report {
    pub prop: String,
    pub level: String,
    pub tier: String,
    pub seed: u64,
    pub cov: Map<String, Value>,
    pub assumptions: Vec<String>,
    pub agg: Agg,
    pub t0: Instant,
}

impl Report {
    pub fn new(prop: &str, level: &str, tier: &str, seed: u64) -> Self {
        Self {
            prop: prop.into(),
            level: level.into(),
            tier: tier.into(),
            seed,
            cov: Map::new(),
            assumptions: vec![],
            agg: Agg::default(),
            t0: Instant::now(),
        }
    }
    pub fn set(&mut self, k: &str, v: Value) {
        self.cov.insert(k.into(), v);
    }
    pub fn assume(&mut self, s: &str) {
        self.assumptions.push(s.into());
    }
    pub fn thorough(&self) -> bool {
        self.tier == "thorough"
    }
    pub fn to_json(&self) -> Value {
        let mut cov = self.cov.clone();
        for (k, v) in &self.agg.counters {
            cov.entry(k.clone()).or_insert(json!(v));
        }
        for (k, v) in &self.agg.distinct {
            cov.entry(format!("distinct_{k}")).or_insert(json!(v.len()));
        }
        if !cov.contains_key("samples") {
            cov.insert("samples".into(), Value::Array(self.agg.samples.clone()));
        }
        if !self.agg.notes.is_empty() {
            cov.insert("notes".into(), json!(self.agg.notes));
        }
        let viols: Vec<Value> = self
            .agg
            .classes
            .iter()
            .map(|(k, v)| json!({"class": k, "count": v.count, "examples": v.examples}))
            .collect();
        json!({
            "property_id": self.prop,
            "level": self.level,
            "tier": self.tier,
            "seed": self.seed,
            "coverage": Value::Object(cov),
            "assumptions": self.assumptions,
            "violation_classes": viols,
            "wall_s": self.t0.elapsed().as_secs_f64(),
        })
    }
    pub fn finish(&self, out: &std::path::Path) {
        let v = self.to_json();
        std::fs::write(out, serde_json::to_vec_pretty(&v).unwrap()).expect("write result");
    }
}

/// Run `f(shard)` for shard in 0..n on up to `threads` OS threads and merge the aggregators.
pub fn par_shards<F>(n: usize, threads: usize, f: F) -> Agg
where
    F: Fn(usize) -> Agg + Sync,
{
    use std::sync::atomic::{AtomicUsize, Ordering};
    let next = AtomicUsize::new(0);
    let mut total = Agg::default();
    let results: Vec<Agg> = std::thread::scope(|s| {
        let hs: Vec<_> = (0..threads.max(1).min(n.max(1)))
            .map(|_| {
                s.spawn(|| {
                    let mut a = Agg::default();
                    loop {
                        let i = next.fetch_add(1, Ordering::SeqCst);
                        if i >= n {
                            break;
                        }
                        a.merge(f(i));
                    }
                    a
                })
            })
            .collect();
        hs.into_iter()
            .map(|h| match h.join() {
                Ok(a) => a,
                Err(e) => {
                    eprintln!("MACHINERY-ERROR shard thread panicked: {:?}", e.downcast_ref::<String>());
                    std::process::exit(2);
                }
            })
            .collect()
    });
    for r in results {
        total.merge(r);
    }
    total
}

pub fn fnv(data: &[u8]) -> u64 {
    let mut h: u64 = 0xcbf29ce484222325;
    for &b in data {
        h ^= b as u64;
        h = h.wrapping_mul(0x100000001b3);
    }
    h
}

pub fn hex(b: &[u8]) -> String {
    b.iter().map(|x| format!("{:02x}", x)).collect()
}
pub fn unhex(s: &str) -> Vec<u8> {
    (0..s.len() / 2)
        .map(|i| u8::from_str_radix(&s[2 * i..2 * i + 2], 16).unwrap())
        .collect()
}

pub fn threads() -> usize {
    std::env::var("VERIF_THREADS")
        .ok()
        .and_then(|s| s.parse().ok())
        .unwrap_or_else(|| std::thread::available_parallelism().map(|n| n.get()).unwrap_or(4))
}

thread_local! { static LAST_PANIC: std::cell::RefCell<String> = const { std::cell::RefCell::new(String::new()) }; }

/// Install a quiet panic hook that remembers the message and location per thread.
pub fn install_panic_hook() {
    std::panic::set_hook(Box::new(|info| {
        let msg = if let Some(s) = info.payload().downcast_ref::<&str>() {
            s.to_string()
        } else if let Some(s) = info.payload().downcast_ref::<String>() {
            s.clone()
        } else {
            "panic".to_string()
        };
        let loc = info.location().map(|l| format!("{}:{}", l.file(), l.line())).unwrap_or_default();
        LAST_PANIC.with(|p| *p.borrow_mut() = format!("panic at {loc}: {msg}"));
    }));
}

/// Run subject code, turning a panic into Err("panic at file:line: msg").
pub fn catch<R>(f: impl FnOnce() -> R) -> Result<R, String> {
    match std::panic::catch_unwind(std::panic::AssertUnwindSafe(f)) {
        Ok(r) => Ok(r),
        Err(_) => Err(LAST_PANIC.with(|p| p.borrow().clone())),
    }
}

/// "panic at /repo/bitar/src/chunk_index.rs:211: ..." -> "bitar/src/chunk_index.rs:211"
pub fn panic_site(msg: &str) -> String {
    let s = msg.strip_prefix("panic at ").unwrap_or(msg);
    let loc = s.split(": ").next().unwrap_or("");
    loc.trim_start_matches("/repo/").to_string()
}
