//! C10 — chunk boundaries resynchronise after differing prefixes.
//! Exhaustive enumeration of (P1, P2, S) over small alphabets; oracle is the statement itself.
use crate::c09::CLASS_F5;
use crate::refchunk::*;
use crate::rep::*;
use serde_json::json;

fn cfgs(thorough: bool) -> Vec<Cfg> {
    let mut v = vec![];
    for algo in [Algo::Roll, Algo::Buz] {
        for w in [1usize, 2, 3, 4] {
            for min in [0usize, w.saturating_sub(1), w, w + 2, 2 * w + 2] {
                for max in [8usize, 12] {
                    for bits in if thorough { vec![1u32, 2, 3] } else { vec![1u32, 2] } {
                        let c = Cfg::new(algo, w, min, max, bits);
                        if c.valid() && !v.contains(&c) {
                            v.push(c);
                        }
                    }
                }
            }
        }
    }
    for n in [2usize, 3] {
        v.push(Cfg::fixed(n));
    }
    v
}

fn prefixes(alpha: &[u8], maxlen: usize) -> Vec<Vec<u8>> {
    let mut v = vec![vec![]];
    for n in 1..=maxlen {
        for i in 0..count_strings(alpha, n) {
            v.push(nth_string(alpha, n, i));
        }
    }
    v
}

/// Boundaries (in S coordinates, > 0) of a chunking of P+S.
fn s_bounds(cuts: &[usize], plen: usize) -> Vec<usize> {
    cuts.iter().filter(|&&c| c > plen).map(|&c| c - plen).collect()
}

/// The statement: if both place a boundary at the same S-position q >= w (q < |S|), then all later
/// boundaries coincide. Returns Some(q) of the first common boundary when violated.
fn violates(w: usize, slen: usize, a: &[usize], b: &[usize]) -> Option<usize> {
    let q = a.iter().copied().find(|&q| q >= w && q < slen && b.contains(&q))?;
    let ta: Vec<usize> = a.iter().copied().filter(|&x| x > q).collect();
    let tb: Vec<usize> = b.iter().copied().filter(|&x| x > q).collect();
    if ta != tb {
        Some(q)
    } else {
        None
    }
}

fn check_pair(c: &Cfg, bc: &bitar::chunker::Config, p1: &[u8], p2: &[u8], s: &[u8], cuts1: &[usize], agg: &mut Agg) {
    check_pair_reads(c, bc, p1, p2, s, cuts1, 0, agg)
}

/// `read_size` > 0: the second stream is delivered that many bytes per read (with Pending
/// results in between); the statement quantifies over streams, however they are read.
fn check_pair_reads(c: &Cfg, bc: &bitar::chunker::Config, p1: &[u8], p2: &[u8], s: &[u8], cuts1: &[usize], read_size: usize, agg: &mut Agg) {
    let mut d2 = p2.to_vec();
    d2.extend_from_slice(s);
    let cuts2 = if read_size == 0 {
        match real_cuts(bc, &d2) {
            Ok(x) => x,
            Err(_) => return,
        }
    } else {
        agg.add("pairs_with_fragmented_reads", 1);
        match crate::c09::cuts_with_reads(c, &d2, read_size) {
            Ok(x) => x,
            Err(_) => return,
        }
    };
    let a = s_bounds(cuts1, p1.len());
    let b = s_bounds(&cuts2, p2.len());
    agg.add("pairs", 1);
    // for FixedSize the statement applies to aligned cases only (a common boundary exists only then)
    let w = if c.algo == Algo::Fixed { 1 } else { c.w };
    let common = a.iter().any(|&q| q >= w && q < s.len() && b.contains(&q));
    if common {
        agg.add("pairs_with_common_boundary", 1);
        if a != b {
            agg.add("pairs_common_boundary_and_differing_earlier", 1);
        }
    }
    if let Some(q) = violates(w, s.len(), &a, &b) {
        // classify: explained by F5 iff the quirk-free reference satisfies the statement on this
        // triple and the real chunkings are reproduced by the quirk variant with a bad skip.
        let mut class = "resync-failure";
        if c.algo == Algo::Buz {
            let mut d1 = p1.to_vec();
            d1.extend_from_slice(s);
            let r1 = s_bounds(&ref_cuts(c, &d1), p1.len());
            let r2 = s_bounds(&ref_cuts(c, &d2), p2.len());
            let ref_ok = violates(w, s.len(), &r1, &r2).is_none();
            let (q1, bad1) = quirk_cuts(c, &d1);
            let (q2, bad2) = quirk_cuts(c, &d2);
            if ref_ok && q1 == cuts1 && q2 == cuts2 && (bad1 || bad2) {
                class = CLASS_F5;
            }
        }
        agg.viol(class, || json!({"cfg": c.json(), "p1": hex(p1), "p2": hex(p2), "s": hex(s), "common_boundary": q, "bounds1": a, "bounds2": b}));
    }
}

pub fn run(rep: &mut Report) {
    let thorough = rep.thorough();
    let cfgs = cfgs(thorough);
    let slen = if thorough { 16 } else { 13 };
    let palpha: Vec<u8> = vec![0x00, 0x07];
    let pre = prefixes(&palpha, 3);
    // quick: P1 = empty, every P2; thorough: every unordered pair
    let pairs: Vec<(usize, usize)> = if thorough {
        (0..pre.len()).flat_map(|i| (i + 1..pre.len()).map(move |j| (i, j))).collect()
    } else {
        (1..pre.len()).map(|j| (0, j)).collect()
    };
    let salphas: Vec<Vec<u8>> = vec![vec![0x00, 0x01], vec![b'a', b'b']];
    rep.set("configurations", json!(cfgs.len()));
    rep.set("suffix_len", json!(slen));
    rep.set("prefix_pairs", json!(pairs.len()));
    rep.set("suffix_alphabets", json!(salphas));
    let (cfgs_ref, pre_ref, pairs_ref, sal_ref) = (&cfgs, &pre, &pairs, &salphas);
    let a = par_shards(cfgs.len() * 2, threads(), |k| {
        let c = &cfgs_ref[k / 2];
        let salpha = &sal_ref[k % 2];
        let bc = c.to_bitar();
        let mut agg = Agg::default();
        let cnt = count_strings(salpha, slen);
        for idx in 0..cnt {
            let s = nth_string(salpha, slen, idx);
            // cache chunkings of P1+S for each distinct P1
            let mut cache: Vec<Option<Vec<usize>>> = vec![None; pre_ref.len()];
            for &(i, j) in pairs_ref.iter() {
                if cache[i].is_none() {
                    let mut d1 = pre_ref[i].clone();
                    d1.extend_from_slice(&s);
                    cache[i] = real_cuts(&bc, &d1).ok();
                }
                if let Some(c1) = cache[i].clone() {
                    check_pair(c, &bc, &pre_ref[i], &pre_ref[j], &s, &c1, &mut agg);
                    // a deterministic slice of the triples with the second stream read 1 or 3 bytes at a time
                    if (idx as usize + j) % 16 == 0 {
                        check_pair_reads(c, &bc, &pre_ref[i], &pre_ref[j], &s, &c1, 1 + 2 * ((idx as usize / 16) % 2), &mut agg);
                    }
                }
            }
            if k == 5 && idx % 1571 == 3 {
                agg.sample(|| json!({"cfg": c.label(), "s": hex(&s), "p1": "", "p2": hex(&pre_ref[pairs_ref[0].1])}));
            }
        }
        agg
    });
    rep.agg.merge(a);
    // ---- large windows: the 32-bit sums of the rolling hashes wrap around (RollSum from w ~ 4100), so a
    // hash that is not a function of the window alone only shows here. A small fixed family, all pairs.
    {
        let mut x: u32 = 977;
        let mut rnd = move || {
            x ^= x << 13;
            x ^= x >> 17;
            x ^= x << 5;
            (x >> 8) as u8
        };
        let pres: Vec<Vec<u8>> = vec![vec![], vec![0u8; 129], vec![0xff; 9000], (0..20_000).map(|_| rnd()).collect(), vec![0xff; 40_000]];
        let sufs: Vec<Vec<u8>> = vec![
            (0..70_000).map(|i| if (i / 6100) % 3 == 2 { 0 } else { rnd() }).collect(),
            (0..70_000).map(|i| if (i / 9000) % 2 == 1 { 0xff } else { rnd() }).collect(),
            (0..70_000).map(|_| rnd()).collect(),
        ];
        let mut big = vec![];
        for w in [4200usize, 6000, 16384] {
            for algo in [Algo::Roll, Algo::Buz] {
                big.push(Cfg::new(algo, w, 0, 16384.max(w), 9));
                big.push(Cfg::new(algo, w, w + 1, 3 * w, 11));
            }
        }
        let (pres_ref, sufs_ref, big_ref) = (&pres, &sufs, &big);
        let b = par_shards(big.len() * sufs.len(), threads(), |k| {
            let c = &big_ref[k / sufs_ref.len()];
            let s = &sufs_ref[k % sufs_ref.len()];
            let bc = c.to_bitar();
            let mut agg = Agg::default();
            for i in 0..pres_ref.len() {
                let mut d1 = pres_ref[i].clone();
                d1.extend_from_slice(s);
                let c1 = match real_cuts(&bc, &d1) {
                    Ok(x) => x,
                    Err(_) => continue,
                };
                for j in i + 1..pres_ref.len() {
                    agg.add("large_window_pairs", 1);
                    check_pair(c, &bc, &pres_ref[i], &pres_ref[j], s, &c1, &mut agg);
                }
            }
            agg
        });
        rep.agg.merge(b);
    }
    // ---- large chunks: chunks of 0.3 - 2 MiB (more than any per-call scan budget or read size), streams of 5 MiB,
    // the second stream delivered whole and in 64 KiB reads
    {
        let mut x: u32 = 4242;
        let mut rnd = move || {
            x ^= x << 13;
            x ^= x >> 17;
            x ^= x << 5;
            (x >> 8) as u8
        };
        let suf: Vec<u8> = (0..5_000_000).map(|_| rnd()).collect();
        let pres: Vec<Vec<u8>> = vec![vec![], (0..3001).map(|_| rnd()).collect(), vec![0u8; 700_001]];
        let mut agg = Agg::default();
        for algo in [Algo::Roll, Algo::Buz] {
            let c = Cfg::new(algo, 64, 300_000, 2 << 20, 19);
            let bc = c.to_bitar();
            for i in 0..pres.len() {
                let mut d1 = pres[i].clone();
                d1.extend_from_slice(&suf);
                let c1 = match real_cuts(&bc, &d1) {
                    Ok(x) => x,
                    Err(e) => {
                        agg.viol("chunker-failed", || json!({"cfg": c.json(), "error": format!("{e:?}")}));
                        continue;
                    }
                };
                for j in 0..pres.len() {
                    if i == j {
                        continue;
                    }
                    agg.add("large_chunk_pairs", 1);
                    check_pair_reads(&c, &bc, &pres[i], &pres[j], &suf, &c1, if j > i { 0 } else { 65_536 }, &mut agg);
                }
            }
        }
        // replay files embed the streams: keep one example per class small enough to be useful
        for c in agg.classes.values_mut() {
            for e in c.examples.iter_mut() {
                e["s"] = json!("(5 MB pseudo-random suffix, xorshift seed 4242: not embedded)");
                e["p1"] = json!(format!("({} bytes)", e["p1"].as_str().map_or(0, |h| h.len() / 2)));
                e["p2"] = json!(format!("({} bytes)", e["p2"].as_str().map_or(0, |h| h.len() / 2)));
                e["large_chunk_family"] = json!(true);
            }
        }
        rep.agg.merge(agg);
    }
    let pairs_n = rep.agg.get("pairs");
    rep.set("evaluations", json!(pairs_n));
    rep.set("distinct_nontrivial", json!(rep.agg.get("pairs_common_boundary_and_differing_earlier")));
    rep.set("exhaustive", json!(true));
    rep.set("rule", json!("all (P1,P2,S): P over {00,07}^<=3, S all strings of suffix_len over each suffix alphabet, all grid configurations, single-read delivery plus a 1-in-16 slice with the second stream delivered 1 or 3 bytes per read with Pending results in between; plus a fixed family with windows 4200 / 6000 / 16384 (32-bit hash sums wrap around), 5 prefixes (empty, zeros, 0xff runs, pseudo-random) x 3 suffixes of 70 kB, all prefix pairs; and a family with chunks of 0.3 - 2 MiB (window 64, minimum 300 kB, 19 filter bits, maximum 2 MiB) on a 5 MB suffix behind {nothing, 3001 random bytes, 700 001 zeros}, every ordered prefix pair, the second stream delivered whole or in 64 KiB reads; a case is non-trivial when both chunkings share a boundary at an S-position >= window and their boundary sets before it differ (the premise of the statement holds and resynchronisation is actually exercised)"));
    rep.assume("prefixes up to 3 bytes and suffixes of one fixed small length; windows 1..4");
}

pub fn replay(v: &serde_json::Value) -> bool {
    if v["large_chunk_family"].as_bool() == Some(true) {
        println!("replay: a case of the large-chunk family (streams of 5 MB are not embedded): re-run the check");
        return true;
    }
    let c = Cfg::from_json(&v["cfg"]);
    let bc = c.to_bitar();
    let (p1, p2, s) = (unhex(v["p1"].as_str().unwrap()), unhex(v["p2"].as_str().unwrap()), unhex(v["s"].as_str().unwrap()));
    let mut d1 = p1.clone();
    d1.extend_from_slice(&s);
    let c1 = real_cuts(&bc, &d1).unwrap();
    let mut agg = Agg::default();
    check_pair(&c, &bc, &p1, &p2, &s, &c1, &mut agg);
    for (k, v) in &agg.classes {
        println!("replay: class={} example={}", k, v.examples[0]);
    }
    !agg.classes.is_empty()
}
