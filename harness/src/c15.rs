//! C15 — untrusted archives and servers yield success or a reported error: never a panic, an
//! abort, a hang or an allocation beyond what the format declares for a chunk.
//! (i) every single-bit flip and truncation of small valid archives; (ii) structurally valid
//! headers with a re-computed checksum (independent encoder) whose fields are set to every value of
//! an adversarial alphabet, singly (quick) and in all pairs (thorough); (iii) misbehaving servers.
//! Every case runs in an isolated worker (address-space limit, watchdog, chunk horizons).
use crate::c04;
use crate::clonelab::*;
use crate::codec;
use crate::httpd::{Fault as HF, Script};
use crate::memdev::MemDev;
use crate::netchecks::HttpLab;
use crate::rep::*;
use crate::sched::scratch_dir;
use bitar::archive_reader::{ArchiveReader, IoReader};
use bitar::{Archive, ChunkIndex, CloneOutput};
use futures_util::StreamExt;
use serde_json::{json, Value};
use std::io::Cursor;

fn machinery(e: String) -> ! {
    eprintln!("MACHINERY-ERROR {e}");
    std::process::exit(2)
}

pub const CHUNK_HORIZON: usize = 100_000;

// ------------------------------------------------------------------ field mutations

#[derive(Clone, Debug, PartialEq)]
pub enum Field {
    FilterBits,
    Min,
    Max,
    Window,
    HashLen,
    Algo,
    CompType,
    CompLevel,
    TotalSize,
    SrcChecksumLen,
    RebuildAt(usize),
    RebuildTruncate,
    RebuildAppend,
    DescChecksumLen(usize),
    DescArchiveSize(usize),
    DescArchiveOffset(usize),
    DescSourceSize(usize),
    DropParams,
    DropCompression,
    DropDescs,
    DupDesc,
    /// n descriptors stored back to back from offset 0, each declaring `value` archive bytes
    AdjacentRun(usize),
    ChunkDataOffset,
    LongVersion,
    /// metadata key number `value` of an adversarial list (long, non-ASCII around every cut a display layer might make, control characters, empty)
    MetaKey,
}

#[derive(Clone, Debug, PartialEq)]
pub struct Mutn {
    pub field: Field,
    pub value: u64,
}

fn u32_alphabet() -> Vec<u64> {
    vec![0, 1, 2, 33, (1 << 31) - 1, 1 << 31, u32::MAX as u64 - 1, u32::MAX as u64]
}
fn u64_alphabet() -> Vec<u64> {
    vec![0, 1, 2, 1 << 31, u32::MAX as u64, 1 << 32, 1 << 63, u64::MAX - 1, u64::MAX]
}

/// `huge`: include declared chunk sizes >= 2^31 (a reader legitimately allocates and zero-fills
/// that much per chunk: seconds per case, so singles of the thorough tier only).
pub fn single_mutations(ndesc: usize, nrebuild: usize, huge: bool) -> Vec<Mutn> {
    let mut v = vec![];
    let mut add = |f: Field, vals: Vec<u64>| {
        for x in vals {
            v.push(Mutn { field: f.clone(), value: x });
        }
    };
    add(Field::FilterBits, vec![0, 1, 24, 31, 32, 33, 64, 1 << 31, u32::MAX as u64]);
    add(Field::Min, u32_alphabet());
    add(Field::Max, u32_alphabet());
    add(Field::Window, u32_alphabet());
    add(Field::HashLen, vec![0, 1, 3, 63, 64, 65, 1 << 31, u32::MAX as u64]);
    add(Field::Algo, vec![0, 1, 2, 3, 4, 1 << 31, u32::MAX as u64]);
    add(Field::CompType, vec![0, 1, 2, 3, 4, 1 << 31, u32::MAX as u64]);
    add(Field::CompLevel, vec![0, 1, 12, 1 << 31, u32::MAX as u64]);
    add(Field::TotalSize, u64_alphabet());
    add(Field::SrcChecksumLen, vec![0, 1, 63, 65, 200]);
    for i in [0usize, nrebuild.saturating_sub(1)] {
        add(Field::RebuildAt(i), vec![0, ndesc.saturating_sub(1) as u64, ndesc as u64, ndesc as u64 + 1, 1 << 31, u32::MAX as u64]);
    }
    add(Field::RebuildTruncate, vec![0, 1]);
    add(Field::RebuildAppend, vec![0, ndesc as u64, u32::MAX as u64]);
    for i in [0usize, ndesc.saturating_sub(1)] {
        add(Field::DescChecksumLen(i), vec![0, 1, 63, 65]);
        let mut sizes: Vec<u64> = vec![0, 1, 2, 33, 1 << 20, 1 << 28];
        if huge && i == 0 {
            sizes.extend([(1u64 << 31) - 1, 1 << 31, u32::MAX as u64]);
        }
        add(Field::DescArchiveSize(i), sizes.clone());
        add(Field::DescArchiveOffset(i), u64_alphabet());
        add(Field::DescSourceSize(i), sizes);
    }
    add(Field::DropParams, vec![0]);
    add(Field::DropCompression, vec![0]);
    add(Field::DropDescs, vec![0]);
    add(Field::DupDesc, vec![0]);
    // a run of adjacent chunks whose declared sizes add up to far more than any one chunk may declare
    add(Field::AdjacentRun(64), vec![1 << 28]);
    if huge {
        add(Field::AdjacentRun(3), vec![u32::MAX as u64]);
    }
    add(Field::ChunkDataOffset, u64_alphabet());
    add(Field::LongVersion, vec![100_000]);
    add(Field::MetaKey, (0..meta_keys().len() as u64).collect());
    v
}

/// Adversarial metadata keys: a multi-byte character straddling every byte position 1..=80 (wherever
/// a display layer might cut), long keys, control and format characters, the empty key.
pub fn meta_keys() -> Vec<String> {
    let mut v: Vec<String> = vec![String::new(), "k".repeat(100_000), "\u{0}\n\r\t\u{1b}[31m".into(), "{}{:?}%s%n".into(), "\u{202e}\u{feff}".into()];
    for n in 0..80usize {
        v.push(format!("{}\u{e9}\u{4e16}\u{1f600}{}", "a".repeat(n), "z".repeat(40)));
    }
    v
}

pub fn apply_mutn(d: &mut codec::Dict, cdo: &mut Option<u64>, m: &Mutn) {
    let v = m.value;
    let p = |d: &mut codec::Dict| {
        if d.chunker_params.is_none() {
            d.chunker_params = Some(Default::default());
        }
    };
    match &m.field {
        Field::FilterBits => {
            p(d);
            d.chunker_params.as_mut().unwrap().chunk_filter_bits = v as u32
        }
        Field::Min => {
            p(d);
            d.chunker_params.as_mut().unwrap().min_chunk_size = v as u32
        }
        Field::Max => {
            p(d);
            d.chunker_params.as_mut().unwrap().max_chunk_size = v as u32
        }
        Field::Window => {
            p(d);
            d.chunker_params.as_mut().unwrap().rolling_hash_window_size = v as u32
        }
        Field::HashLen => {
            p(d);
            d.chunker_params.as_mut().unwrap().chunk_hash_length = v as u32
        }
        Field::Algo => {
            p(d);
            d.chunker_params.as_mut().unwrap().chunking_algorithm = v as u32
        }
        Field::CompType => {
            if let Some(c) = d.chunk_compression.as_mut() {
                c.compression = v as u32
            }
        }
        Field::CompLevel => {
            if let Some(c) = d.chunk_compression.as_mut() {
                c.compression_level = v as u32
            }
        }
        Field::TotalSize => d.source_total_size = v,
        Field::SrcChecksumLen => d.source_checksum.resize(v as usize, 0xAA),
        Field::RebuildAt(i) => {
            if let Some(x) = d.rebuild_order.get_mut(*i) {
                *x = v as u32
            }
        }
        Field::RebuildTruncate => d.rebuild_order.truncate(v as usize),
        Field::RebuildAppend => d.rebuild_order.push(v as u32),
        Field::DescChecksumLen(i) => {
            if let Some(x) = d.chunk_descriptors.get_mut(*i) {
                x.checksum.resize(v as usize, 0xBB)
            }
        }
        Field::DescArchiveSize(i) => {
            if let Some(x) = d.chunk_descriptors.get_mut(*i) {
                x.archive_size = v as u32
            }
        }
        Field::DescArchiveOffset(i) => {
            if let Some(x) = d.chunk_descriptors.get_mut(*i) {
                x.archive_offset = v
            }
        }
        Field::DescSourceSize(i) => {
            if let Some(x) = d.chunk_descriptors.get_mut(*i) {
                x.source_size = v as u32
            }
        }
        Field::DropParams => d.chunker_params = None,
        Field::DropCompression => d.chunk_compression = None,
        Field::DropDescs => d.chunk_descriptors.clear(),
        Field::DupDesc => {
            if let Some(x) = d.chunk_descriptors.first().cloned() {
                d.chunk_descriptors.push(x)
            }
        }
        Field::AdjacentRun(n) => {
            if let Some(x) = d.chunk_descriptors.first().cloned() {
                while d.chunk_descriptors.len() < *n {
                    d.chunk_descriptors.push(x.clone());
                }
                let mut off = 0u64;
                for c in d.chunk_descriptors.iter_mut() {
                    c.archive_offset = off;
                    c.archive_size = v as u32;
                    off += v;
                }
            }
        }
        Field::ChunkDataOffset => *cdo = Some(v),
        Field::LongVersion => d.application_version = "v".repeat(v as usize),
        Field::MetaKey => d.metadata = vec![(meta_keys()[v as usize].clone(), b"value".to_vec())],
    }
}

fn value_class(v: u64) -> String {
    match v {
        0 => "0".into(),
        1 => "1".into(),
        x if x == u32::MAX as u64 => "2^32-1".into(),
        x if x == u32::MAX as u64 - 1 => "2^32-2".into(),
        x if x == 1 << 31 => "2^31".into(),
        x if x == (1 << 31) - 1 => "2^31-1".into(),
        x if x == 1 << 32 => "2^32".into(),
        x if x == 1 << 63 => "2^63".into(),
        x if x == u64::MAX => "2^64-1".into(),
        x if x == u64::MAX - 1 => "2^64-2".into(),
        x => x.to_string(),
    }
}

pub fn mutn_label(m: &Mutn) -> String {
    format!("{:?}={}", m.field, value_class(m.value))
}

// ------------------------------------------------------------------ bases

pub struct HBase {
    pub name: String,
    pub source: Vec<u8>,
    pub built: codec::Built,
    pub payload: Vec<u8>,
}

pub fn hbases() -> Vec<HBase> {
    let mut v = hbases_all();
    v.truncate(3);
    v
}

pub fn hbases_all() -> Vec<HBase> {
    let mut v = vec![];
    let chunks: Vec<Vec<u8>> = vec![b"AAAAAAAA".to_vec(), b"BBBBBB".to_vec(), b"CCCCCCCCCC".to_vec()];
    let order = [0usize, 1, 0, 2];
    let mut source = vec![];
    let mut cuts = vec![];
    for &i in &order {
        source.extend_from_slice(&chunks[i]);
        cuts.push(source.len());
    }
    // the last base stores its chunks with a gap after each: every chunk is a range request of its own, so a
    // misbehaving response is FOLLOWED by further requests (state carried from one run of chunks to the next)
    for (name, algo, comp) in [("rollsum-none", 1u32, 0u32), ("buzhash-brotli", 0, 3), ("fixed-none", 2, 0), ("rollsum-none-gapped", 1, 0)] {
        let params = codec::Params { chunk_filter_bits: 2, min_chunk_size: 4, max_chunk_size: 16, rolling_hash_window_size: 4, chunk_hash_length: 64, chunking_algorithm: algo };
        let recipe = codec::Recipe {
            enc: Default::default(),
            slack: 0,
            order: vec![],
            gaps: if name.ends_with("gapped") { vec![1, 1, 1] } else { vec![] },
            raw: vec![false; 3],
            force_compressed: vec![],
            hash_len: 64,
            params,
            comp: codec::Comp { compression: comp, compression_level: if comp == 0 { 0 } else { 5 } },
            metadata: vec![("k".into(), b"v".to_vec())],
            app_version: "0.13.0".into(),
            pad_byte: 0,
        };
        let built = codec::build_archive(&source, &cuts, &recipe).unwrap_or_else(|e| machinery(e));
        let payload = built.bytes[built.header_len..].to_vec();
        v.push(HBase { name: name.into(), source: source.clone(), built, payload });
    }
    v
}

pub fn mutated_archive(b: &HBase, muts: &[Mutn]) -> Vec<u8> {
    let mut d = b.built.dict.clone();
    let mut cdo: Option<u64> = None;
    for m in muts {
        apply_mutn(&mut d, &mut cdo, m);
    }
    // chunk data offset: by default wherever the (possibly longer) header ends
    let mut enc = codec::EncOpts::default();
    enc.chunk_data_offset = cdo;
    let mut bytes = codec::encode_header(&d, &enc);
    bytes.extend_from_slice(&b.payload);
    bytes
}

// ------------------------------------------------------------------ operations under test

#[derive(Clone, Copy, Debug, PartialEq)]
pub enum OpKind {
    OpenInfo,
    Clone,
    CloneSeed,
    CloneInPlace,
}
pub const OPS: [OpKind; 4] = [OpKind::OpenInfo, OpKind::Clone, OpKind::CloneSeed, OpKind::CloneInPlace];

/// Everything the CLI does with an archive, on in-memory devices, with horizons on every stream.
async fn exercise<R: ArchiveReader>(reader: R, op: OpKind) -> Result<(), String>
where
    R::Error: std::error::Error,
{
    let mut archive = Archive::try_init(reader).await.map_err(|e| format!("try_init: {e}"))?;
    // what `bita info` / every clone prints and computes
    crate::info_cmd::print_archive(&archive);
    let _ = (archive.total_chunks(), archive.unique_chunks(), archive.compressed_size(), archive.iter_source_chunks().count());
    if op == OpKind::OpenInfo {
        return Ok(());
    }
    let clone_index = archive.build_source_index();
    let config = archive.chunker_config().clone();
    let hash_len = archive.chunk_hash_length();
    let prior: Vec<u8> = if op == OpKind::CloneInPlace { (0..64u8).map(|i| b'A' + (i / 8) % 3).collect() } else { vec![] };
    let mut out = MemDev::new(prior.clone());
    // a file may be written at any offset (sparse); the model device keeps only the first 1 MiB
    out.sparse_limit = Some(1 << 20);
    let handle = out.handle();
    let output_index = if op == OpKind::CloneInPlace {
        let mut idx = ChunkIndex::new_empty(hash_len);
        let mut st = config.new_chunker(&mut out);
        let mut n = 0usize;
        while let Some(r) = st.next().await {
            let (offset, chunk) = r.map_err(|e| format!("scan output: {e}"))?;
            let (hash, chunk) = chunk.verify().into_parts();
            idx.add_chunk(hash, chunk.len(), &[offset]);
            n += 1;
            if n > prior.len() + 8 {
                return Err("HORIZON: endless chunk stream while scanning the output".into());
            }
        }
        drop(st);
        Some(idx)
    } else {
        None
    };
    let mut output = CloneOutput::new(out, clone_index);
    if let Some(idx) = output_index {
        output.reorder_in_place(idx).await.map_err(|e| format!("reorder: {e}"))?;
    }
    if op == OpKind::CloneSeed {
        let seed: Vec<u8> = (0..96u8).map(|i| i % 7).collect();
        let mut st = config.new_chunker(&seed[..]);
        let mut n = 0usize;
        while let Some(r) = st.next().await {
            let (_o, chunk) = r.map_err(|e| format!("seed: {e}"))?;
            output.feed(&chunk.verify()).await.map_err(|e| format!("feed seed: {e}"))?;
            n += 1;
            if n > seed.len() + 8 {
                return Err("HORIZON: endless chunk stream while scanning a seed".into());
            }
        }
    }
    {
        let mut stream = archive.chunk_stream(output.chunks());
        let mut n = 0usize;
        while let Some(r) = stream.next().await {
            let cc = r.map_err(|e| format!("read archive: {e}"))?;
            let v = cc.decompress().map_err(|e| format!("decompress: {e}"))?.verify().map_err(|e| format!("verify: {e}"))?;
            output.feed(&v).await.map_err(|e| format!("feed: {e}"))?;
            n += 1;
            if n > CHUNK_HORIZON {
                return Err("HORIZON: endless archive chunk stream".into());
            }
        }
    }
    // the CLI resizes a regular file to the recorded size (ftruncate: no allocation); the model
    // device only notes it
    let _ = (handle, archive.total_source_size());
    Ok(())
}

fn msg_kind(msg: &str) -> String {
    // "panic at file:line: message" -> message with digits removed
    let m = msg.splitn(2, ": ").nth(1).unwrap_or(msg);
    let m: String = m.chars().filter(|c| !c.is_ascii_digit()).collect();
    let m = m.replace("  ", " ");
    m.chars().take(70).collect::<String>().trim().replace(' ', "-")
}

fn panic_class(p: &str) -> String {
    let site = panic_site(p);
    let mut file = site.rsplitn(2, ':').last().unwrap_or(&site).to_string();
    if let Some(i) = file.find("/library/") {
        file = format!("std{}", &file[i + 8..]); // toolchain paths carry a commit hash
    }
    format!("panic@{}:{}", file, msg_kind(p))
}

/// The real clone_cmd on a file holding `bytes`, with `seed` as --seed (inside an isolated worker).
pub fn judge_cli(bytes: &[u8], seed: &[u8], agg: &mut Agg, detail: &dyn Fn() -> Value) {
    let dir = scratch_dir("c15cli");
    let (apath, spath, out) = (dir.path().join("a.cba"), dir.path().join("seed.bin"), dir.path().join("out.bin"));
    std::fs::write(&apath, bytes).unwrap();
    std::fs::write(&spath, seed).unwrap();
    let rt = tokio::runtime::Builder::new_current_thread().enable_all().build().unwrap();
    agg.add("operations", 1);
    agg.add("cli_operations", 1);
    crate::isolate::case_tick();
    let args = c04::cli_clone_args(apath.to_str().unwrap(), &out, &["--seed".to_string(), spath.to_str().unwrap().to_string()]);
    match c04::cli_clone(&rt, args) {
        Err(p) => agg.viol(&panic_class(&p), || {
            let mut j = detail();
            j["panic"] = json!(p);
            j
        }),
        Ok(Ok(())) => agg.add("ended_in_success", 1),
        Ok(Err(_)) => agg.add("ended_in_reported_error", 1),
    }
}

/// Run one operation on one byte string, in-process (inside an isolated worker).
pub fn judge_bytes(bytes: &[u8], op: OpKind, agg: &mut Agg, detail: &dyn Fn() -> Value) {
    let reader = IoReader::new(Cursor::new(bytes.to_vec()));
    agg.add("operations", 1);
    crate::isolate::case_tick();
    match catch(|| drive_ready(exercise(reader, op))) {
        Err(p) => agg.viol(&panic_class(&p), || {
            let mut j = detail();
            j["panic"] = json!(p);
            j["op"] = json!(format!("{:?}", op));
            j
        }),
        Ok(Err(e)) => machinery(e),
        Ok(Ok(Ok(()))) => agg.add("ended_in_success", 1),
        Ok(Ok(Err(e))) => {
            if e.starts_with("HORIZON") {
                agg.viol(&format!("unbounded-work:{}", e[9..].replace(' ', "-")), || {
                    let mut j = detail();
                    j["op"] = json!(format!("{:?}", op));
                    j
                });
            } else {
                agg.add("ended_in_reported_error", 1);
                agg.distinct("errors", fnv(e.split(':').next().unwrap_or("").as_bytes()));
            }
        }
    }
}

// ------------------------------------------------------------------ isolated job lists

pub struct IsoCtx {
    pub lab: std::cell::OnceCell<HttpLab>,
    pub thorough: bool,
    pub hb: Vec<HBase>,
    pub singles: Vec<Mutn>,
    pub singles_huge: Vec<Mutn>,
    /// (i) corruption jobs from C04's bases
    pub c04: c04::IsoCtx,
    pub n_single: usize,
    pub n_pair: usize,
    pub n_corrupt: usize,
    /// (ii-b) every dictionary byte x {bit flips, 00, 01, 7f, 80, ff} under a re-computed checksum
    pub n_dictbyte: usize,
}

pub const DICT_BYTE_VARIANTS: usize = 13;

/// The k-th byte-level variant of dictionary byte `b`: 8 bit flips, then 5 fixed values.
fn dict_byte_variant(b: u8, k: usize) -> u8 {
    match k {
        0..=7 => b ^ (1 << k),
        8 => 0x00,
        9 => 0x01,
        10 => 0x7f,
        11 => 0x80,
        _ => 0xff,
    }
}

/// Header with one dictionary byte changed and the checksum re-computed (the size field is kept,
/// so the protobuf decoder sees a same-length but structurally different dictionary).
pub fn dict_byte_mutated(b: &HBase, pos: usize, k: usize) -> Option<Vec<u8>> {
    let hl = b.built.header_len;
    let mut bytes = b.built.bytes.clone();
    let dict_end = hl - 72;
    if 14 + pos >= dict_end {
        return None;
    }
    let nv = dict_byte_variant(bytes[14 + pos], k);
    if nv == bytes[14 + pos] {
        return None;
    }
    bytes[14 + pos] = nv;
    let sum = codec::blake2b512(&bytes[..hl - 64]);
    bytes[hl - 64..hl].copy_from_slice(&sum);
    Some(bytes)
}

impl IsoCtx {
    pub fn new(thorough: bool) -> IsoCtx {
        let hb = hbases();
        // job list: [singles incl. huge sizes (thorough)] [pairs over the singles without huge sizes] [(i) corruptions]
        let singles = single_mutations(3, 4, false);
        let singles_huge = single_mutations(3, 4, thorough);
        let c04 = c04::IsoCtx::new(false);
        let n_single = hb.len() * singles_huge.len();
        let n_pair = if thorough { hb.len() * singles.len() * (singles.len() - 1) / 2 } else { 0 };
        // (i): single-bit flips and truncations only
        let n_corrupt = c04.jobs.len();
        let n_dictbyte = hb.iter().map(|b| (b.built.header_len - 72 - 14) * DICT_BYTE_VARIANTS).sum();
        IsoCtx { lab: std::cell::OnceCell::new(), thorough, hb, singles, singles_huge, c04, n_single, n_pair, n_corrupt, n_dictbyte }
    }
    pub fn njobs(&self) -> usize {
        self.n_single + self.n_pair + self.n_corrupt + self.n_dictbyte
    }
    fn dictbyte_of(&self, mut k: usize) -> (usize, usize, usize) {
        for (bi, b) in self.hb.iter().enumerate() {
            let n = (b.built.header_len - 72 - 14) * DICT_BYTE_VARIANTS;
            if k < n {
                return (bi, k / DICT_BYTE_VARIANTS, k % DICT_BYTE_VARIANTS);
            }
            k -= n;
        }
        (0, 0, 0)
    }
    pub fn describe(&self, job: usize) -> String {
        if job < self.n_single {
            let b = &self.hb[job / self.singles_huge.len()];
            format!("{} {}", b.name, mutn_label(&self.singles_huge[job % self.singles_huge.len()]))
        } else if job < self.n_single + self.n_pair {
            let (bi, i, j) = self.pair_of(job - self.n_single);
            format!("{} {} + {}", self.hb[bi].name, mutn_label(&self.singles[i]), mutn_label(&self.singles[j]))
        } else if job < self.n_single + self.n_pair + self.n_corrupt {
            let (bi, m) = &self.c04.jobs[job - self.n_single - self.n_pair];
            format!("{} {:?}", self.c04.bases[*bi].name, m)
        } else {
            let (bi, pos, k) = self.dictbyte_of(job - self.n_single - self.n_pair - self.n_corrupt);
            format!("{} dictionary byte {} variant {}", self.hb[bi].name, pos, k)
        }
    }
    /// class of input for a process death (no panic site is available then)
    pub fn death_class(&self, job: usize) -> String {
        if job < self.n_single {
            let m = &self.singles_huge[job % self.singles_huge.len()];
            format!("{:?}", m.field).split('(').next().unwrap_or("").to_string()
        } else if job < self.n_single + self.n_pair {
            let (_bi, i, j) = self.pair_of(job - self.n_single);
            let a = format!("{:?}", self.singles[i].field).split('(').next().unwrap_or("").to_string();
            let b = format!("{:?}", self.singles[j].field).split('(').next().unwrap_or("").to_string();
            format!("{a}+{b}")
        } else if job >= self.n_single + self.n_pair + self.n_corrupt {
            "dictionary-byte".into()
        } else {
            let (bi, m) = &self.c04.jobs[job - self.n_single - self.n_pair];
            let hs = self.c04.bases[*bi].arch.header_size;
            match m {
                c04::Mutation::BitFlip(o, _) | c04::Mutation::Overwrite(o, _) if (6..14).contains(o) => "corrupted-dictionary-size".into(),
                c04::Mutation::BitFlip(o, _) | c04::Mutation::Overwrite(o, _) if *o < hs => "corrupted-header".into(),
                _ => "corrupted-payload-or-length".into(),
            }
        }
    }
    pub fn pair_of(&self, k: usize) -> (usize, usize, usize) {
        let n = self.singles.len();
        let per = n * (n - 1) / 2;
        let bi = k / per;
        let mut r = k % per;
        let mut i = 0;
        while r >= n - 1 - i {
            r -= n - 1 - i;
            i += 1;
        }
        (bi, i, i + 1 + r)
    }
    pub fn run_job(&self, job: usize, agg: &mut Agg) {
        if job < self.n_single {
            let b = &self.hb[job / self.singles_huge.len()];
            let m = &self.singles_huge[job % self.singles_huge.len()];
            let bytes = mutated_archive(b, std::slice::from_ref(m));
            agg.add("mutated_headers_single", 1);
            let endless_at_start = agg.classes.iter().filter(|(k, _)| k.starts_with("unbounded-work:endless-chunk-stream")).map(|(_, c)| c.count).sum::<u64>();
            for op in OPS {
                judge_bytes(&bytes, op, agg, &|| json!({"leg": "field-mutation", "base": b.name, "mutation": mutn_label(m), "archive": hex(&bytes[..bytes.len().min(900)])}));
            }
            // ... and through the real clone_cmd on files, with a seed that holds the archive's chunks (what the
            // command computes and prints around the library calls is part of what a hostile header reaches)
            // (not when the library operations on this very archive already ran into the endless chunk stream of
            // known finding F8.g: the command scans its seed with the same chunker and has no horizon)
            let endless_before = agg.classes.iter().filter(|(k, _)| k.starts_with("unbounded-work:endless-chunk-stream")).map(|(_, c)| c.count).sum::<u64>();
            if endless_before > endless_at_start {
                agg.add("cli_operations_skipped_endless_scan", 1);
            } else {
                judge_cli(&bytes, &b.source, agg, &|| json!({"leg": "field-mutation", "base": b.name, "mutation": mutn_label(m), "op": "clone_cmd --seed <source>", "archive": hex(&bytes[..bytes.len().min(900)])}));
            }
            // the same archive through the HTTP reader (its own run detection and buffering)
            let lab = self.lab.get_or_init(HttpLab::new);
            lab.server.arm(&bytes, Script { faults: vec![], splits: vec![], keep_alive: true });
            lab.pooled.set(true);
            let reader = lab.reader(0);
            agg.add("operations", 1);
            agg.add("http_operations", 1);
            crate::isolate::case_tick();
            let detail = || json!({"leg": "field-mutation", "base": b.name, "mutation": mutn_label(m), "op": "CloneHttp", "archive": hex(&bytes[..bytes.len().min(900)])});
            match catch(|| lab.rt.block_on(async { tokio::time::timeout(std::time::Duration::from_secs(15), exercise(reader, OpKind::Clone)).await })) {
                Err(p) => agg.viol(&panic_class(&p), || {
                    let mut j = detail();
                    j["panic"] = json!(p);
                    j
                }),
                Ok(Err(_)) => agg.viol("unbounded-work:http-clone-does-not-finish", detail),
                Ok(Ok(Ok(()))) => agg.add("ended_in_success", 1),
                Ok(Ok(Err(e))) if e.starts_with("HORIZON") => agg.viol(&format!("unbounded-work:{}", e[9..].replace(' ', "-")), detail),
                Ok(Ok(Err(_))) => agg.add("ended_in_reported_error", 1),
            }
            if job % 97 == 5 {
                agg.sample(|| json!({"leg": "field-mutation", "base": b.name, "mutation": mutn_label(m)}));
            }
        } else if job < self.n_single + self.n_pair {
            let (bi, i, j) = self.pair_of(job - self.n_single);
            let b = &self.hb[bi];
            let ms = [self.singles[i].clone(), self.singles[j].clone()];
            if ms[0].field == ms[1].field {
                return;
            }
            // the long tail of metadata keys (one per cut position) is explored singly only
            if ms.iter().any(|m| m.field == Field::MetaKey && m.value >= 8) {
                return;
            }
            let bytes = mutated_archive(b, &ms);
            agg.add("mutated_headers_pair", 1);
            for op in OPS {
                judge_bytes(&bytes, op, agg, &|| json!({"leg": "field-mutation", "base": b.name, "mutation": format!("{} + {}", mutn_label(&ms[0]), mutn_label(&ms[1])), "archive": hex(&bytes[..bytes.len().min(900)])}));
            }
        } else if job >= self.n_single + self.n_pair + self.n_corrupt {
            let (bi, pos, k) = self.dictbyte_of(job - self.n_single - self.n_pair - self.n_corrupt);
            let b = &self.hb[bi];
            let bytes = match dict_byte_mutated(b, pos, k) {
                Some(x) => x,
                None => return,
            };
            agg.add("dictionary_byte_mutations", 1);
            for op in OPS {
                judge_bytes(&bytes, op, agg, &|| json!({"leg": "dictionary-byte", "base": b.name, "dict_offset": pos, "variant": k, "archive": hex(&bytes[..bytes.len().min(900)])}));
            }
            if job % 2503 == 11 {
                agg.sample(|| json!({"leg": "dictionary-byte", "base": b.name, "dict_offset": pos, "variant": k}));
            }
        } else {
            let (bi, m) = &self.c04.jobs[job - self.n_single - self.n_pair];
            if !matches!(m, c04::Mutation::BitFlip(..) | c04::Mutation::Truncate(..)) {
                return;
            }
            let base = &self.c04.bases[*bi];
            let bytes = match c04::apply_pub(&base.arch, m) {
                Some(b) => b,
                None => return,
            };
            agg.add("corrupted_archives", 1);
            for op in [OpKind::Clone, OpKind::CloneSeed] {
                judge_bytes(&bytes, op, agg, &|| json!({"leg": "corruption", "base": base.name, "mutation": format!("{:?}", m)}));
            }
            if job % 1999 == 3 {
                agg.sample(|| json!({"leg": "corruption", "base": base.name, "mutation": format!("{:?}", m)}));
            }
        }
    }
}

// ------------------------------------------------------------------ servers

/// The server leg runs in isolated workers too: a response may make the client allocate what it declares.
pub struct SrvCtx {
    hb: Vec<HBase>,
    faults: Vec<HF>,
    jobs: Vec<(usize, usize, usize, u32)>,
    lab: std::cell::OnceCell<(HttpLab, tempfile::TempDir)>,
}

impl SrvCtx {
    pub fn new() -> SrvCtx {
        let hb = hbases_all();
        let faults = vec![HF::Extra(1), HF::Extra(5000), HF::Status(500), HF::Status(204), HF::Empty, HF::LengthLie(7), HF::LengthLie(1 << 40), HF::LengthLie(1 << 62), HF::Redirect, HF::Garbage, HF::FullFile, HF::ErrorPage(404), HF::ShortBody(0), HF::WrongBytes, HF::CutAfter(0), HF::RedirectLoop(300),
            HF::BadContentRange(0), HF::BadContentRange(1), HF::BadContentRange(2), HF::BadContentRange(3), HF::BadContentRange(4), HF::Linger(12)];
        let mut jobs = vec![];
        for (bi, b) in hb.iter().enumerate() {
            let nreq = 2 + b.built.dict.chunk_descriptors.len();
            for at in 0..nreq {
                for fi in 0..faults.len() {
                    // a response that delivers everything asked for and then never ends: on chunk-data requests only (the
                    // header reads do need the end of their response), and without a receive timeout on the command line
                    if matches!(faults[fi], HF::Linger(_)) && at < 2 {
                        continue;
                    }
                    for retries in [0u32, 2] {
                        jobs.push((bi, at, fi, retries));
                    }
                }
            }
        }
        SrvCtx { hb, faults, jobs, lab: std::cell::OnceCell::new() }
    }
    pub fn njobs(&self) -> usize {
        self.jobs.len()
    }
    pub fn describe(&self, job: usize) -> String {
        let (bi, at, fi, retries) = self.jobs[job];
        format!("{} {:?} at request {} retries {}", self.hb[bi].name, self.faults[fi], at, retries)
    }
    pub fn fault_name(&self, job: usize) -> String {
        format!("{:?}", self.faults[self.jobs[job].2]).split('(').next().unwrap_or("").to_string()
    }
    pub fn run_job(&self, job: usize, agg: &mut Agg) {
        let (lab, dir) = self.lab.get_or_init(|| (HttpLab::new(), scratch_dir("c15srv")));
        let (bi, at, fi, retries) = self.jobs[job];
        let (b, f) = (&self.hb[bi], &self.faults[fi]);
        let out = dir.path().join("out.bin");
        let mut script = vec![HF::None; at];
        script.push(f.clone());
        if retries > 0 {
            script.push(f.clone());
        }
        lab.server.arm(&b.built.bytes, Script { faults: script, splits: vec![], keep_alive: false });
        let _ = std::fs::remove_file(&out);
        let mut extra = vec!["--http-retry-count".to_string(), retries.to_string()];
        if !matches!(f, HF::Linger(_)) {
            extra.extend(["--http-timeout".to_string(), "5".to_string()]);
        }
        let args = c04::cli_clone_args(&lab.server.url(), &out, &extra);
        let t0 = std::time::Instant::now();
        let r = c04::cli_clone(&lab.rt, args);
        agg.add("server_cases", 1);
        let detail = || json!({"leg": "server", "base": b.name, "fault": format!("{:?}", f), "at_request": at, "retries": retries, "result": format!("{:?}", r), "job": job});
        // a redirect chain must be ended by a hop limit of the client, not by the server's patience
        let hops = lab.server.log().iter().filter(|l| l.fault.starts_with("RedirectLoop")).count();
        if hops >= 100 {
            agg.viol("unbounded-work:redirect-chain-followed-without-a-hop-limit", || {
                let mut j = detail();
                j["redirects_followed"] = json!(hops);
                j
            });
        }
        match &r {
            // (prefix: a crash caused by a RESPONSE is never taken for one caused by a header field)
            Err(p) => agg.viol(&format!("server-response:{}", panic_class(p)), detail),
            Ok(_) if t0.elapsed().as_secs() >= 9 => agg.viol("unbounded-work:server-response-stalls-clone", detail),
            Ok(Ok(())) => agg.add("ended_in_success", 1),
            Ok(Err(_)) => agg.add("ended_in_reported_error", 1),
        }
        agg.distinct("server_case_kinds", fnv(format!("{:?}{at}{retries}", f).as_bytes()));
        if job % 997 == 5 {
            agg.sample(|| json!({"leg": "server", "base": b.name, "fault": format!("{:?}", f), "at_request": at, "retries": retries}));
        }
    }
}

fn server_leg(rep: &mut Report) {
    let ctx = SrvCtx::new();
    match crate::isolate::run_isolated("c15srv", &rep.tier.clone(), ctx.njobs(), threads().min(8)) {
        Err(e) => machinery(e),
        Ok((agg, deaths)) => {
            rep.agg.merge(agg);
            rep.agg.add("process_deaths", deaths.len() as u64);
            for d in &deaths {
                let kind = if d.how.starts_with("watchdog") { "watchdog" } else { "process-death" };
                let class = format!("server-response:{kind}[{}]", ctx.fault_name(d.job));
                let (desc, how, job, tier) = (ctx.describe(d.job), d.how.clone(), d.job, rep.tier.clone());
                rep.agg.viol(&class, || json!({"leg": "server-isolated", "case": desc, "how": how, "job": job, "tier": tier}));
            }
        }
    }
}

pub fn run(rep: &mut Report) {
    let ctx = IsoCtx::new(rep.thorough());
    rep.set("single_field_mutations", json!(ctx.singles_huge.len()));
    rep.set("header_bases", json!(ctx.hb.iter().map(|b| b.name.clone()).collect::<Vec<_>>()));
    let njobs = ctx.njobs();
    // a chunk may declare (and a reader then zero-fills) up to 4 GiB: bound the number of
    // concurrent workers so that resident memory stays well below the machine's RAM
    match crate::isolate::run_isolated("c15", &rep.tier.clone(), njobs, threads().min(8)) {
        Err(e) => machinery(e),
        Ok((agg, deaths)) => {
            rep.agg.merge(agg);
            rep.agg.add("process_deaths", deaths.len() as u64);
            // a pair that dies is attributed to a member that already dies on its own (same field,
            // same value): the pair adds nothing to that single finding
            let died_single: std::collections::BTreeMap<String, String> = deaths
                .iter()
                .filter(|d| d.job < ctx.n_single)
                .map(|d| (mutn_label(&ctx.singles_huge[d.job % ctx.singles_huge.len()]), ctx.death_class(d.job)))
                .collect();
            for d in &deaths {
                let kind = if d.how.starts_with("watchdog") { "watchdog" } else { "process-death" };
                let mut dc = ctx.death_class(d.job);
                if d.job >= ctx.n_single && d.job < ctx.n_single + ctx.n_pair {
                    let (_bi, i, j) = ctx.pair_of(d.job - ctx.n_single);
                    for m in [&ctx.singles[i], &ctx.singles[j]] {
                        if let Some(c) = died_single.get(&mutn_label(m)) {
                            dc = c.clone();
                            break;
                        }
                    }
                }
                let class = format!("{kind}[{}]", dc);
                let desc = ctx.describe(d.job);
                let how = d.how.clone();
                let job = d.job;
                let tier = rep.tier.clone();
                rep.agg.viol(&class, || json!({"leg": "isolated", "case": desc, "how": how, "job": job, "tier": tier}));
            }
        }
    }
    server_leg(rep);
    let ev = rep.agg.get("operations") + rep.agg.get("server_cases");
    rep.set("evaluations", json!(ev));
    rep.set("distinct_nontrivial", json!(rep.agg.get("mutated_headers_single") + rep.agg.get("mutated_headers_pair") + rep.agg.get("dictionary_byte_mutations") + rep.agg.distinct_count("server_case_kinds")));
    rep.set("exhaustive", json!(true));
    rep.set("rule", json!("(i) every single-bit flip and truncation of three small valid archives, cloned with and without a seed; (ii) structurally valid headers with re-computed checksum written by the independent encoder: every field of every message (chunker parameters, compression, sizes, checksums' lengths, rebuild indexes, descriptor sizes/offsets, chunk data offset, missing sub-messages, duplicated / missing descriptors, 100 kB version string) set to every value of an adversarial alphabet, singly (quick) and in all pairs (thorough), each opened + info-printed, cloned, cloned with a seed (recorded chunker parameters in use) and cloned in place; (ii-b) every byte of the protobuf dictionary replaced by each of its 8 single-bit flips and by {00, 01, 7f, 80, ff} under a re-computed checksum (the decoder sees well-checksummed but structurally damaged dictionaries); (iii) 22 server misbehaviours (incl. a declared Content-Length of 2^40 / 2^62, a chunk-data response that delivers everything and then stays open for 12 s with no receive timeout given, five malformed Content-Range values and a redirect chain of 300 hops that only a client-side hop limit ends) at every request position of four archives (one storing its chunks with gaps, so that every chunk is a request of its own and a bad response is followed by further requests) with retry budget 0 and 2 through the real clone_cmd; every case in an isolated worker with a 6 GiB address-space limit, a 20 s per-operation watchdog and chunk-count horizons; oracle: success or reported error, never panic / process death / watchdog / horizon; non-trivial = distinct mutated headers + distinct server cases"));
    rep.assume("a chunk may legitimately declare up to 2^32-1 bytes (pre-allocated by decompress); only one such buffer exists at a time in these runs");
    rep.assume("byte strings not reachable by <= 2 simultaneous field mutations or a single bit flip / truncation are not covered");
}

pub fn replay(v: &Value) -> bool {
    if let Some(a) = v["archive"].as_str() {
        let bytes = unhex(a);
        let mut agg = Agg::default();
        for op in OPS {
            judge_bytes(&bytes, op, &mut agg, &|| json!({}));
        }
        for (k, c) in &agg.classes {
            println!("replay: class={} count={}", k, c.count);
        }
        return !agg.classes.is_empty();
    }
    // a process-level failure: run that one job in a child process and watch it die / hang
    let exe = std::env::current_exe().unwrap();
    let kind = if v["leg"].as_str().map_or(false, |l| l.starts_with("server")) { "c15srv" } else { "c15" };
    let mut child = std::process::Command::new(exe).args(["iso-job", kind, v["tier"].as_str().unwrap_or("quick"), &v["job"].to_string()]).spawn().unwrap();
    let t0 = std::time::Instant::now();
    loop {
        if let Ok(Some(st)) = child.try_wait() {
            println!("replay: child ended with {st}");
            return !st.success();
        }
        if t0.elapsed().as_secs() > crate::isolate::WATCHDOG_SECS + 5 {
            let _ = child.kill();
            println!("replay: child still running after {} s (hang)", t0.elapsed().as_secs());
            return true;
        }
        std::thread::sleep(std::time::Duration::from_millis(100));
    }
}
