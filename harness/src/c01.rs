//! C01 (round trip), C11 (format conformance) and C12 (determinism): input x configuration
//! sweeps through both writers and all readers, and the schedule exploration legs.
use crate::cli;
use crate::clonelab::*;
use crate::codec;
use crate::memdev::Fault;
use crate::refchunk::*;
use crate::rep::*;
use crate::sched::*;
use crate::subjects::*;
use serde_json::{json, Value};
use std::collections::{BTreeMap, BTreeSet};
use std::path::Path;

fn machinery(e: String) -> ! {
    eprintln!("MACHINERY-ERROR {e}");
    std::process::exit(2)
}

// ------------------------------------------------------------------ schedule legs

pub struct SchedLeg {
    pub name: String,
    pub spec: Value,
    pub bound: usize,
    pub reduce: bool,
    pub cap: u64,
}

pub fn sched_legs(thorough: bool, judge: Judge) -> Vec<SchedLeg> {
    let mut v = sched_legs_inner(thorough);
    for l in v.iter_mut() {
        l.spec["judge"] = json!(judge.name());
    }
    v
}

fn sched_legs_inner(thorough: bool) -> Vec<SchedLeg> {
    let f4 = Cfg::fixed(4);
    let f16 = Cfg::fixed(16);
    let roll = Cfg::new(Algo::Roll, 4, 4, 12, 2);
    let src_dup = b"AAAABBBBAAAACCCC".to_vec(); // 4 chunks, one duplicate (dedup branch)
    let src3 = b"AAAABBBBCCCC".to_vec();
    let src2 = b"AAAABBBB".to_vec();
    let src16: Vec<u8> = [vec![b'x'; 16], vec![b'y'; 16], vec![b'x'; 16], (0..9u8).collect()].concat(); // compressible chunks + short tail
    let rollsrc: Vec<u8> = b"abcdefghabcdefghhgfedcbaabcdefgh01234567".to_vec();
    let b = if thorough { 3 } else { 2 };
    let mut v = vec![
        SchedLeg { name: "cli-compress/fixed4/dup/b2".into(), spec: compress_spec("cli-compress", &f4, &Comp::None, 64, 2, &src_dup), bound: b, reduce: true, cap: 0 },
        SchedLeg { name: "cli-compress/fixed16/brotli/b3".into(), spec: compress_spec("cli-compress", &f16, &Comp::Brotli(6), 8, 3, &src16), bound: b, reduce: true, cap: 0 },
        SchedLeg { name: "cli-compress/rollsum/b1".into(), spec: compress_spec("cli-compress", &roll, &Comp::None, 64, 1, &rollsrc), bound: b, reduce: true, cap: 0 },
        SchedLeg { name: "lib-compress/fixed4/dup/b2".into(), spec: compress_spec("lib-compress", &f4, &Comp::None, 64, 2, &src_dup), bound: b, reduce: true, cap: 0 },
        SchedLeg { name: "lib-compress-pair/fixed4/b1".into(), spec: pair_spec(&f4, &Comp::None, 64, 1, &src2, b"CCCCDDDDEE"), bound: b.min(2), reduce: true, cap: 0 },
        SchedLeg { name: "cli-clone/fixed4/plain/b2".into(), spec: clone_spec(&f4, &Comp::None, 64, 2, &src3, None, None, false, true), bound: b, reduce: true, cap: 0 },
        SchedLeg { name: "cli-clone/fixed4/seed/b2".into(), spec: clone_spec(&f4, &Comp::None, 64, 2, &src_dup, Some(b"XXXXBBBBYYYYCCCC"), None, false, false), bound: b, reduce: true, cap: 0 },
        SchedLeg { name: "cli-clone/fixed4/in-place/b2".into(), spec: clone_spec(&f4, &Comp::None, 64, 2, &src_dup, None, Some(b"BBBBAAAAXXXXCCCCZZZZ"), true, false), bound: b, reduce: true, cap: 0 },
    ];
    // complete trees (bound 1000 = unbounded; the cap is far above the measured tree sizes and a
    // capped leg is reported as such, never as exhaustive)
    let full = |name: &str, spec: Value, reduce: bool| SchedLeg { name: name.into(), spec, bound: 1000, reduce, cap: 3_000_000 };
    v.push(full("cli-compress/fixed4/3chunks/b1/complete-tree", compress_spec("cli-compress", &f4, &Comp::None, 64, 1, &src3), true));
    if thorough {
        v.push(full("cli-compress/fixed4/2chunks/b2/complete-tree", compress_spec("cli-compress", &f4, &Comp::None, 64, 2, &src2), true));
        v.push(full("cli-compress/fixed4/2chunks/b2/complete-tree-noR1", compress_spec("cli-compress", &f4, &Comp::None, 64, 2, &src2), false));
        v.push(full("cli-compress/fixed4/3chunks/b2/complete-tree", compress_spec("cli-compress", &f4, &Comp::None, 64, 2, &src3), true));
        v.push(full("cli-compress/fixed4/dup4/b1/complete-tree", compress_spec("cli-compress", &f4, &Comp::None, 64, 1, &src_dup), true));
        v.push(full("cli-compress/fixed16/brotli/b1/complete-tree", compress_spec("cli-compress", &f16, &Comp::Brotli(6), 8, 1, &src16), true));
        // (the library writer's 3-chunk tree at buffers 2 exceeds 7e5 schedules: buffers 1, and 2 chunks at buffers 2)
        v.push(full("lib-compress/fixed4/3chunks/b1/complete-tree", compress_spec("lib-compress", &f4, &Comp::None, 64, 1, &src3), true));
        v.push(full("lib-compress/fixed4/2chunks/b2/complete-tree", compress_spec("lib-compress", &f4, &Comp::None, 64, 2, &src2), true));
        v.push(full("cli-clone/fixed4/plain/b2/complete-tree", clone_spec(&f4, &Comp::None, 64, 2, &src3, None, None, false, true), true));
        v.push(full("cli-clone/fixed4/seed/b1/complete-tree", clone_spec(&f4, &Comp::None, 64, 1, &src_dup, Some(b"XXXXBBBBYYYYCCCC"), None, false, false), true));
        v.push(full("cli-clone/fixed4/in-place/b1/complete-tree", clone_spec(&f4, &Comp::None, 64, 1, &src_dup, None, Some(b"BBBBAAAAXXXXCCCCZZZZ"), true, false), true));
        v.push(SchedLeg { name: "lib-compress/fixed16/zstd/b2".into(), spec: compress_spec("lib-compress", &f16, &Comp::Zstd(3), 64, 2, &src16), bound: 3, reduce: true, cap: 0 });
        v.push(SchedLeg { name: "cli-compress/fixed4/dup/b8".into(), spec: compress_spec("cli-compress", &f4, &Comp::None, 64, 8, &src_dup), bound: 3, reduce: true, cap: 0 });
        v.push(SchedLeg { name: "cli-clone/fixed16/brotli/in-place+seed".into(), spec: clone_spec(&f16, &Comp::Brotli(6), 64, 3, &src16, Some(&[vec![b'y'; 16], vec![b'q'; 16]].concat()), Some(&[vec![b'z'; 16], vec![b'x'; 16]].concat()), true, true), bound: 3, reduce: true, cap: 0 });
    } else {
        // R1 validation on the smallest input (both runs complete their bound)
        v.push(SchedLeg { name: "cli-compress/fixed4/2chunks/b2".into(), spec: compress_spec("cli-compress", &f4, &Comp::None, 64, 2, &src2), bound: 2, reduce: true, cap: 0 });
        v.push(SchedLeg { name: "cli-compress/fixed4/2chunks/b2-noR1".into(), spec: compress_spec("cli-compress", &f4, &Comp::None, 64, 2, &src2), bound: 2, reduce: false, cap: 0 });
    }
    v
}

/// Run the schedule legs selected by `filter`; returns per-leg results.
pub fn run_sched_legs(rep: &mut Report, judge: Judge, filter: &dyn Fn(&SchedLeg) -> bool) -> Vec<(SchedLeg, Value)> {
    let mut out = vec![];
    let workers = threads();
    for leg in sched_legs(rep.thorough(), judge) {
        if !filter(&leg) {
            continue;
        }
        let t0 = std::time::Instant::now();
        let v = match explore_parallel(&leg.spec, leg.bound, leg.reduce, workers, leg.cap / workers as u64) {
            Ok(v) => v,
            Err(e) => machinery(format!("schedule leg {}: {e}", leg.name)),
        };
        merge_into(&mut rep.agg, &leg.name, &v);
        let nout = v["outcomes"].as_object().unwrap().len();
        rep.agg.notes.push(format!("leg {}: bound {}{} schedules={} distinct_outcomes={} max_steps={} wall={:.1}s", leg.name, leg.bound, if leg.reduce { "" } else { " (no R1)" }, v["schedules"], nout, v["max_steps"], t0.elapsed().as_secs_f64()));
        if rep.agg.samples.len() < 4 {
            let (k, o) = v["outcomes"].as_object().unwrap().iter().next().map(|(k, o)| (k.clone(), o.clone())).unwrap_or_default();
            rep.agg.sample(|| json!({"leg": leg.name, "outcome": k, "count": o["count"], "example_schedule": o["example_schedule"]}));
        }
        out.push((leg, v));
    }
    out
}

/// R1 validation: the reduced and the unreduced exploration of the same subject must see the
/// same set of distinct outcomes.
fn validate_r1(rep: &mut Report, results: &[(SchedLeg, Value)]) {
    for (leg, v) in results {
        if leg.reduce {
            continue;
        }
        if let Some((_l2, v2)) = results.iter().find(|(l2, _)| l2.reduce && l2.spec == leg.spec && l2.bound == leg.bound) {
            let a: BTreeSet<&String> = v["outcomes"].as_object().unwrap().keys().collect();
            let b: BTreeSet<&String> = v2["outcomes"].as_object().unwrap().keys().collect();
            if v["capped"].as_bool().unwrap() || v2["capped"].as_bool().unwrap() {
                rep.agg.notes.push(format!("R1 validation on {} inconclusive (cap hit)", leg.name));
            } else if a != b && (!rep.agg.classes.is_empty() || !b.is_subset(&a) || a.iter().chain(b.iter()).any(|k| k.contains("identical-schedule"))) {
                // violations already on record, an outcome seen only under the reduction, or a subject that behaves
                // differently under identical schedules: the comparison says nothing about R1
                rep.agg.notes.push(format!("R1 validation on {} inconclusive (outcomes vary independently of the schedule): {:?} vs {:?}", leg.name, a, b));
            } else if a != b {
                machinery(format!("reduction R1 changes the outcome set on {}: {:?} vs {:?}", leg.name, a, b));
            } else {
                rep.agg.add("r1_validations", 1);
                rep.agg.notes.push(format!("R1 validated on {}: {} vs {} schedules, same {} outcome(s)", leg.name, v2["schedules"], v["schedules"], a.len()));
            }
        }
    }
}

fn finish_sched(rep: &mut Report) {
    let sch = rep.agg.get("schedules");
    rep.set("states", json!(rep.agg.get("schedule_tree_nodes")));
    rep.set("transitions", json!(rep.agg.get("schedule_steps")));
    rep.set("traces_validated_against_impl", json!(sch));
    rep.assume("A3: schedule granularity = blocking task runs to completion / main future polled once; sound because tasks communicate only through join handles and at most one operation per file handle is in flight");
    rep.assume("reduction R1 (tasks released between two polls in ascending id order) validated against the unreduced exploration on the smallest input");
}


/// Child side of the "earlier calls in the same process" leg: archives for a list of option sets, written one after
/// the other by the library writer in one process; prints [(len, fnv)] as JSON.
pub fn compress_seq_main(arg: &str) {
    let specs: Vec<Value> = serde_json::from_str(arg).expect("specs");
    let rt = tokio::runtime::Builder::new_multi_thread().worker_threads(2).enable_all().build().unwrap();
    let mut out = vec![];
    for v in &specs {
        let cfg = Cfg::from_json(&v["cfg"]);
        let comp = comp_from_str(v["comp"].as_str().unwrap());
        let src = unhex(v["source"].as_str().unwrap());
        match rt.block_on(lib_compress_fragmented(&cfg, &comp, v["hash_len"].as_u64().unwrap() as usize, v["buffers"].as_u64().unwrap() as usize, &src, 0)) {
            Ok(b) => out.push(json!({"len": b.len(), "fnv": format!("{:016x}", fnv(&b))})),
            Err(e) => out.push(json!({"error": e})),
        }
    }
    println!("{}", Value::Array(out));
}

/// An archive must not depend on what the process compressed BEFORE it (a cache of encoder parameters, a table or
/// buffer kept between calls): for every ordered pair (O', O) of a small set of option tuples a fresh process writes
/// archive(O') then archive(O); the second must equal archive(O) written alone in a fresh process.
fn earlier_calls_leg(rep: &mut Report) {
    let exe = std::env::current_exe().unwrap();
    let text: Vec<u8> = (0..6000u32).map(|i| b"the quick brown fox jumps over the lazy dog, again and again; "[(i as usize * 7 + (i as usize / 61) * 3) % 61]).collect();
    let f64c = Cfg::fixed(1024);
    let roll = Cfg::new(Algo::Roll, 16, 64, 1024, 7);
    let mut opts: Vec<Value> = vec![];
    for comp in [Comp::None, Comp::Brotli(1), Comp::Brotli(9), Comp::Zstd(1), Comp::Zstd(19), Comp::Lzma(1), Comp::Lzma(9)] {
        opts.push(compress_spec("lib-compress", &f64c, &comp, 64, 2, &text));
    }
    opts.push(compress_spec("lib-compress", &roll, &Comp::Brotli(5), 8, 2, &text));
    opts.push(compress_spec("lib-compress", &Cfg::new(Algo::Buz, 16, 64, 1024, 7), &Comp::Brotli(5), 64, 1, &text));
    opts.push(compress_spec("lib-compress", &Cfg::fixed(512), &Comp::Brotli(9), 4, 8, &text));
    let run = |list: &[&Value]| -> Result<Vec<Value>, String> {
        let arg = Value::Array(list.iter().map(|v| (*v).clone()).collect()).to_string();
        let o = std::process::Command::new(&exe).args(["lib-compress-seq", &arg]).output().map_err(|e| e.to_string())?;
        if !o.status.success() {
            return Err(format!("child failed: {}", String::from_utf8_lossy(&o.stderr)));
        }
        let line = String::from_utf8_lossy(&o.stdout).lines().last().unwrap_or("").to_string();
        serde_json::from_str::<Vec<Value>>(&line).map_err(|e| format!("child output: {e}"))
    };
    let alone: Vec<Value> = opts.iter().map(|o| run(&[o]).unwrap_or_else(|e| machinery(e)).remove(0)).collect();
    let n = opts.len();
    let jobs: Vec<(usize, usize)> = (0..n).flat_map(|i| (0..n).filter(move |j| *j != i).map(move |j| (i, j))).collect();
    let (opts_ref, alone_ref, jobs_ref, run_ref) = (&opts, &alone, &jobs, &run);
    let a = par_shards(jobs.len(), threads(), |k| {
        let mut agg = Agg::default();
        let (i, j) = jobs_ref[k];
        let r = run_ref(&[&opts_ref[i], &opts_ref[j]]).unwrap_or_else(|e| machinery(e));
        agg.add("earlier_call_pairs", 1);
        if r[1] != alone_ref[j] {
            agg.viol("archive-depends-on-earlier-calls-in-the-process", || json!({"writer": "library", "first": {"cfg": opts_ref[i]["cfg"], "comp": opts_ref[i]["comp"], "hash_len": opts_ref[i]["hash_len"]},
                "second": {"cfg": opts_ref[j]["cfg"], "comp": opts_ref[j]["comp"], "hash_len": opts_ref[j]["hash_len"]}, "second_archive": r[1], "second_archive_written_alone": alone_ref[j], "first_spec": opts_ref[i], "second_spec": opts_ref[j]}));
        }
        agg
    });
    rep.agg.merge(a);
}

// ------------------------------------------------------------------ C12

pub fn c12(rep: &mut Report) {
    let results = run_sched_legs(rep, Judge::Nothing, &|l| l.name.contains("compress"));
    validate_r1(rep, &results);
    // one distinct archive per (writer, source, options minus buffered-chunks)
    let mut groups: BTreeMap<String, BTreeMap<String, (String, String, Value, Value)>> = BTreeMap::new();
    for (leg, v) in &results {
        let mut g = leg.spec.clone();
        g["buffers"] = json!(null);
        let e = groups.entry(g.to_string()).or_default();
        for (k, o) in v["outcomes"].as_object().unwrap() {
            if k.starts_with("ok|") {
                e.entry(k.clone()).or_insert((leg.name.clone(), o["example_schedule"].as_str().unwrap_or("").to_string(), o["example_choices"].clone(), json!({"spec": leg.spec, "reduce": leg.reduce})));
            }
        }
    }
    // buffered-chunks sweep and input fragmentation (default schedule, real runtime)
    let rt = tokio::runtime::Builder::new_multi_thread().worker_threads(2).enable_all().build().unwrap();
    let mut sweep = 0u64;
    let cfgs = [Cfg::fixed(4), Cfg::fixed(16), Cfg::new(Algo::Roll, 4, 4, 12, 2), Cfg::new(Algo::Buz, 4, 5, 12, 2)];
    let sources: Vec<Vec<u8>> = vec![b"AAAABBBBAAAACCCC".to_vec(), b"abcdefghabcdefghhgfedcbaabcdefgh01234567abcdefgh".to_vec(), vec![b'x'; 50], (0..200u8).collect(), vec![]];
    for cfg in &cfgs {
        for comp in [Comp::None, Comp::Brotli(4), Comp::Zstd(3), Comp::Lzma(2)] {
            for src in &sources {
                let mut seen: BTreeMap<u64, String> = BTreeMap::new();
                for buffers in [1usize, 2, 3, 8, 64] {
                    for frag in [0usize, 1, 3, 7] {
                        let r = rt.block_on(lib_compress_fragmented(cfg, &comp, 16, buffers, src, frag));
                        sweep += 1;
                        match r {
                            Ok(bytes) => {
                                seen.entry(fnv(&bytes)).or_insert(format!("buffers={buffers} read_size={frag}"));
                            }
                            Err(e) => rep.agg.viol("valid-compress-failed", || json!({"cfg": cfg.json(), "comp": format!("{:?}", comp), "source": hex(src), "buffers": buffers, "read_size": frag, "error": e})),
                        }
                    }
                }
                rep.agg.distinct("sweep_archives", seen.keys().next().copied().unwrap_or(0));
                if seen.len() > 1 {
                    rep.agg.viol("archive-differs-between-deliveries", || json!({"writer": "library", "cfg": cfg.json(), "comp": format!("{:?}", comp), "source": hex(src), "variants": seen.values().collect::<Vec<_>>()}));
                }
            }
        }
    }
    rep.agg.add("delivery_sweep_runs", sweep);
    earlier_calls_leg(rep);
    for (g, outs) in &groups {
        if outs.len() > 1 {
            let gv: Value = serde_json::from_str(g).unwrap();
            rep.agg.viol("archive-differs-between-schedules", || json!({"subject": gv, "distinct_archives": outs.iter().map(|(k, (leg, s, ch, sp))| json!({"outcome": k, "leg": leg, "schedule": s, "choices": ch, "subject": sp["spec"], "reduce": sp["reduce"]})).collect::<Vec<_>>()}));
        }
    }
    rep.set("groups", json!(groups.len()));
    rep.set("evaluations", json!(rep.agg.get("schedules") + sweep));
    rep.set("distinct_nontrivial", json!(rep.agg.distinct_count("schedule_outcomes") + rep.agg.distinct_count("sweep_archives")));
    rep.set("rule", json!("schedule legs: deviation-bounded DFS over blocking-pool completion orders of the real compress_cmd / create_archive (each schedule = one execution of the real code, archive bytes observed after runtime shutdown); delivery sweep: buffered-chunks in {1,2,3,8,64} x input read sizes {whole,1,3,7} (the output accepting whole buffers, 5 or 1 bytes per write call, committing each write only with the next one or a flush) on a real multi-thread runtime; oracle: exactly one distinct archive per (writer, source, options); earlier calls: for every ordered pair of 10 option tuples (7 compressions x levels, 3 chunker / hash-length variants) a fresh process writes both archives one after the other and the second must equal the one a fresh process writes alone; non-trivial = distinct (leg, archive) outcomes"));
    finish_sched(rep);
}

/// Library compress with the input delivered `frag` bytes per read (0 = unfragmented).
pub async fn lib_compress_fragmented(cfg: &Cfg, comp: &Comp, hash_len: usize, buffers: usize, src: &[u8], frag: usize) -> Result<Vec<u8>, String> {
    // the sink varies with the input fragmentation: whole writes, or at most 5 / 1 bytes per write call
    lib_compress_sink(cfg, comp, hash_len, buffers, src, frag, match frag {
        1 => 5,
        3 => 1,
        _ => 0,
    })
    .await
}

/// `sink_max` > 0: the output accepts at most that many bytes per write call (a socket, a pipe, a
/// throttled writer); 0: whole buffers.
pub async fn lib_compress_sink(cfg: &Cfg, comp: &Comp, hash_len: usize, buffers: usize, src: &[u8], frag: usize, sink_max: usize) -> Result<Vec<u8>, String> {
    struct Frag<'a> {
        data: &'a [u8],
        pos: usize,
        n: usize,
        pend: bool,
    }
    impl tokio::io::AsyncRead for Frag<'_> {
        fn poll_read(mut self: std::pin::Pin<&mut Self>, cx: &mut std::task::Context<'_>, buf: &mut tokio::io::ReadBuf<'_>) -> std::task::Poll<std::io::Result<()>> {
            if self.n > 0 && !self.pend && self.pos % 2 == 1 {
                self.pend = true;
                cx.waker().wake_by_ref();
                return std::task::Poll::Pending;
            }
            self.pend = false;
            let k = if self.n == 0 { self.data.len() - self.pos } else { self.n.min(self.data.len() - self.pos) }.min(buf.remaining());
            let (p, d) = (self.pos, self.data);
            buf.put_slice(&d[p..p + k]);
            self.pos += k;
            std::task::Poll::Ready(Ok(()))
        }
    }
    let opts = bitar::api::compress::CreateArchiveOptions {
        chunker_config: cfg.to_bitar(),
        num_chunk_buffers: buffers,
        chunk_hash_length: hash_len,
        temporary_file_override: None,
        compression: comp.to_bitar(),
        metadata: Default::default(),
    };
    // The output behaves like a buffered / deferred writer (tokio::fs::File, BufWriter): the bytes of a
    // write only reach the medium with the NEXT write or a flush. What counts is what has reached the
    // medium when create_archive returns - nobody flushes on its behalf afterwards.
    struct Deferred {
        committed: Vec<u8>,
        pending: Vec<u8>,
        max: usize,
    }
    impl tokio::io::AsyncWrite for Deferred {
        fn poll_write(mut self: std::pin::Pin<&mut Self>, _cx: &mut std::task::Context<'_>, data: &[u8]) -> std::task::Poll<std::io::Result<usize>> {
            let p = std::mem::take(&mut self.pending);
            self.committed.extend_from_slice(&p);
            let n = if self.max > 0 { data.len().min(self.max) } else { data.len() };
            self.pending = data[..n].to_vec();
            std::task::Poll::Ready(Ok(n))
        }
        fn poll_flush(mut self: std::pin::Pin<&mut Self>, _cx: &mut std::task::Context<'_>) -> std::task::Poll<std::io::Result<()>> {
            let p = std::mem::take(&mut self.pending);
            self.committed.extend_from_slice(&p);
            std::task::Poll::Ready(Ok(()))
        }
        fn poll_shutdown(self: std::pin::Pin<&mut Self>, cx: &mut std::task::Context<'_>) -> std::task::Poll<std::io::Result<()>> {
            self.poll_flush(cx)
        }
    }
    let mut out = Deferred { committed: vec![], pending: vec![], max: sink_max };
    bitar::api::compress::create_archive(Frag { data: src, pos: 0, n: frag, pend: false }, &mut out, &opts).await.map_err(|e| format!("{e}"))?;
    Ok(out.committed)
}

// ------------------------------------------------------------------ shared in-process sweep (C01 a, C11)

pub struct Case {
    pub cfg: Cfg,
    pub comp: Comp,
    pub hash_len: usize,
    pub buffers: usize,
    pub source: Vec<u8>,
}

fn source_family(c: &Cfg, big: bool) -> Vec<Vec<u8>> {
    let mut lens = vec![0usize, 1, 2, c.w.saturating_sub(1), c.w, c.w + 1, c.min.saturating_sub(1), c.min, c.min + 1, c.max.saturating_sub(1), c.max, c.max + 1, 2 * c.max + 1, 3 * c.max + 2];
    lens.sort();
    lens.dedup();
    let mut v = vec![];
    for &n in &lens {
        if n > 400 {
            continue;
        }
        v.push(vec![0u8; n]);
        v.push(vec![b'x'; n]);
        v.push((0..n).map(|i| if i % 2 == 0 { b'a' } else { b'b' }).collect());
        v.push((0..n).map(|i| (i * 37 + 11) as u8).collect());
    }
    if big {
        let mut x: u32 = 99;
        // keep the chunk count moderate: compression back-ends cost ~1 ms per chunk
        v.push((0..(c.max * 250).min(70_000)).map(|i| {
            x ^= x << 13;
            x ^= x >> 17;
            x ^= x << 5;
            if (i / 3000) % 3 == 0 { 0 } else { (x >> 9) as u8 }
        }).collect());
    }
    v.sort();
    v.dedup();
    v
}

pub fn config_grid(thorough: bool) -> Vec<(Cfg, Comp, usize, usize)> {
    // (cfg, compression, hash length, buffered chunks): pairwise-style cover, every value of each
    // dimension appears with several values of the others
    let mut cfgs = vec![Cfg::fixed(1), Cfg::fixed(2), Cfg::fixed(5), Cfg::fixed(64)];
    for algo in [Algo::Roll, Algo::Buz] {
        for w in [1usize, 2, 4, 16] {
            for (min, max) in [(0usize, 8usize), (w.saturating_sub(1), 3 * w), (w, w), (w + 1, 4 * w), (2 * w + 3, 64)] {
                for bits in [1u32, 2, 5] {
                    let c = Cfg::new(algo, w, min, max, bits);
                    if c.valid() && !cfgs.contains(&c) {
                        cfgs.push(c);
                    }
                }
            }
        }
    }
    let comps = if thorough {
        vec![Comp::None, Comp::Brotli(1), Comp::Brotli(6), Comp::Brotli(11), Comp::Zstd(1), Comp::Zstd(22), Comp::Lzma(1), Comp::Lzma(9)]
    } else {
        vec![Comp::None, Comp::Brotli(6), Comp::Brotli(11), Comp::Zstd(3), Comp::Lzma(1)]
    };
    let hls = [4usize, 8, 31, 64];
    let bufs = [1usize, 2, 8];
    let mut v = vec![];
    for (i, c) in cfgs.iter().enumerate() {
        if thorough {
            for (j, comp) in comps.iter().enumerate() {
                v.push((*c, comp.clone(), hls[(i + j) % 4], bufs[(i + 2 * j) % 3]));
            }
        } else {
            for j in 0..2 {
                let k = i * 2 + j;
                v.push((*c, comps[k % comps.len()].clone(), hls[(k / 2) % 4], bufs[k % 3]));
            }
        }
    }
    v
}

/// CLI compress + CLI clone of one case on real files (default schedule, shared runtime).
pub fn cli_roundtrip(rt: &tokio::runtime::Runtime, dir: &Path, case: &Case, agg: &mut Agg, judge: Judge) {
    let src = dir.join("src.bin");
    let arc = dir.join("a.cba");
    let out = dir.join("out.bin");
    std::fs::write(&src, &case.source).unwrap();
    let _ = std::fs::remove_file(&arc);
    let _ = std::fs::remove_file(&out);
    let mut args: Vec<String> = vec!["bita".into(), "compress".into()];
    args.extend(cfg_cli_args(&case.cfg));
    args.extend(case.comp.cli());
    args.extend(["--hash-length".into(), case.hash_len.to_string(), "--buffered-chunks".into(), case.buffers.to_string(), "-i".into(), src.to_str().unwrap().into(), arc.to_str().unwrap().into()]);
    let detail = |extra: Value| json!({"writer": "cli", "cfg": case.cfg.json(), "comp": format!("{:?}", case.comp), "hash_len": case.hash_len, "buffers": case.buffers, "source": hex(&case.source[..case.source.len().min(600)]), "source_len": case.source.len(), "extra": extra});
    let opts = match cli::parse_opts(args.clone()) {
        Ok((cli::CommandOpts::Compress(o), _)) => o,
        Ok(_) => unreachable!(),
        Err(e) => {
            agg.viol("valid-options-rejected", || detail(json!(e.to_string())));
            return;
        }
    };
    let r = catch(|| rt.block_on(crate::compress_cmd::compress_cmd(opts)));
    match r {
        Err(p) => {
            agg.viol(&format!("panic@{}", panic_site(&p)), || detail(json!(p)));
            return;
        }
        Ok(Err(e)) => {
            agg.viol("valid-compress-failed", || detail(json!(format!("{e:#}"))));
            return;
        }
        Ok(Ok(())) => {}
    }
    let bytes = std::fs::read(&arc).unwrap_or_default();
    agg.distinct("archives", fnv(&bytes));
    if let Some((class, d)) = judge_archive(&bytes, &case.source, &case.cfg, &case.comp, case.hash_len, &[], judge) {
        agg.viol(&class, || detail(d));
        return;
    }
    if judge == Judge::Format {
        // what the real reader reports back about this archive == what the independent decoder sees
        accessor_check(&bytes, agg, &|w: &str, extra: Value| detail(json!({"what": w, "extra": extra})));
    }
    agg.distinct("archives", fnv(&bytes));
    if judge == Judge::Format {
        return;
    }
    // CLI clone of the CLI archive
    let cargs: Vec<String> = vec!["bita".into(), "clone".into(), "--buffered-chunks".into(), case.buffers.to_string(), "--verify-output".into(), arc.to_str().unwrap().into(), out.to_str().unwrap().into()];
    let copts = match cli::parse_opts(cargs) {
        Ok((cli::CommandOpts::Clone(o), _)) => o,
        _ => unreachable!(),
    };
    match catch(|| rt.block_on(crate::clone_cmd::clone_cmd(copts))) {
        Err(p) => agg.viol(&format!("panic@{}", panic_site(&p)), || detail(json!(p))),
        Ok(Err(e)) => agg.viol("valid-clone-failed", || detail(json!(format!("{e:#}")))),
        Ok(Ok(())) => {
            let o = std::fs::read(&out).unwrap_or_default();
            if o != case.source {
                agg.viol("success-with-wrong-output", || detail(json!({"output_len": o.len()})));
                return;
            }
        }
    }
    // the same clone over an existing, longer file (--force-create): exact length and bytes again
    let mut junk = vec![0x5au8; case.source.len() + 37];
    junk.extend_from_slice(b"stale tail");
    std::fs::write(&out, &junk).unwrap();
    let cargs: Vec<String> = vec!["bita".into(), "clone".into(), "--buffered-chunks".into(), case.buffers.to_string(), "--force-create".into(), arc.to_str().unwrap().into(), out.to_str().unwrap().into()];
    if let Ok((cli::CommandOpts::Clone(copts), _)) = cli::parse_opts(cargs) {
        match catch(|| rt.block_on(crate::clone_cmd::clone_cmd(copts))) {
            Err(p) => agg.viol(&format!("panic@{}", panic_site(&p)), || detail(json!(p))),
            Ok(Err(e)) => agg.viol("valid-clone-failed", || detail(json!(format!("over existing file: {e:#}")))),
            Ok(Ok(())) => {
                let o = std::fs::read(&out).unwrap_or_default();
                if o != case.source {
                    agg.viol("success-with-wrong-output", || detail(json!({"over_existing_longer_file": true, "output_len": o.len()})));
                }
            }
        }
    }
    // ... and as an update in place (--seed-output) of a copy whose first and last bytes differ: everything but
    // the first and last chunk is already where it belongs
    if !case.source.is_empty() {
        let mut prior = case.source.clone();
        prior[0] ^= 0x21;
        let l = prior.len() - 1;
        prior[l] ^= 0x12;
        std::fs::write(&out, &prior).unwrap();
        let cargs: Vec<String> = vec!["bita".into(), "clone".into(), "--buffered-chunks".into(), case.buffers.to_string(), "--seed-output".into(), arc.to_str().unwrap().into(), out.to_str().unwrap().into()];
        if let Ok((cli::CommandOpts::Clone(copts), _)) = cli::parse_opts(cargs) {
            match catch(|| rt.block_on(crate::clone_cmd::clone_cmd(copts))) {
                Err(p) => agg.viol(&format!("panic@{}", panic_site(&p)), || detail(json!(p))),
                Ok(Err(e)) => agg.viol("valid-clone-failed", || detail(json!(format!("in place over a copy with two changed bytes: {e:#}")))),
                Ok(Ok(())) => {
                    let o = std::fs::read(&out).unwrap_or_default();
                    if o != case.source {
                        agg.viol("success-with-wrong-output", || detail(json!({"in_place_over_copy_with_two_changed_bytes": true, "output_len": o.len()})));
                    }
                }
            }
        }
    }
}

/// Library compress + judge (conformance + library clone) of one case.
pub fn lib_roundtrip(rt: &tokio::runtime::Runtime, case: &Case, agg: &mut Agg, judge: Judge) {
    let detail = |extra: Value| json!({"writer": "library", "cfg": case.cfg.json(), "comp": format!("{:?}", case.comp), "hash_len": case.hash_len, "buffers": case.buffers, "source": hex(&case.source[..case.source.len().min(600)]), "source_len": case.source.len(), "extra": extra});
    // the output takes whole buffers, 5 bytes or 1 byte per write call (rotating with the source length)
    let sink_max = [0usize, 5, 1][case.source.len() % 3];
    let r = catch(|| rt.block_on(lib_compress_sink(&case.cfg, &case.comp, case.hash_len, case.buffers, &case.source, 0, sink_max)));
    match r {
        Err(p) => agg.viol(&format!("panic@{}", panic_site(&p)), || detail(json!(p))),
        Ok(Err(e)) => agg.viol("valid-compress-failed", || detail(json!(e))),
        Ok(Ok(bytes)) => {
            if let Some((class, d)) = judge_archive(&bytes, &case.source, &case.cfg, &case.comp, case.hash_len, &[], judge) {
                agg.viol(&class, || detail(d));
            } else if judge == Judge::Format {
                accessor_check(&bytes, agg, &|w: &str, extra: Value| detail(json!({"what": w, "extra": extra})));
            }
            agg.distinct("archives", fnv(&bytes));
            // raw/compressed corner: a chunk whose compressed size equals its source size
            if let Ok(d) = codec::decode(&bytes) {
                for desc in &d.dict.chunk_descriptors {
                    if desc.archive_size == desc.source_size && case.comp != Comp::None {
                        agg.add("chunks_stored_raw_under_compression", 1);
                    }
                }
            }
        }
    }
}

pub fn sweep(rep: &mut Report, judge: Judge) {
    let thorough = rep.thorough();
    let grid = config_grid(thorough);
    rep.set("configurations", json!(grid.len()));
    let alpha: Vec<u8> = vec![0x00, b'a', b'b'];
    let nmax: usize = if thorough { 7 } else { 5 };
    let grid_ref = &grid;
    let alpha_ref = &alpha;
    let a = par_shards(grid.len(), threads(), |gi| {
        let (cfg, comp, hl, buffers) = grid_ref[gi].clone();
        let t_shard = std::time::Instant::now();
        let mut agg = Agg::default();
        let rt = tokio::runtime::Builder::new_current_thread().enable_all().build().unwrap();
        let dir = scratch_dir("c01");
        let mut sources = source_family(&cfg, gi % 16 == 3);
        // exhaustive small strings for a slice of the grid (library writer is cheap)
        // compression back-ends cost milliseconds per chunk (1 MiB brotli buffer): shorter bound there;
        // the maximum levels (zstd 22, lzma 9: hundreds of MB of encoder state per chunk) only see
        // the boundary family and the strings up to length 2
        let heavy = matches!(comp, Comp::Zstd(l) if l > 15) || matches!(comp, Comp::Lzma(l) if l > 6);
        let nmax_here = if comp == Comp::None { nmax } else if heavy { 2 } else { nmax.saturating_sub(2) };
        if heavy {
            sources.retain(|s| s.len() <= 40);
        }
        for n in 0..=nmax_here {
            for idx in 0..count_strings(alpha_ref, n) {
                sources.push(nth_string(alpha_ref, n, idx));
            }
        }
        sources.sort();
        sources.dedup();
        for (si, src) in sources.iter().enumerate() {
            let case = Case { cfg, comp: comp.clone(), hash_len: hl, buffers, source: src.clone() };
            agg.add("library_roundtrips", 1);
            lib_roundtrip(&rt, &case, &mut agg, judge);
            // the CLI path goes through real files; run it on the boundary family and every 9th small string
            if cli_expressible(&cfg) && (si % 9 == 0 || src.len() > nmax) {
                agg.add("cli_roundtrips", 1);
                cli_roundtrip(&rt, dir.path(), &case, &mut agg, judge);
            }
            if gi == 7 && agg.samples.len() < 3 && src.len() > 6 {
                agg.sample(|| json!({"cfg": cfg.label(), "comp": format!("{:?}", comp), "hash_len": hl, "buffers": buffers, "source": hex(src)}));
            }
        }
        agg.max("max_shard_ms", t_shard.elapsed().as_millis() as u64);
        agg
    });
    rep.agg.merge(a);
    // sources larger than the 1 MiB refill buffer, chunks larger than it, default parameters
    let big: Vec<(Cfg, Comp, usize)> = vec![
        (Cfg::new(Algo::Roll, 64, 16 * 1024, 16 * 1024 * 1024, 15), Comp::Brotli(1), 3 * 1024 * 1024 + 5),
        (Cfg::fixed(1024 * 1024 + 1), Comp::None, 2 * 1024 * 1024 + 7),
        (Cfg::new(Algo::Buz, 16, 1024 * 1024 + 512, 2 * 1024 * 1024, 20), Comp::Zstd(1), 2 * 1024 * 1024 + 4097),
        (Cfg::new(Algo::Roll, 64, 16 * 1024, 16 * 1024 * 1024, 15), Comp::None, 1024 * 1024),
        (Cfg::new(Algo::Roll, 64, 16 * 1024, 16 * 1024 * 1024, 15), Comp::None, 1024 * 1024 + 1),
        // chunks beyond 2 MiB: more than tokio::fs::File accepts in one write call
        (Cfg::fixed(3 * 1024 * 1024), Comp::None, 7 * 1024 * 1024 + 11),
        (Cfg::new(Algo::Roll, 64, 2 * 1024 * 1024 + 4096, 5 * 1024 * 1024, 21), Comp::Brotli(1), 6 * 1024 * 1024),
    ];
    let big_ref = &big;
    let b = par_shards(big.len(), threads(), |i| {
        let (cfg, comp, n) = big_ref[i].clone();
        let mut agg = Agg::default();
        let rt = tokio::runtime::Builder::new_current_thread().enable_all().build().unwrap();
        let dir = scratch_dir("c01big");
        let mut x: u32 = 77 + i as u32;
        let source: Vec<u8> = (0..n)
            .map(|j| {
                x ^= x << 13;
                x ^= x >> 17;
                x ^= x << 5;
                if (j / 40_000) % 4 == 1 { 0 } else { (x >> 7) as u8 }
            })
            .collect();
        let case = Case { cfg, comp, hash_len: 64, buffers: 4, source };
        agg.add("library_roundtrips", 1);
        agg.add("large_source_roundtrips", 2);
        lib_roundtrip(&rt, &case, &mut agg, judge);
        if cli_expressible(&case.cfg) {
            agg.add("cli_roundtrips", 1);
            cli_roundtrip(&rt, dir.path(), &case, &mut agg, judge);
        } else {
            machinery(format!("large-source case {} is not expressible on the command line", case.cfg.label()));
        }
        agg
    });
    rep.agg.merge(b);
    break_even_leg(rep, judge);
}

/// The raw/compressed corner: chunks whose compressed form is EXACTLY as long as the chunk (and
/// one byte shorter / longer), found by a bounded search with the independent codec's back-ends.
fn break_even_leg(rep: &mut Report, judge: Judge) {
    let comps = [Comp::Brotli(1), Comp::Brotli(6), Comp::Brotli(11), Comp::Zstd(1), Comp::Zstd(3), Comp::Lzma(1)];
    let sizes = [48usize, 64, 100, 200, 300, 512, 2048];
    let jobs: Vec<(usize, usize)> = (0..comps.len()).flat_map(|c| (0..sizes.len()).map(move |s| (c, s))).collect();
    let (comps_ref, jobs_ref) = (&comps, &jobs);
    let a = par_shards(jobs.len(), threads(), |j| {
        let (ci, si) = jobs_ref[j];
        let comp = &comps_ref[ci];
        let n = sizes[si];
        let mut agg = Agg::default();
        let (ctype, level) = match comp {
            Comp::Brotli(l) => (3u32, *l),
            Comp::Zstd(l) => (2, *l),
            Comp::Lzma(l) => (1, *l),
            Comp::None => (0, 0),
        };
        // random prefix + zero tail: the compressed size falls as the tail grows; look for ==, -1, +1
        let mut x: u32 = 0x1234_5678 ^ (j as u32 * 7919);
        let rnd: Vec<u8> = (0..n).map(|_| { x ^= x << 13; x ^= x >> 17; x ^= x << 5; (x >> 8) as u8 }).collect();
        let mut found: Vec<Vec<u8>> = vec![];
        let mut have = [false; 3];
        for k in 0..n {
            let mut block = rnd[..n - k].to_vec();
            block.resize(n, 0);
            if let Ok(c) = codec::compress(ctype, level, &block) {
                let d = c.len() as i64 - n as i64;
                if (-1..=1).contains(&d) && !have[(d + 1) as usize] {
                    have[(d + 1) as usize] = true;
                    if d == 0 {
                        agg.add("break_even_chunks_found", 1);
                    }
                    found.push(block);
                }
            }
            if have.iter().all(|h| *h) {
                break;
            }
        }
        if found.is_empty() {
            return agg;
        }
        // a source made of the found blocks (each one FixedSize chunk) plus an ordinary one
        let mut source = vec![];
        for b in &found {
            source.extend_from_slice(b);
        }
        source.extend(std::iter::repeat(b'q').take(n));
        let rt = tokio::runtime::Builder::new_current_thread().enable_all().build().unwrap();
        let dir = scratch_dir("c01be");
        let case = Case { cfg: Cfg::fixed(n), comp: comp.clone(), hash_len: 64, buffers: 2, source };
        agg.add("library_roundtrips", 1);
        agg.add("break_even_roundtrips", 2);
        lib_roundtrip(&rt, &case, &mut agg, judge);
        agg.add("cli_roundtrips", 1);
        cli_roundtrip(&rt, dir.path(), &case, &mut agg, judge);
        agg
    });
    rep.agg.merge(a);
}

// ---------------------------------------------------------------- sources beyond 4 GiB (virtual)

const VCHUNK: u64 = 16 << 20;

/// Byte `o` of the virtual source: zero, except for an 8-byte tag at the start of a few chunks
/// (one early, those just below / at / above source offset 2^32) and in the final partial chunk.
fn vbyte_patch(buf: &mut [u8], start: u64, total: u64) {
    buf.fill(0);
    let marks: [u64; 6] = [5, 255, 256, 257, 258, total / VCHUNK];
    for m in marks {
        let tag = (m + 1).to_le_bytes();
        for (k, t) in tag.iter().enumerate() {
            let o = m * VCHUNK + 3 + k as u64;
            if o >= start && o < start + buf.len() as u64 && o < total {
                buf[(o - start) as usize] = *t;
            }
        }
    }
}

struct VSource {
    pos: u64,
    total: u64,
}

impl tokio::io::AsyncRead for VSource {
    fn poll_read(mut self: std::pin::Pin<&mut Self>, _cx: &mut std::task::Context<'_>, buf: &mut tokio::io::ReadBuf<'_>) -> std::task::Poll<std::io::Result<()>> {
        let n = (buf.remaining() as u64).min(self.total - self.pos) as usize;
        let (pos, total) = (self.pos, self.total);
        let dst = buf.initialize_unfilled_to(n);
        vbyte_patch(dst, pos, total);
        buf.advance(n);
        self.pos += n as u64;
        std::task::Poll::Ready(Ok(()))
    }
}

/// Output that stores nothing: every write is compared with the virtual source at its offset and
/// counted per 16 MiB slot.
struct VSink {
    pos: u64,
    total: u64,
    st: std::sync::Arc<std::sync::Mutex<VSinkState>>,
}

#[derive(Default)]
struct VSinkState {
    slots: Vec<u64>,
    wrong: Vec<(u64, usize)>,
    beyond: Vec<(u64, usize)>,
}

impl tokio::io::AsyncWrite for VSink {
    fn poll_write(mut self: std::pin::Pin<&mut Self>, _cx: &mut std::task::Context<'_>, data: &[u8]) -> std::task::Poll<std::io::Result<usize>> {
        let mut want = vec![0u8; data.len()];
        vbyte_patch(&mut want, self.pos, self.total);
        {
            let mut st = self.st.lock().unwrap();
            if self.pos + data.len() as u64 > self.total {
                st.beyond.push((self.pos, data.len()));
            } else if want != data {
                st.wrong.push((self.pos, data.len()));
            } else {
                let slot = (self.pos / VCHUNK) as usize;
                if st.slots.len() <= slot {
                    st.slots.resize(slot + 1, 0);
                }
                st.slots[slot] += data.len() as u64;
            }
        }
        self.pos += data.len() as u64;
        std::task::Poll::Ready(Ok(data.len()))
    }
    fn poll_flush(self: std::pin::Pin<&mut Self>, _cx: &mut std::task::Context<'_>) -> std::task::Poll<std::io::Result<()>> {
        std::task::Poll::Ready(Ok(()))
    }
    fn poll_shutdown(self: std::pin::Pin<&mut Self>, _cx: &mut std::task::Context<'_>) -> std::task::Poll<std::io::Result<()>> {
        std::task::Poll::Ready(Ok(()))
    }
}

impl tokio::io::AsyncSeek for VSink {
    fn start_seek(mut self: std::pin::Pin<&mut Self>, position: std::io::SeekFrom) -> std::io::Result<()> {
        match position {
            std::io::SeekFrom::Start(o) => self.pos = o,
            std::io::SeekFrom::Current(d) => self.pos = (self.pos as i64 + d) as u64,
            std::io::SeekFrom::End(d) => self.pos = (self.total as i64 + d) as u64,
        }
        Ok(())
    }
    fn poll_complete(self: std::pin::Pin<&mut Self>, _cx: &mut std::task::Context<'_>) -> std::task::Poll<std::io::Result<u64>> {
        std::task::Poll::Ready(Ok(self.pos))
    }
}

/// The real library writer over a virtual source of 4 GiB + 48 MiB + 12 345 bytes (fixed 16 MiB
/// chunks, no compression), then the real reader / clone output into a comparing sink: source
/// offsets, the recorded size and the rebuild order beyond 2^32.
fn big_virtual_leg(rep: &mut Report) {
    use futures_util::StreamExt;
    let total: u64 = (4u64 << 30) + 3 * VCHUNK + 12_345;
    let mut agg = Agg::default();
    let rt = tokio::runtime::Builder::new_multi_thread().worker_threads(2).enable_all().build().unwrap();
    let detail = |extra: Value| json!({"leg": "virtual source beyond 4 GiB", "source_len": total, "chunk": VCHUNK, "extra": extra});
    let opts = bitar::api::compress::CreateArchiveOptions {
        chunker_config: bitar::chunker::Config::FixedSize(VCHUNK as usize),
        num_chunk_buffers: 8,
        chunk_hash_length: 64,
        temporary_file_override: None,
        compression: None,
        metadata: BTreeMap::new(),
    };
    let r = catch(|| {
        rt.block_on(async {
            let mut out: Vec<u8> = vec![];
            bitar::api::compress::create_archive(VSource { pos: 0, total }, &mut out, &opts).await.map_err(|e| format!("{e}"))?;
            Ok::<Vec<u8>, String>(out)
        })
    });
    agg.add("big_virtual_sources", 1);
    let bytes = match r {
        Err(p) => {
            agg.viol(&format!("panic@{}", panic_site(&p)), || detail(json!(p)));
            rep.agg.merge(agg);
            return;
        }
        Ok(Err(e)) => {
            agg.viol("valid-compress-failed", || detail(json!(e)));
            rep.agg.merge(agg);
            return;
        }
        Ok(Ok(b)) => b,
    };
    let st = std::sync::Arc::new(std::sync::Mutex::new(VSinkState::default()));
    let st2 = st.clone();
    let r = catch(|| {
        rt.block_on(async {
            let reader = bitar::archive_reader::IoReader::new(std::io::Cursor::new(bytes));
            let mut archive = bitar::Archive::try_init(reader).await.map_err(|e| format!("try_init: {e}"))?;
            if archive.total_source_size() != total {
                return Err(format!("recorded source size {} != {}", archive.total_source_size(), total));
            }
            let mut output = bitar::CloneOutput::new(VSink { pos: 0, total, st: st2 }, archive.build_source_index());
            let mut stream = archive.chunk_stream(output.chunks());
            while let Some(r) = stream.next().await {
                let v = r.map_err(|e| format!("read: {e}"))?.decompress().map_err(|e| format!("decompress: {e}"))?.verify().map_err(|e| format!("verify: {e}"))?;
                output.feed(&v).await.map_err(|e| format!("feed: {e}"))?;
            }
            Ok::<(), String>(())
        })
    });
    match r {
        Err(p) => agg.viol(&format!("panic@{}", panic_site(&p)), || detail(json!(p))),
        Ok(Err(e)) if e.starts_with("recorded source size") => agg.viol("recorded-source-size-wrong", || detail(json!(e))),
        Ok(Err(e)) => agg.viol("valid-clone-failed", || detail(json!(e))),
        Ok(Ok(())) => {
            let st = st.lock().unwrap();
            let nslots = ((total + VCHUNK - 1) / VCHUNK) as usize;
            let ok = st.wrong.is_empty()
                && st.beyond.is_empty()
                && st.slots.len() == nslots
                && st.slots.iter().enumerate().all(|(i, &n)| n == if i + 1 == nslots { total - i as u64 * VCHUNK } else { VCHUNK });
            if !ok {
                agg.viol("success-with-wrong-output", || {
                    detail(json!({"writes_with_wrong_bytes": st.wrong.iter().take(5).collect::<Vec<_>>(), "writes_beyond_source": st.beyond.iter().take(5).collect::<Vec<_>>(),
                        "slots_filled": st.slots.iter().filter(|&&n| n > 0).count(), "slots_expected": nslots}))
                });
            }
        }
    }
    rep.agg.merge(agg);
}

pub fn c01(rep: &mut Report) {
    let t0 = std::time::Instant::now();
    big_virtual_leg(rep);
    rep.agg.notes.push(format!("virtual 4 GiB source wall {:.1}s", t0.elapsed().as_secs_f64()));
    sweep(rep, Judge::RoundTrip);
    rep.agg.notes.push(format!("sweep wall {:.1}s", t0.elapsed().as_secs_f64()));
    // "yields exactly the source" holds for a clone that updates a prior output in place too: all (prior layout, target)
    // pairs of <= 4 chunks of sizes 1-3 through the real planner and executor, judged by the final bytes
    {
        let mut l0 = Agg::default();
        crate::clonechecks::c03_l0(4, 64, &mut l0);
        l0.classes.retain(|k, _| k == "success-with-wrong-output" || k == "valid-clone-failed" || k.starts_with("panic"));
        l0.samples.clear();
        rep.agg.merge(l0);
    }
    let results = run_sched_legs(rep, Judge::RoundTrip, &|_| true);
    validate_r1(rep, &results);
    let ev = rep.agg.get("library_roundtrips") + rep.agg.get("cli_roundtrips") + rep.agg.get("schedules");
    rep.set("evaluations", json!(ev));
    rep.set("distinct_nontrivial", json!(rep.agg.distinct_count("archives") + rep.agg.distinct_count("schedule_outcomes")));
    rep.set("rule", json!("leg a: all strings over {00,'a','b'} up to the length bound + boundary family (lengths around window/min/max, constant/periodic/varied contents, one 70 kB source per 16 configurations) x pairwise-style configuration grid (3 algorithms, windows 1-16, min/max shapes, bits, hash lengths 4/8/31/64, none/brotli/zstd/lzma, buffered-chunks 1/2/8) through the library writer and (where expressible) the real CLI compress+clone on files; judged by the independent decoder and the round trip; one virtual source of 4 GiB + 48 MiB + 12345 bytes (tags below / at / above offset 2^32) through the real library writer and the real clone output into a comparing sink; leg b: deviation-bounded schedule exploration of the real compress_cmd / create_archive / clone_cmd; non-trivial = distinct archives + distinct schedule outcomes"));
    finish_sched(rep);
}

/// C11: the real binary with the source piped into stdin (a separate call site of the CLI writer),
/// archives judged by the independent decoder.
fn stdin_leg(rep: &mut Report) {
    let bita = std::env::var("VERIF_BITA").unwrap_or_else(|_| "/verif/build/bita/release/bita".into());
    let mut cases: Vec<Case> = vec![];
    let srcs: Vec<Vec<u8>> = vec![b"AAAABBBBAAAACCCCDD".to_vec(), (0..300u32).map(|i| (i * 31 % 251) as u8).collect(), vec![]];
    for (i, cfg) in [Cfg::fixed(4), Cfg::fixed(64), Cfg::new(Algo::Roll, 4, 4, 12, 2), Cfg::new(Algo::Buz, 4, 5, 32, 3)].iter().enumerate() {
        for (j, (hl, buffers)) in [(64usize, 2usize), (24, 6), (4, 2), (8, 64), (31, 1)].iter().enumerate() {
            for (k, src) in srcs.iter().enumerate() {
                let comp = [Comp::None, Comp::Brotli(5), Comp::Zstd(3)][(i + j + k) % 3].clone();
                cases.push(Case { cfg: *cfg, comp, hash_len: *hl, buffers: *buffers, source: src.clone() });
            }
        }
    }
    let cases_ref = &cases;
    let nshards = threads();
    let a = par_shards(nshards, threads(), |sh| {
        let mut agg = Agg::default();
        let dir = scratch_dir("c11stdin");
        for (ci, case) in cases_ref.iter().enumerate() {
            if ci % nshards != sh || !cli_expressible(&case.cfg) {
                continue;
            }
            let arc = dir.path().join(format!("a{ci}.cba"));
            let mut args: Vec<String> = vec!["compress".into()];
            args.extend(cfg_cli_args(&case.cfg));
            args.extend(case.comp.cli());
            args.extend(["--hash-length".into(), case.hash_len.to_string(), "--buffered-chunks".into(), case.buffers.to_string(), arc.to_str().unwrap().into()]);
            // every other run starts with the debris of an earlier failed run in place
            if ci % 2 == 1 {
                let _ = std::fs::write(arc.with_extension(".tmp"), vec![0xd7u8; 5000]);
            }
            let mut child = match std::process::Command::new(&bita).args(&args).stdin(std::process::Stdio::piped()).stdout(std::process::Stdio::null()).stderr(std::process::Stdio::null()).env("RUST_BACKTRACE", "0").spawn() {
                Ok(c) => c,
                Err(e) => machinery(format!("cannot run {bita}: {e}")),
            };
            {
                use std::io::Write;
                let mut si = child.stdin.take().unwrap();
                let _ = si.write_all(&case.source);
            }
            let st = child.wait().unwrap();
            agg.add("stdin_compress_runs", 1);
            let detail = |extra: Value| json!({"writer": "cli-binary-stdin", "cfg": case.cfg.json(), "comp": format!("{:?}", case.comp), "hash_len": case.hash_len, "buffers": case.buffers, "source": hex(&case.source), "extra": extra});
            if !st.success() {
                agg.viol("valid-compress-failed", || detail(json!(format!("{st}"))));
                continue;
            }
            let bytes = std::fs::read(&arc).unwrap_or_default();
            if let Some((class, d)) = judge_archive(&bytes, &case.source, &case.cfg, &case.comp, case.hash_len, &[], Judge::Format) {
                agg.viol(&class, || detail(d));
            }
            agg.distinct("archives", fnv(&bytes));
        }
        agg
    });
    rep.agg.merge(a);
}

pub fn c11(rep: &mut Report) {
    let t0 = std::time::Instant::now();
    sweep(rep, Judge::Format);
    rep.agg.notes.push(format!("sweep wall {:.1}s", t0.elapsed().as_secs_f64()));
    metadata_leg(rep);
    stdin_leg(rep);
    let results = run_sched_legs(rep, Judge::Format, &|l| l.name.contains("compress"));
    validate_r1(rep, &results);
    let ev = rep.agg.get("library_roundtrips") + rep.agg.get("cli_roundtrips") + rep.agg.get("schedules") + rep.agg.get("metadata_cases") + rep.agg.get("stdin_compress_runs");
    rep.set("evaluations", json!(ev));
    rep.set("distinct_nontrivial", json!(rep.agg.distinct_count("archives") + rep.agg.distinct_count("schedule_outcomes")));
    rep.set("rule", json!("every archive of the C01 sweep and of every explored compress schedule, by both writers, is decoded by the independent codec and checked against the conformance checklist (magic, sizes, offsets, checksums, descriptor uniqueness/order/back-to-back placement, chunk decoding, rebuild order, recorded parameters == requested, boundaries == reference chunking); metadata maps from a fixed adversarial set; the real binary with the source piped into stdin (4 chunkers x 5 (hash length, buffered-chunks) pairs x 3 sources, every other run with a stale temp file of an earlier failed run in place); bitar::Archive accessors compared with the independent decoder"));
    finish_sched(rep);
}

fn metadata_leg(rep: &mut Report) {
    let sets: Vec<Vec<(String, Vec<u8>)>> = vec![
        vec![],
        vec![("".into(), vec![])],
        vec![("k".into(), vec![0x00, 0xff, 0x80, 0x0a])],
        vec![("zeta".into(), b"1".to_vec()), ("alpha".into(), b"2".to_vec()), ("mid".into(), b"3".to_vec())],
        vec![("blob".into(), (0..300u32).map(|i| (i * 7) as u8).collect())],
        vec![("a".into(), vec![]), ("".into(), b"x".to_vec())],
    ];
    let rt = tokio::runtime::Builder::new_current_thread().enable_all().build().unwrap();
    let dir = scratch_dir("c11meta");
    let cfg = Cfg::fixed(4);
    let source = b"AAAABBBBCC".to_vec();
    for (i, md) in sets.iter().enumerate() {
        rep.agg.add("metadata_cases", 2);
        // library writer
        let opts = bitar::api::compress::CreateArchiveOptions {
            chunker_config: cfg.to_bitar(),
            num_chunk_buffers: 2,
            chunk_hash_length: 64,
            temporary_file_override: None,
            compression: None,
            metadata: md.iter().cloned().collect(),
        };
        let mut out: Vec<u8> = vec![];
        let r = rt.block_on(bitar::api::compress::create_archive(&source[..], &mut out, &opts));
        let detail = |w: &str, extra: Value| json!({"writer": w, "metadata_set": i, "metadata": md.iter().map(|(k, v)| (k.clone(), hex(v))).collect::<Vec<_>>(), "extra": extra});
        if let Err(e) = r {
            rep.agg.viol("valid-compress-failed", || detail("library", json!(e.to_string())));
        } else if let Some((class, d)) = judge_archive(&out, &source, &cfg, &Comp::None, 64, md, Judge::Format) {
            rep.agg.viol(&class, || detail("library", d));
        } else {
            accessor_check(&out, &mut rep.agg, &detail);
        }
        // CLI writer: --metadata-value for valid UTF-8 without NUL, --metadata-file otherwise
        let src = dir.path().join("src.bin");
        let arc = dir.path().join(format!("m{i}.cba"));
        std::fs::write(&src, &source).unwrap();
        let mut args: Vec<String> = vec!["bita".into(), "compress".into(), "--fixed-size".into(), "4B".into(), "--compression".into(), "none".into()];
        for (j, (k, v)) in md.iter().enumerate() {
            match String::from_utf8(v.clone()) {
                Ok(s) if !s.is_empty() && !s.contains('\0') && j % 2 == 0 => args.extend(["--metadata-value".into(), k.clone(), s]),
                _ => {
                    let f = dir.path().join(format!("md{i}_{j}.bin"));
                    std::fs::write(&f, v).unwrap();
                    args.extend(["--metadata-file".into(), k.clone(), f.to_str().unwrap().into()]);
                }
            }
        }
        args.extend(["-i".into(), src.to_str().unwrap().into(), arc.to_str().unwrap().into()]);
        match cli::parse_opts(args) {
            Ok((cli::CommandOpts::Compress(o), _)) => match catch(|| rt.block_on(crate::compress_cmd::compress_cmd(o))) {
                Ok(Ok(())) => {
                    let bytes = std::fs::read(&arc).unwrap_or_default();
                    if let Some((class, d)) = judge_archive(&bytes, &source, &cfg, &Comp::None, 64, md, Judge::Format) {
                        rep.agg.viol(&class, || detail("cli", d));
                    } else {
                        accessor_check(&bytes, &mut rep.agg, &detail);
                    }
                }
                Ok(Err(e)) => rep.agg.viol("valid-compress-failed", || detail("cli", json!(format!("{e:#}")))),
                Err(p) => rep.agg.viol(&format!("panic@{}", panic_site(&p)), || detail("cli", json!(p))),
            },
            Ok(_) => unreachable!(),
            Err(e) => rep.agg.viol("valid-options-rejected", || detail("cli", json!(e.to_string()))),
        }
    }
}

/// bitar::Archive accessors must report what the independent decoder sees.
pub fn accessor_check(bytes: &[u8], agg: &mut Agg, detail: &dyn Fn(&str, Value) -> Value) {
    let d = match codec::decode(bytes) {
        Ok(d) => d,
        Err(_) => return,
    };
    let reader = bitar::archive_reader::IoReader::new(std::io::Cursor::new(bytes.to_vec()));
    let a = match drive_ready(bitar::Archive::try_init(reader)) {
        Ok(Ok(a)) => a,
        _ => {
            agg.viol("archive-unreadable", || detail("reader", json!("try_init failed")));
            return;
        }
    };
    let mut md: Vec<(String, Vec<u8>)> = a.metadata_iter().map(|(k, v)| (k.to_string(), v.to_vec())).collect();
    md.sort();
    let mut want: BTreeMap<String, Vec<u8>> = BTreeMap::new();
    for (k, v) in &d.dict.metadata {
        want.insert(k.clone(), v.clone());
    }
    let want: Vec<(String, Vec<u8>)> = want.into_iter().collect();
    let p = d.dict.chunker_params.clone().unwrap_or_default();
    let mut problems = vec![];
    if md != want {
        problems.push("metadata");
    }
    if a.total_source_size() != d.dict.source_total_size {
        problems.push("total_source_size");
    }
    if a.source_checksum().slice() != &d.dict.source_checksum[..] {
        problems.push("source_checksum");
    }
    if a.chunk_hash_length() != p.chunk_hash_length as usize {
        problems.push("chunk_hash_length");
    }
    if a.header_size() != d.header_len || a.chunk_data_offset() != d.chunk_data_offset {
        problems.push("header_size/chunk_data_offset");
    }
    if a.header_checksum().slice() != &d.header_checksum[..] {
        problems.push("header_checksum");
    }
    if a.unique_chunks() != d.dict.chunk_descriptors.len() || a.total_chunks() != d.dict.rebuild_order.len() {
        problems.push("chunk counts");
    }
    if a.built_with_version() != d.dict.application_version {
        problems.push("application_version");
    }
    for (k, v) in &want {
        if a.metadata_value(k) != Some(&v[..]) {
            problems.push("metadata_value");
        }
    }
    // descriptors with absolute offsets
    let want_descs: Vec<(Vec<u8>, u64, usize, u32)> = d.dict.chunk_descriptors.iter().map(|x| (x.checksum.clone(), d.chunk_data_offset.wrapping_add(x.archive_offset), x.archive_size as usize, x.source_size)).collect();
    let got_descs: Vec<(Vec<u8>, u64, usize, u32)> = a.chunk_descriptors().iter().map(|x| (x.checksum.to_vec(), x.archive_offset, x.archive_size, x.source_size)).collect();
    if want_descs != got_descs {
        problems.push("chunk_descriptors");
    }
    let want_cfg = match p.chunking_algorithm {
        2 => Some(bitar::chunker::Config::FixedSize(p.max_chunk_size as usize)),
        0 | 1 => {
            let fc = bitar::chunker::FilterConfig { filter_bits: bitar::chunker::FilterBits::from_bits(p.chunk_filter_bits), min_chunk_size: p.min_chunk_size as usize, max_chunk_size: p.max_chunk_size as usize, window_size: p.rolling_hash_window_size as usize };
            Some(if p.chunking_algorithm == 0 { bitar::chunker::Config::BuzHash(fc) } else { bitar::chunker::Config::RollSum(fc) })
        }
        _ => None,
    };
    if want_cfg.as_ref() != Some(a.chunker_config()) {
        problems.push("chunker_config");
    }
    let c = d.dict.chunk_compression.clone().unwrap_or_default();
    let got_comp = a.chunk_compression().map(|c| format!("{}", c));
    let want_comp = match c.compression {
        0 => None,
        1 => Some(format!("LZMA (level {})", c.compression_level)),
        2 => Some(format!("zstd (level {})", c.compression_level)),
        _ => Some(format!("Brotli (level {})", c.compression_level)),
    };
    if got_comp != want_comp {
        problems.push("chunk_compression");
    }
    if !problems.is_empty() {
        agg.viol("reader-reports-different-values", || detail("reader", json!(problems)));
    }
}

pub fn replay(pid: &str, v: &Value) -> bool {
    if v.get("second_spec").is_some() {
        // the archive of the second option set written after the first one in a fresh process, and alone
        let exe = std::env::current_exe().unwrap();
        let run = |list: Vec<&Value>| -> Vec<Value> {
            let arg = Value::Array(list.into_iter().cloned().collect()).to_string();
            let o = std::process::Command::new(&exe).args(["lib-compress-seq", &arg]).output().expect("child");
            serde_json::from_str(String::from_utf8_lossy(&o.stdout).lines().last().unwrap_or("[]")).unwrap_or_default()
        };
        let both = run(vec![&v["first_spec"], &v["second_spec"]]);
        let alone = run(vec![&v["second_spec"]]);
        println!("replay: after the first {:?}, alone {:?}", both.get(1), alone.first());
        return both.get(1) != alone.first();
    }
    if v.get("level").and_then(|l| l.as_str()) == Some("L0") {
        return crate::clonechecks::replay("C03", v);
    }
    if let Some(list) = v.get("distinct_archives").and_then(|l| l.as_array()) {
        // C12: replay each recorded schedule straight and compare the archives they produce
        let mut keys = BTreeSet::new();
        for d in list {
            let subject = subject_from_spec(&d["subject"]);
            let dir = scratch_dir("replay");
            subject.setup(dir.path());
            let choices: Vec<usize> = d["choices"].as_array().map(|a| a.iter().map(|x| x.as_u64().unwrap() as usize).collect()).unwrap_or_default();
            match run_once(subject.as_ref(), dir.path(), &choices, d["reduce"].as_bool().unwrap_or(true)) {
                Ok(ex) => {
                    let obs = subject.observe(dir.path(), &ex.result);
                    println!("replay: schedule {} -> {}", ex.labels.join(" "), obs.key);
                    keys.insert(obs.key);
                }
                Err(e) => machinery(e),
            }
        }
        return keys.len() > 1;
    }
    if v.get("choices").is_some() {
        // a schedule: replay it straight, without the explorer
        let subject = subject_from_spec(&v["subject"]);
        let dir = scratch_dir("replay");
        subject.setup(dir.path());
        let choices: Vec<usize> = v["choices"].as_array().unwrap().iter().map(|x| x.as_u64().unwrap() as usize).collect();
        let reduce = v["reduce"].as_bool().unwrap_or(true);
        let ex = match run_once(subject.as_ref(), dir.path(), &choices, reduce) {
            Ok(e) => e,
            Err(e) => machinery(e),
        };
        let obs = subject.observe(dir.path(), &ex.result);
        println!("replay: schedule {} -> {} {:?}", ex.labels.join(" "), obs.key, obs.violation);
        return obs.violation.is_some();
    }
    let judge = if pid == "C11" { Judge::Format } else { Judge::RoundTrip };
    let cfg = Cfg::from_json(&v["cfg"]);
    let comp = comp_from_str(v["comp"].as_str().unwrap_or("None"));
    let case = Case { cfg, comp, hash_len: v["hash_len"].as_u64().unwrap_or(64) as usize, buffers: v["buffers"].as_u64().unwrap_or(1) as usize, source: unhex(v["source"].as_str().unwrap_or("")) };
    let rt = tokio::runtime::Builder::new_current_thread().enable_all().build().unwrap();
    let mut agg = Agg::default();
    // a sweep case runs on the real blocking pool: its schedule is not recorded, so the case is
    // repeated (schedule-dependent failures are replayed deterministically by the explorer legs)
    for attempt in 0..40 {
        if v["writer"].as_str() == Some("cli") {
            let dir = scratch_dir("replay");
            cli_roundtrip(&rt, dir.path(), &case, &mut agg, judge);
        } else {
            lib_roundtrip(&rt, &case, &mut agg, judge);
        }
        if !agg.classes.is_empty() {
            println!("replay: reproduced at attempt {}", attempt + 1);
            break;
        }
    }
    for (k, c) in &agg.classes {
        println!("replay: class={} {}", k, c.examples[0]);
    }
    !agg.classes.is_empty()
}

