//! In-memory instrumented device (DESIGN.md 3.4): AsyncRead + AsyncWrite + AsyncSeek over a
//! shared Vec<u8> with an operation log and scripted faults (short answers, Pending, errors,
//! torn write followed by "process death").
use std::io::{self, SeekFrom};
use std::pin::Pin;
use std::sync::{Arc, Mutex};
use std::task::{Context, Poll};
use tokio::io::{AsyncRead, AsyncSeek, AsyncWrite, ReadBuf};

#[derive(Clone, Debug, PartialEq, Eq)]
pub enum Op {
    /// poll_write accepted `data` at `offset`
    Write { offset: u64, data: Vec<u8> },
    /// poll_read returned `data` from `offset`
    Read { offset: u64, data: Vec<u8> },
    Seek { to: u64 },
    Flush,
    SetLen { len: u64 },
    /// phase marker inserted by the flow driver
    Mark(&'static str),
}

/// Fault to inject at the n-th operation of a kind (0-based), counted per kind.
#[derive(Clone, Copy, Debug, PartialEq, Eq, Hash)]
pub enum Fault {
    None,
    /// n-th write: accept only `t` bytes then the process "dies" (device returns Pending forever)
    CrashAtWrite { n: usize, t: usize },
    /// n-th write fails with EIO
    ErrAtWrite { n: usize },
    /// n-th write accepts only `t` bytes (short write), then continues normally
    ShortWrite { n: usize, t: usize },
    /// n-th seek (start_seek) fails
    ErrAtSeek { n: usize },
    /// n-th read fails with EIO
    ErrAtRead { n: usize },
    /// n-th read returns only `t` bytes
    ShortRead { n: usize, t: usize },
    /// n-th read returns Pending once (then retried)
    PendingRead { n: usize },
    /// n-th write returns Pending once
    PendingWrite { n: usize },
    /// n-th flush fails
    ErrAtFlush { n: usize },
    /// n-th read returns only `t` bytes and the read after it fails once with ErrorKind::Interrupted
    /// (a transient condition: whoever retries must not have lost its place)
    InterruptedRead { n: usize, t: usize },
}

#[derive(Debug, Default)]
pub struct DevState {
    pub bytes: Vec<u8>,
    pub log: Vec<Op>,
    pub crashed: bool,
    pub writes: usize,
    pub reads: usize,
    pub seeks: usize,
    pub flushes: usize,
    pub pending_done: bool,
}

#[derive(Clone)]
pub struct MemDev {
    pub st: Arc<Mutex<DevState>>,
    pos: u64,
    fault: Fault,
    /// maximum length the device can have (None = growable like a regular file)
    pub fixed_size: Option<u64>,
    /// writes that end beyond this offset are acknowledged and logged but not stored (sparse file model)
    pub sparse_limit: Option<u64>,
}

impl MemDev {
    pub fn new(bytes: Vec<u8>) -> Self {
        Self { st: Arc::new(Mutex::new(DevState { bytes, ..Default::default() })), pos: 0, fault: Fault::None, fixed_size: None, sparse_limit: None }
    }
    pub fn with_fault(mut self, f: Fault) -> Self {
        self.fault = f;
        self
    }
    pub fn handle(&self) -> Arc<Mutex<DevState>> {
        self.st.clone()
    }
}

fn eio() -> io::Error {
    io::Error::new(io::ErrorKind::Other, "injected EIO")
}

impl AsyncRead for MemDev {
    fn poll_read(mut self: Pin<&mut Self>, cx: &mut Context<'_>, buf: &mut ReadBuf<'_>) -> Poll<io::Result<()>> {
        let me = &mut *self;
        let mut st = me.st.lock().unwrap();
        if st.crashed {
            return Poll::Pending;
        }
        let n = st.reads;
        match me.fault {
            Fault::PendingRead { n: k } if k == n && !st.pending_done => {
                st.pending_done = true;
                cx.waker().wake_by_ref();
                return Poll::Pending;
            }
            _ => {}
        }
        if let Fault::InterruptedRead { n: k, .. } = me.fault {
            if n == k + 1 && !st.pending_done {
                st.pending_done = true;
                return Poll::Ready(Err(io::Error::new(io::ErrorKind::Interrupted, "injected EINTR")));
            }
        }
        st.reads += 1;
        st.pending_done = false;
        if let Fault::ErrAtRead { n: k } = me.fault {
            if k == n {
                return Poll::Ready(Err(eio()));
            }
        }
        let len = st.bytes.len() as u64;
        let start = me.pos.min(len) as usize;
        let mut want = buf.remaining().min(st.bytes.len() - start);
        if let Fault::ShortRead { n: k, t } | Fault::InterruptedRead { n: k, t } = me.fault {
            if k == n {
                want = want.min(t.max(1));
            }
        }
        let data = st.bytes[start..start + want].to_vec();
        buf.put_slice(&data);
        st.log.push(Op::Read { offset: start as u64, data });
        me.pos = (start + want) as u64;
        Poll::Ready(Ok(()))
    }
}

impl AsyncWrite for MemDev {
    fn poll_write(mut self: Pin<&mut Self>, cx: &mut Context<'_>, data: &[u8]) -> Poll<io::Result<usize>> {
        let me = &mut *self;
        let mut st = me.st.lock().unwrap();
        if st.crashed {
            return Poll::Pending;
        }
        let n = st.writes;
        if let Fault::PendingWrite { n: k } = me.fault {
            if k == n && !st.pending_done {
                st.pending_done = true;
                cx.waker().wake_by_ref();
                return Poll::Pending;
            }
        }
        st.writes += 1;
        st.pending_done = false;
        let mut take = data.len();
        let mut crash = false;
        match me.fault {
            Fault::ErrAtWrite { n: k } if k == n => return Poll::Ready(Err(eio())),
            Fault::CrashAtWrite { n: k, t } if k == n => {
                take = t.min(data.len());
                crash = true;
            }
            Fault::ShortWrite { n: k, t } if k == n => take = t.max(1).min(data.len()),
            _ => {}
        }
        let pos = me.pos as usize;
        if let Some(fs) = me.fixed_size {
            if (pos + take) as u64 > fs {
                return Poll::Ready(Err(io::Error::new(io::ErrorKind::Other, "no space left on device")));
            }
        }
        if let Some(lim) = me.sparse_limit {
            if (pos + take) as u64 > lim {
                st.log.push(Op::Write { offset: pos as u64, data: vec![] });
                me.pos += take as u64;
                return Poll::Ready(Ok(take));
            }
        }
        if take > 0 {
            if st.bytes.len() < pos + take {
                st.bytes.resize(pos + take, 0);
            }
            st.bytes[pos..pos + take].copy_from_slice(&data[..take]);
            st.log.push(Op::Write { offset: pos as u64, data: data[..take].to_vec() });
        }
        me.pos += take as u64;
        if crash {
            st.crashed = true;
            return Poll::Pending;
        }
        Poll::Ready(Ok(take))
    }
    fn poll_flush(self: Pin<&mut Self>, _cx: &mut Context<'_>) -> Poll<io::Result<()>> {
        let mut st = self.st.lock().unwrap();
        if st.crashed {
            return Poll::Pending;
        }
        let n = st.flushes;
        st.flushes += 1;
        st.log.push(Op::Flush);
        if let Fault::ErrAtFlush { n: k } = self.fault {
            if k == n {
                return Poll::Ready(Err(eio()));
            }
        }
        Poll::Ready(Ok(()))
    }
    fn poll_shutdown(self: Pin<&mut Self>, cx: &mut Context<'_>) -> Poll<io::Result<()>> {
        self.poll_flush(cx)
    }
}

impl AsyncSeek for MemDev {
    fn start_seek(mut self: Pin<&mut Self>, position: SeekFrom) -> io::Result<()> {
        let me = &mut *self;
        let mut st = me.st.lock().unwrap();
        let n = st.seeks;
        st.seeks += 1;
        if let Fault::ErrAtSeek { n: k } = me.fault {
            if k == n {
                return Err(eio());
            }
        }
        let len = st.bytes.len() as i64;
        let np = match position {
            SeekFrom::Start(o) => o as i64,
            SeekFrom::End(d) => len + d,
            SeekFrom::Current(d) => me.pos as i64 + d,
        };
        if np < 0 {
            return Err(io::Error::new(io::ErrorKind::InvalidInput, "negative seek"));
        }
        me.pos = np as u64;
        st.log.push(Op::Seek { to: me.pos });
        Ok(())
    }
    fn poll_complete(self: Pin<&mut Self>, _cx: &mut Context<'_>) -> Poll<io::Result<u64>> {
        if self.st.lock().unwrap().crashed {
            return Poll::Pending;
        }
        Poll::Ready(Ok(self.pos))
    }
}

impl MemDev {
    pub fn mark(&self, m: &'static str) {
        self.st.lock().unwrap().log.push(Op::Mark(m));
    }
    pub fn set_len(&mut self, len: u64) {
        let mut st = self.st.lock().unwrap();
        st.bytes.resize(len as usize, 0);
        st.log.push(Op::SetLen { len });
    }
}

/// Poll a future to completion by hand with a no-op waker; None if it stays Pending with the
/// device crashed (process death) — Some(result) otherwise. A horizon guards against livelock.
pub fn drive<F: std::future::Future>(fut: F, dev: &Arc<Mutex<DevState>>) -> Result<Option<F::Output>, String> {
    let mut fut = std::pin::pin!(fut);
    let waker = futures_util::task::noop_waker();
    let mut cx = Context::from_waker(&waker);
    for _ in 0..100_000 {
        match fut.as_mut().poll(&mut cx) {
            Poll::Ready(r) => return Ok(Some(r)),
            Poll::Pending => {
                if dev.lock().unwrap().crashed {
                    return Ok(None);
                }
            }
        }
    }
    Err("future did not complete within the poll horizon".into())
}


/// Read-only file: `data` with `len` zero bytes inserted at offset `at` (archives whose chunk data
/// lies beyond 2^32 without the memory).
pub struct HoleFile {
    pub data: Vec<u8>,
    pub at: u64,
    pub len: u64,
    pub pos: u64,
}

impl tokio::io::AsyncRead for HoleFile {
    fn poll_read(mut self: std::pin::Pin<&mut Self>, _cx: &mut std::task::Context<'_>, buf: &mut tokio::io::ReadBuf<'_>) -> std::task::Poll<std::io::Result<()>> {
        let total = self.data.len() as u64 + self.len;
        let mut n = 0usize;
        while buf.remaining() > 0 && self.pos < total && n < 65536 {
            let p = self.pos;
            let b = if p < self.at {
                self.data[p as usize]
            } else if p < self.at + self.len {
                0
            } else {
                self.data[(p - self.len) as usize]
            };
            buf.put_slice(&[b]);
            self.pos += 1;
            n += 1;
        }
        std::task::Poll::Ready(Ok(()))
    }
}

impl tokio::io::AsyncSeek for HoleFile {
    fn start_seek(mut self: std::pin::Pin<&mut Self>, position: std::io::SeekFrom) -> std::io::Result<()> {
        let total = (self.data.len() as u64 + self.len) as i128;
        let np = match position {
            std::io::SeekFrom::Start(o) => o as i128,
            std::io::SeekFrom::End(d) => total + d as i128,
            std::io::SeekFrom::Current(d) => self.pos as i128 + d as i128,
        };
        if np < 0 {
            return Err(std::io::Error::new(std::io::ErrorKind::InvalidInput, "seek before start"));
        }
        self.pos = np as u64;
        Ok(())
    }
    fn poll_complete(self: std::pin::Pin<&mut Self>, _cx: &mut std::task::Context<'_>) -> std::task::Poll<std::io::Result<u64>> {
        std::task::Poll::Ready(Ok(self.pos))
    }
}
