//! Scenario families over the chunk-word universes and the library-level legs of
//! C02 (seeds), C03 (in place), C06 (fetch set) and C13 (write discipline).
use crate::clonelab::*;
use crate::memdev::*;
use crate::refchunk::*;
use crate::rep::*;
use crate::universe::*;
use bitar::{Chunk, ChunkIndex, CloneOutput, HashSum, VerifiedChunk};
use serde_json::{json, Value};

pub struct Lab {
    pub unis: Vec<(Universe, Comp)>,
}

impl Lab {
    pub fn new(thorough: bool) -> Lab {
        let mut unis = vec![];
        let mut add = |c: Cfg, sizes: &[usize], comp: Comp| match Universe::build(&c, sizes, 3) {
            Some(u) => unis.push((u, comp)),
            None => {
                eprintln!("MACHINERY-ERROR could not build word universe for {}", c.label());
                std::process::exit(2);
            }
        };
        add(Cfg::fixed(4), &[4], Comp::None);
        add(Cfg::fixed(16), &[16], Comp::Brotli(6));
        add(Cfg::new(Algo::Roll, 4, 4, 12, 2), &[5, 7, 9], Comp::None);
        add(Cfg::new(Algo::Buz, 4, 5, 12, 2), &[6, 8, 9], Comp::None);
        if thorough {
            add(Cfg::new(Algo::Roll, 3, 3, 10, 1), &[4, 6, 7], Comp::Zstd(3));
            add(Cfg::new(Algo::Buz, 2, 3, 9, 2), &[4, 5, 7], Comp::Brotli(11));
        }
        Lab { unis }
    }
    pub fn describe(&self) -> Value {
        json!(self.unis.iter().map(|(u, c)| json!({
            "cfg": u.cfg.label(), "compression": format!("{:?}", c),
            "words": u.words.iter().map(|w| String::from_utf8_lossy(w).to_string()).collect::<Vec<_>>(),
            "junk": u.junk.iter().map(|w| String::from_utf8_lossy(w).to_string()).collect::<Vec<_>>(),
            "half": String::from_utf8_lossy(&u.half).to_string(), "collide": String::from_utf8_lossy(&u.collide).to_string(),
        })).collect::<Vec<_>>())
    }
}

#[derive(Clone, Debug)]
pub struct Shard {
    pub ui: usize,
    pub hash_len: usize,
    pub src: Vec<usize>,
}

pub fn shards(lab: &Lab, max_src: usize, hash_lens: &[usize]) -> Vec<Shard> {
    let mut v = vec![];
    for ui in 0..lab.unis.len() {
        for &hl in hash_lens {
            for s in seqs(3, max_src) {
                if !s.is_empty() {
                    v.push(Shard { ui, hash_len: hl, src: s });
                }
            }
        }
    }
    v
}

/// Longer sources with repeated chunks in patterns the depth bound does not reach: runs of one chunk, a run
/// and a later separate occurrence, two chunks alternating (what a per-chunk list of offsets looks like matters).
pub fn dup_pattern_shards(lab: &Lab) -> Vec<Shard> {
    let pats: [&[usize]; 7] = [&[0, 0, 1, 0, 2], &[0, 0, 1, 0, 2, 1], &[0, 1, 0, 0, 2], &[1, 0, 0, 2, 0, 0], &[0, 0, 0, 1], &[0, 1, 1, 1, 0, 2], &[0, 1, 0, 1, 0, 1, 2]];
    let mut v = vec![];
    for ui in 0..lab.unis.len() {
        for p in pats {
            v.push(Shard { ui, hash_len: 64, src: p.to_vec() });
        }
    }
    v
}

pub fn shard_arch(lab: &Lab, sh: &Shard, rt: &tokio::runtime::Runtime) -> Result<Arch, String> {
    let (u, comp) = &lab.unis[sh.ui];
    let source = u.concat(&u.words, &sh.src);
    build_arch(rt, &u.cfg, sh.hash_len, comp, &source, 2)
}

fn machinery(e: String) -> ! {
    eprintln!("MACHINERY-ERROR {e}");
    std::process::exit(2)
}

// ------------------------------------------------------------------ C03

/// L0: planner + executor on indexes built directly, all (prior layout, target) pairs.
pub fn c03_l0(n: usize, hash_len: usize, agg_out: &mut Agg) {
    let k = 3usize;
    let targets: Vec<Vec<usize>> = seqs(k, n).into_iter().filter(|s| !s.is_empty()).collect();
    let priors = seqs(k + 2, n); // id k = junk byte, k+1 = gap of 2 junk bytes
    let a = par_shards(27, threads(), |sz| {
        let mut agg = Agg::default();
        let sizes = [1 + sz % 3, 1 + (sz / 3) % 3, 1 + (sz / 9) % 3];
        let bytes_of = |id: usize| -> Vec<u8> {
            if id == k {
                vec![b'#']
            } else if id == k + 1 {
                vec![b'$', b'%']
            } else {
                (0..sizes[id]).map(|j| b'A' + (id as u8) * 4 + j as u8).collect()
            }
        };
        let chunks: Vec<VerifiedChunk> = (0..k + 2).map(|id| VerifiedChunk::new(Chunk::from(bytes_of(id)))).collect();
        let hashes: Vec<HashSum> = chunks.iter().map(|c| c.hash().clone()).collect();
        for t in &targets {
            let mut tbytes = vec![];
            let mut tidx = ChunkIndex::new_empty(hash_len);
            let mut tlocs: Vec<(usize, Vec<u8>)> = vec![];
            for &id in t {
                tidx.add_chunk(hashes[id].clone(), sizes[id], &[tbytes.len() as u64]);
                tlocs.push((tbytes.len(), bytes_of(id)));
                tbytes.extend(bytes_of(id));
            }
            for p in &priors {
                let mut pbytes = vec![];
                let mut pidx = ChunkIndex::new_empty(hash_len);
                let mut in_place = std::collections::BTreeSet::new();
                for &id in p {
                    let b = bytes_of(id);
                    // junk / gap bytes are not indexed as chunks of the prior output
                    if id < k {
                        pidx.add_chunk(hashes[id].clone(), b.len(), &[pbytes.len() as u64]);
                        if tlocs.iter().any(|(o, c)| *o == pbytes.len() && *c == b) {
                            in_place.insert(pbytes.len());
                        }
                    }
                    pbytes.extend(b);
                }
                agg.add("l0_pairs", 1);
                let dev = MemDev::new(pbytes.clone());
                let h = dev.handle();
                let (ti, cks, tt) = (tidx.clone(), &chunks, t);
                let r = catch(|| {
                    drive(
                        async {
                            let mut out = CloneOutput::new(dev, ti);
                            let moved = out.reorder_in_place(pidx).await?;
                            for &id in tt {
                                out.feed(&cks[id]).await?;
                            }
                            Ok::<u64, std::io::Error>(moved)
                        },
                        &h,
                    )
                });
                let detail = || json!({"level": "L0", "sizes": sizes, "target": t, "prior": p, "hash_len": hash_len});
                match r {
                    Err(pm) => {
                        agg.viol(&format!("panic@{}", panic_site(&pm)), || {
                            let mut j = detail();
                            j["panic"] = json!(pm);
                            j
                        });
                        continue;
                    }
                    Ok(Err(e)) => machinery(e),
                    Ok(Ok(None)) => machinery("crash without fault".into()),
                    Ok(Ok(Some(Err(e)))) => {
                        agg.viol("valid-clone-failed", || {
                            let mut j = detail();
                            j["error"] = json!(e.to_string());
                            j
                        });
                        continue;
                    }
                    Ok(Ok(Some(Ok(moved)))) => {
                        if moved > 0 {
                            agg.add("l0_pairs_with_reuse", 1);
                        }
                    }
                }
                let st = h.lock().unwrap();
                let mut devb = st.bytes.clone();
                devb.resize(tbytes.len(), 0); // the CLI resizes a regular file to the source length
                if devb != tbytes {
                    agg.viol("success-with-wrong-output", || {
                        let mut j = detail();
                        j["output"] = json!(hex(&devb));
                        j
                    });
                }
                // invariant: reads return the prior bytes; writes are admissible
                let mut written = std::collections::BTreeSet::new();
                let mut first_reads = std::collections::BTreeSet::new();
                let mut nreads = 0;
                let mut read_flagged = false;
                for op in &st.log {
                    match op {
                        Op::Read { offset, data } => {
                            nreads += 1;
                            let o = *offset as usize;
                            // only the first read of a location (its copy or buffering) is constrained
                            if !first_reads.insert((o, data.len())) {
                                agg.add("l0_redundant_rereads", 1);
                                continue;
                            }
                            if o + data.len() > pbytes.len() || pbytes[o..o + data.len()] != data[..] {
                                if !read_flagged {
                                    agg.viol("reusable-chunk-destroyed-before-copied", || {
                                        let mut j = detail();
                                        j["read_offset"] = json!(o);
                                        j
                                    });
                                }
                                read_flagged = true;
                            }
                        }
                        Op::Write { offset, data } => {
                            let o = *offset as usize;
                            let class = if o + data.len() > tbytes.len() {
                                Some("write-beyond-source-length")
                            } else if !tlocs.iter().any(|(lo, c)| *lo == o && c[..] == data[..]) {
                                Some("write-not-a-source-chunk-at-its-offset")
                            } else if in_place.contains(&o) {
                                Some("in-place-location-rewritten")
                            } else if !written.insert(o) {
                                Some("location-written-twice")
                            } else {
                                None
                            };
                            if let Some(c) = class {
                                agg.viol(&format!("c13:{c}"), || {
                                    let mut j = detail();
                                    j["write_offset"] = json!(o);
                                    j
                                });
                                break;
                            }
                        }
                        _ => {}
                    }
                }
                if nreads > 1 {
                    agg.add("l0_pairs_multi_move", 1);
                }
                agg.distinct("l0_oplogs", fnv(format!("{:?}", st.log).as_bytes()));
                if sz == 13 && t.len() == 3 && agg.samples.len() < 2 && nreads > 1 {
                    agg.sample(|| json!({"level": "L0", "sizes": sizes, "target": t, "prior": p, "ops": format!("{:?}", st.log)}));
                }
            }
        }
        agg
    });
    agg_out.merge(a);
}

/// Split L0 violation classes: C03 keeps its own, "c13:" ones belong to C13.
fn split_classes(agg: &mut Agg, keep_c13: bool) {
    let keys: Vec<String> = agg.classes.keys().cloned().collect();
    for k in keys {
        let is13 = k.starts_with("c13:");
        if is13 != keep_c13 {
            agg.classes.remove(&k);
        } else if is13 {
            let v = agg.classes.remove(&k).unwrap();
            agg.classes.insert(k[4..].to_string(), v);
        }
    }
}

fn priors_for(u: &Universe, n: usize) -> (Vec<Vec<u8>>, Vec<Vec<usize>>) {
    let letters = u.letters();
    (letters.clone(), seqs(letters.len(), n))
}

pub fn c03(rep: &mut Report) {
    let thorough = rep.thorough();
    let n0 = if thorough { 6 } else { 4 };
    c03_l0(n0, 64, &mut rep.agg);
    if thorough {
        c03_l0(5, 4, &mut rep.agg);
    }
    split_classes(&mut rep.agg, false);
    // L1
    let lab = Lab::new(thorough);
    let n1 = if thorough { 4 } else { 3 };
    let sh = shards(&lab, n1, &[64, 4]);
    let (lab_ref, sh_ref) = (&lab, &sh);
    let a = par_shards(sh.len(), threads(), |i| {
        let mut agg = Agg::default();
        let rt = new_rt();
        let s = &sh_ref[i];
        let arch = match shard_arch(lab_ref, s, &rt) {
            Ok(a) => a,
            Err(e) => machinery(e),
        };
        let (u, _) = &lab_ref.unis[s.ui];
        let (letters, pseqs) = priors_for(u, n1);
        for ps in &pseqs {
            let prior = u.concat(&letters, ps);
            // prior shorter / equal / longer than the source arises from the enumeration; add cut variants
            let mut variants = vec![prior.clone()];
            if !prior.is_empty() && ps.len() == n1 {
                variants.push(prior[..prior.len() - 1].to_vec());
            }
            for p in variants {
                let sc = Scenario { prior: Some(p), seed_output: true, seeds: vec![], fault: Fault::None, verify_output: false };
                let obs = run_scenario(&arch, &sc);
                agg.add("l1_scenarios", 1);
                oracle_output(&arch, &sc, &obs, &mut agg);
                oracle_reads_intact(&arch, &sc, &obs, &mut agg);
                let moved = obs.log.iter().filter(|o| matches!(o, Op::Read { .. })).count();
                let _ = moved;
                agg.distinct("l1_outcomes", obs_fp(&obs));
                if i == 7 && agg.samples.len() < 2 && ps.len() == 3 {
                    agg.sample(|| scenario_json(&arch, &sc));
                }
            }
        }
        agg
    });
    rep.agg.merge(a);
    edited_files_leg(rep);
    crate::clilegs::run(rep, crate::clilegs::Which::C03, false);
    crate::clilegs::run(rep, crate::clilegs::Which::C03, true);
    let ev = rep.agg.get("l0_pairs") + rep.agg.get("l1_scenarios") + rep.agg.get("cli_scenarios") + rep.agg.get("cli_blockdev_scenarios");
    rep.set("evaluations", json!(ev));
    rep.set("distinct_nontrivial", json!(rep.agg.distinct_count("l0_oplogs") + rep.agg.distinct_count("l1_outcomes")));
    rep.set("exhaustive", json!(true));
    rep.set("universes", lab.describe());
    rep.set("rule", json!(format!("L0: all (prior layout, target) pairs with <= {n0} chunks (hash length 64; thorough also <= 5 at hash length 4) over 3 identities (+junk, +gap) and all 27 size assignments from {{1,2,3}}, real strip/reorder_ops/reorder_in_place/feed on an instrumented device; L1: full library flow (real chunker scans the prior output) for all sources of <= {n1} words x all prior outputs of <= {n1} letters over words/junk/half word/colliding junk, per universe and hash length; distinct_nontrivial = distinct device operation logs (read/write sequences) observed; CLI leg: the real clone_cmd --seed-output on files (and through the block device path, hook H1) for sources/priors of <= 2/3 letters, local and HTTP archives")));
    rep.assume("A1: no truncated-hash collision inside a scenario (asserted per scenario)");
    rep.assume("chunk counts above the bounds and data outside the word alphabets are not covered");
}

/// Supplementary (pseudo-random, not exhaustive): larger layouts obtained by real
/// content-defined chunking of edited files - block inserts, deletes, moves, duplications.
fn edited_files_leg(rep: &mut Report) {
    let thorough = rep.thorough();
    let cfgs = [Cfg::new(Algo::Roll, 16, 64, 1024, 7), Cfg::new(Algo::Buz, 16, 48, 768, 6), Cfg::fixed(256)];
    let pairs = if thorough { 400 } else { 40 };
    let seed0 = rep.seed;
    let a = par_shards(cfgs.len() * pairs, threads(), |k| {
        let cfg = cfgs[k % cfgs.len()];
        let mut agg = Agg::default();
        let rt = new_rt();
        let mut x: u64 = 0x9E3779B97F4A7C15 ^ (k as u64 * 1_000_003) ^ seed0;
        let mut rnd = move || {
            x ^= x << 13;
            x ^= x >> 7;
            x ^= x << 17;
            x
        };
        let n = 20_000 + (rnd() % 30_000) as usize;
        // source: random bytes (no zero runs, so that the BuzHash quirk class F5 is not entered)
        let source: Vec<u8> = (0..n).map(|_| 1 + (rnd() % 255) as u8).collect();
        // prior: the source after a few edits
        let mut prior = source.clone();
        for _ in 0..(1 + rnd() % 6) {
            let len = prior.len();
            if len < 2000 {
                break;
            }
            let a0 = (rnd() as usize) % (len - 1000);
            let l = 1 + (rnd() as usize) % 900;
            match rnd() % 5 {
                0 => {
                    let ins: Vec<u8> = (0..l).map(|_| 1 + (rnd() % 255) as u8).collect();
                    prior.splice(a0..a0, ins);
                }
                1 => {
                    prior.drain(a0..a0 + l);
                }
                2 => {
                    let blk: Vec<u8> = prior.drain(a0..a0 + l).collect();
                    let to = (rnd() as usize) % prior.len();
                    prior.splice(to..to, blk);
                }
                3 => {
                    let blk: Vec<u8> = prior[a0..a0 + l].to_vec();
                    let to = (rnd() as usize) % prior.len();
                    prior.splice(to..to, blk);
                }
                _ => {
                    let half = prior.len() / 2;
                    prior.rotate_left(half);
                }
            }
        }
        let arch = match build_arch(&rt, &cfg, if k % 2 == 0 { 64 } else { 8 }, &Comp::None, &source, 4) {
            Ok(a) => a,
            Err(e) => machinery(e),
        };
        let sc = Scenario { prior: Some(prior), seed_output: true, seeds: vec![], fault: Fault::None, verify_output: false };
        let obs = run_scenario(&arch, &sc);
        agg.add("edited_file_pairs", 1);
        let reads = obs.log.iter().filter(|o| matches!(o, Op::Read { .. })).count();
        agg.add("edited_file_reorder_reads", reads as u64);
        match &obs.outcome {
            Outcome::Ok if obs.dev == arch.source => {}
            Outcome::Ok => agg.viol("success-with-wrong-output", || json!({"leg": "edited-files", "cfg": cfg.json(), "pair_index": k, "seed": seed0})),
            Outcome::Panic(p) => agg.viol(&format!("panic@{}", panic_site(p)), || json!({"leg": "edited-files", "cfg": cfg.json(), "pair_index": k, "seed": seed0, "panic": p})),
            o => agg.viol("valid-clone-failed", || json!({"leg": "edited-files", "cfg": cfg.json(), "pair_index": k, "seed": seed0, "outcome": format!("{:?}", o)})),
        }
        oracle_reads_intact(&arch, &sc, &obs, &mut agg);
        agg
    });
    rep.agg.merge(a);
}

// ------------------------------------------------------------------ C02

fn seed_sets(u: &Universe, n: usize) -> Vec<Vec<Vec<u8>>> {
    let letters = u.letters();
    let mut sets: Vec<Vec<Vec<u8>>> = vec![];
    let singles = seqs(letters.len(), n);
    for s in &singles {
        sets.push(vec![u.concat(&letters, s)]);
    }
    let small = seqs(letters.len(), 2);
    for a in &small {
        for b in &small {
            if !a.is_empty() || !b.is_empty() {
                sets.push(vec![u.concat(&letters, a), u.concat(&letters, b)]);
            }
        }
    }
    sets.push(vec![]);
    sets
}

pub fn c02(rep: &mut Report) {
    let thorough = rep.thorough();
    let lab = Lab::new(thorough);
    let n = if thorough { 4 } else { 3 };
    let mut sh = shards(&lab, if thorough { 4 } else { 3 }, &[64, 8, 4]);
    let n_regular = sh.len();
    sh.extend(dup_pattern_shards(&lab));
    let (lab_ref, sh_ref) = (&lab, &sh);
    let a = par_shards(sh.len(), threads(), |i| {
        let mut agg = Agg::default();
        let rt = new_rt();
        let s = &sh_ref[i];
        let arch = match shard_arch(lab_ref, s, &rt) {
            Ok(a) => a,
            Err(e) => machinery(e),
        };
        let (u, _) = &lab_ref.unis[s.ui];
        // the duplicate-pattern sources take the single seeds of <= 2 letters and the pairs
        let mut sets = seed_sets(u, if i >= n_regular { 2 } else { n });
        sets.push(vec![arch.source.clone()]); // seed = the source itself
        sets.push(vec![arch.source.clone(), arch.source.clone()]);
        for seeds in sets {
            let sc = Scenario { prior: None, seed_output: false, seeds, fault: Fault::None, verify_output: false };
            let obs = run_scenario(&arch, &sc);
            agg.add("scenarios", 1);
            oracle_output(&arch, &sc, &obs, &mut agg);
            let fetched: usize = obs.reads.iter().map(|r| if let RecOp::ReadChunks(v) = r { v.len() } else { 0 }).sum();
            if fetched < arch.descs.len() {
                agg.add("scenarios_with_seed_reuse", 1);
            }
            agg.distinct("outcomes", obs_fp(&obs));
            if i == 11 && agg.samples.len() < 3 && sc.seeds.len() == 2 {
                agg.sample(|| scenario_json(&arch, &sc));
            }
        }
        agg
    });
    rep.agg.merge(a);
    // The prior output is a seed as well (`--seed-output`): all (prior layout, target) pairs of <= 4 chunks of sizes
    // {1,2,3} through the real planner and executor - judged here by the final bytes only (the clause about chunks
    // destroyed before they were copied is C03's).
    {
        let mut l0 = Agg::default();
        c03_l0(4, 64, &mut l0);
        l0.classes.retain(|k, _| k == "success-with-wrong-output" || k == "valid-clone-failed" || k.starts_with("panic"));
        l0.samples.clear();
        rep.agg.merge(l0);
    }
    crate::clilegs::run(rep, crate::clilegs::Which::C02, false);
    rep.set("evaluations", json!(rep.agg.get("scenarios") + rep.agg.get("cli_scenarios") + rep.agg.get("l0_pairs")));
    rep.set("distinct_nontrivial", json!(rep.agg.distinct_count("outcomes")));
    rep.set("exhaustive", json!(true));
    rep.set("universes", lab.describe());
    rep.set("rule", json!(format!("CLI leg: the real clone_cmd with --seed files for all sources of <= 2/3 words x seeds of <= 2/3 letters and seed pairs, local and HTTP archives; library leg: all sources of <= {} words (+ 7 longer sources with runs / separated repeats of a chunk) x all single seeds of <= {n} letters and all ordered seed pairs of <= 2 letters each (letters: source words, junk words, a half word, a size-colliding junk word) + empty seed set + seed = source, per universe and hash length 64/8/4; the output as its own seed: all (prior layout, target) pairs of <= 4 chunks of sizes 1-3 through the real planner and executor, judged by the final bytes; distinct_nontrivial = distinct (write log, fetch list) outcomes", if thorough { 4 } else { 3 })));
    rep.assume("A1: no truncated-hash collision inside a scenario");
}

// ------------------------------------------------------------------ C06 / C13 (library legs)

fn mixed_scenarios(u: &Universe, arch: &Arch, n: usize) -> Vec<Scenario> {
    let letters = u.letters();
    let mut v = vec![];
    let ps = seqs(letters.len(), n);
    for p in &ps {
        let prior = u.concat(&letters, p);
        v.push(Scenario { prior: Some(prior.clone()), seed_output: true, seeds: vec![], fault: Fault::None, verify_output: false });
        // existing file that is NOT used as seed (force-create semantics)
        if p.len() <= 2 {
            v.push(Scenario { prior: Some(prior.clone()), seed_output: false, seeds: vec![], fault: Fault::None, verify_output: false });
        }
    }
    for s in seqs(letters.len(), n) {
        v.push(Scenario { prior: None, seed_output: false, seeds: vec![u.concat(&letters, &s)], fault: Fault::None, verify_output: false });
    }
    let small = seqs(letters.len(), 2);
    for p in &small {
        for s in &small {
            // prior output as seed AND a seed file
            v.push(Scenario { prior: Some(u.concat(&letters, p)), seed_output: true, seeds: vec![u.concat(&letters, s)], fault: Fault::None, verify_output: false });
        }
    }
    v.push(Scenario { prior: None, seed_output: false, seeds: vec![arch.source.clone()], fault: Fault::None, verify_output: false });
    v.push(Scenario { prior: Some(arch.source.clone()), seed_output: true, seeds: vec![], fault: Fault::None, verify_output: false });
    v
}

fn c06_c13(rep: &mut Report, which: &str) {
    let thorough = rep.thorough();
    let lab = Lab::new(thorough);
    let n = if thorough { 4 } else { 3 };
    let mut sh = shards(&lab, n, &[64, 4]);
    let n_regular = sh.len();
    sh.extend(dup_pattern_shards(&lab));
    let (lab_ref, sh_ref) = (&lab, &sh);
    let a = par_shards(sh.len(), threads(), |i| {
        let mut agg = Agg::default();
        let rt = new_rt();
        let s = &sh_ref[i];
        let arch = match shard_arch(lab_ref, s, &rt) {
            Ok(a) => a,
            Err(e) => machinery(e),
        };
        let (u, _) = &lab_ref.unis[s.ui];
        // (the longer duplicate-pattern sources take the scenario families at depth 2)
        for sc in mixed_scenarios(u, &arch, if i >= n_regular { 2 } else { n }) {
            let m = model(&arch, &sc);
            if let Some(why) = &m.unusable {
                agg.add("scenarios_outside_model", 1);
                if agg.notes.len() < 2 {
                    agg.notes.push(why.clone());
                }
                continue;
            }
            let obs = run_scenario(&arch, &sc);
            agg.add("scenarios", 1);
            if !matches!(obs.outcome, Outcome::Ok) {
                // failures of valid clones are judged by C02/C03; here they would blur the observation
                agg.add("scenarios_not_ok", 1);
                continue;
            }
            if which == "C06" {
                oracle_fetch(&arch, &sc, &m, &obs, &mut agg);
            } else {
                oracle_writes(&arch, &sc, &m, &obs, &mut agg);
                // the write discipline must survive disturbed reads of the prior output: each of the first reads of an
                // in-place update delivered one byte at a time once, or cut short and followed by a transient
                // Interrupted error; a clone that still succeeds is judged by the same oracle
                if sc.seed_output && sc.prior.is_some() && !m.in_place.is_empty() || (sc.seed_output && sc.prior.is_some() && agg.get("scenarios") % 7 == 0) {
                    let nreads = obs.log.iter().filter(|o| matches!(o, Op::Read { .. })).count();
                    for r in 0..nreads.min(12) {
                        for fault in [Fault::ShortRead { n: r, t: 1 }, Fault::InterruptedRead { n: r, t: 1 }] {
                            let mut sc2 = sc.clone();
                            sc2.fault = fault;
                            let obs2 = run_scenario(&arch, &sc2);
                            agg.add("scenarios_with_disturbed_reads", 1);
                            if matches!(obs2.outcome, Outcome::Ok) {
                                oracle_writes(&arch, &sc2, &m, &obs2, &mut agg);
                            }
                        }
                    }
                }
            }
            if !m.in_place.is_empty() || m.fetch.len() < arch.descs.len() {
                agg.add("scenarios_with_reuse", 1);
            }
            agg.distinct("outcomes", obs_fp(&obs));
            if i == 5 && agg.samples.len() < 3 && !m.in_place.is_empty() {
                agg.sample(|| {
                    let mut j = scenario_json(&arch, &sc);
                    j["expected_fetch"] = json!(m.fetch);
                    j["in_place_offsets"] = json!(m.in_place);
                    j
                });
            }
        }
        agg
    });
    rep.agg.merge(a);
    if which == "C13" {
        let mut l0 = Agg::default();
        c03_l0(if thorough { 6 } else { 4 }, 64, &mut l0);
        split_classes(&mut l0, true);
        rep.agg.merge(l0);
    }
    rep.set("evaluations", json!(rep.agg.get("scenarios") + rep.agg.get("l0_pairs")));
    rep.set("distinct_nontrivial", json!(rep.agg.distinct_count("outcomes") + rep.agg.distinct_count("l0_oplogs")));
    rep.set("exhaustive", json!(true));
    rep.set("universes", lab.describe());
    rep.assume("A1: no truncated-hash collision inside a scenario; scenarios where the reference and the real chunker disagree on a seed/prior (known finding F5 input class) are counted as scenarios_outside_model, not judged");
}

/// What the LOCAL reader reads from the archive device: for every subset of the descriptors of archives with
/// stored chunks of different sizes (ascending, descending, mixed), the bytes returned by the device to the real
/// IoReader::read_chunks lie inside the stored ranges of the requested chunks - nothing else is read.
fn c06_local_device_reads(rep: &mut Report) {
    use bitar::archive_reader::{ArchiveReader, IoReader};
    use futures_util::StreamExt;
    struct RecFile {
        data: Vec<u8>,
        pos: u64,
        log: std::sync::Arc<std::sync::Mutex<Vec<(u64, usize)>>>,
    }
    impl tokio::io::AsyncRead for RecFile {
        fn poll_read(mut self: std::pin::Pin<&mut Self>, _cx: &mut std::task::Context<'_>, buf: &mut tokio::io::ReadBuf<'_>) -> std::task::Poll<std::io::Result<()>> {
            let start = (self.pos as usize).min(self.data.len());
            let n = buf.remaining().min(self.data.len() - start);
            let d = self.data[start..start + n].to_vec();
            buf.put_slice(&d);
            self.log.lock().unwrap().push((start as u64, n));
            self.pos = (start + n) as u64;
            std::task::Poll::Ready(Ok(()))
        }
    }
    impl tokio::io::AsyncSeek for RecFile {
        fn start_seek(mut self: std::pin::Pin<&mut Self>, p: std::io::SeekFrom) -> std::io::Result<()> {
            self.pos = match p {
                std::io::SeekFrom::Start(o) => o,
                std::io::SeekFrom::End(d) => (self.data.len() as i64 + d) as u64,
                std::io::SeekFrom::Current(d) => (self.pos as i64 + d) as u64,
            };
            Ok(())
        }
        fn poll_complete(self: std::pin::Pin<&mut Self>, _cx: &mut std::task::Context<'_>) -> std::task::Poll<std::io::Result<u64>> {
            std::task::Poll::Ready(Ok(self.pos))
        }
    }
    let mut agg = Agg::default();
    let file: Vec<u8> = (0..200u32).map(|i| (i * 13 + 1) as u8).collect();
    // stored chunks back to back from offset 20, three size patterns
    for sizes in [vec![3usize, 5, 8, 13, 21], vec![21, 13, 8, 5, 3], vec![9, 2, 14, 4, 11, 1, 7]] {
        let mut descs: Vec<(u64, usize)> = vec![];
        let mut o = 20u64;
        for &s in &sizes {
            descs.push((o, s));
            o += s as u64;
        }
        for mask in 1usize..(1 << descs.len()) {
            let want: Vec<(u64, usize)> = descs.iter().enumerate().filter(|(i, _)| mask >> i & 1 == 1).map(|(_, d)| *d).collect();
            let log = std::sync::Arc::new(std::sync::Mutex::new(vec![]));
            let mut reader = IoReader::new(RecFile { data: file.clone(), pos: 0, log: log.clone() });
            let r = catch(|| {
                drive_ready(async {
                    let mut st = reader.read_chunks(want.iter().map(|&(o, s)| bitar::ChunkOffset::new(o, s)).collect());
                    let mut got = vec![];
                    while let Some(x) = st.next().await {
                        got.push(x.map(|b| b.to_vec()).map_err(|e| e.to_string()));
                        if got.len() > 16 {
                            break;
                        }
                    }
                    got
                })
            });
            agg.add("local_device_read_subsets", 1);
            let reads = log.lock().unwrap().clone();
            let detail = || json!({"leg": "local-device-reads", "stored_chunks": descs, "requested": want, "device_reads": reads});
            match r {
                Ok(Ok(items)) if items.len() == want.len() && items.iter().zip(want.iter()).all(|(i, w)| i.as_ref().ok().map(|b| &b[..]) == Some(&file[w.0 as usize..w.0 as usize + w.1])) => {
                    let stray = reads.iter().any(|&(o, n)| n > 0 && !(o..o + n as u64).all(|x| want.iter().any(|w| x >= w.0 && x < w.0 + w.1 as u64)));
                    if stray {
                        agg.viol("read-outside-requested-chunks", detail);
                    }
                }
                _ => agg.viol("local-read-of-valid-ranges-failed", detail),
            }
        }
    }
    rep.agg.merge(agg);
}

pub fn c06(rep: &mut Report) {
    c06_local_device_reads(rep);
    c06_c13(rep, "C06");
    crate::clilegs::run(rep, crate::clilegs::Which::C06, false);
    crate::clilegs::run(rep, crate::clilegs::Which::C06, true);
    let ev = rep.agg.get("scenarios") + rep.agg.get("cli_scenarios") + rep.agg.get("cli_blockdev_scenarios");
    rep.set("evaluations", json!(ev));
    rep.set("rule", json!("CLI legs: the real clone_cmd against the logging loopback HTTP server for new / existing / in-place outputs and through the block device path (hook H1), oracle: Range requests == two header reads + maximal runs of the expected missing descriptors; library leg: recording ArchiveReader around the in-memory archive; all sources x {prior outputs used as seed, existing outputs not used as seed, single seeds, prior+seed combinations} over the word universes; oracle: requested chunk ranges == stored ranges of (source chunks) - (chunks the reference chunker finds in seeds / prior output), as a multiset, everything else read lies inside the header; local device level: for every subset of stored chunks of ascending / descending / mixed sizes, the bytes the device returns to the real IoReader lie inside the requested chunks; distinct_nontrivial = distinct (write log, fetch list) outcomes"));
}
pub fn c13(rep: &mut Report) {
    c06_c13(rep, "C13");
    rep.set("rule", json!("library leg: write log of the instrumented device for all scenarios (as C06) plus the L0 planner/executor enumeration; oracle: every write is one source chunk at one of its source offsets, each location at most once, locations found in place never written, nothing at or beyond the source length; distinct_nontrivial = distinct operation logs"));
}

// ------------------------------------------------------------------ replay

pub fn replay(pid: &str, v: &Value) -> bool {
    let mut agg = Agg::default();
    if v.get("leg").and_then(|l| l.as_str()) == Some("edited-files") {
        let mut rep = Report::new(pid, "exploration", "quick", v["seed"].as_u64().unwrap_or(0));
        edited_files_leg(&mut rep);
        return !rep.agg.classes.is_empty();
    }
    if v.get("leg").and_then(|l| l.as_str()).map(|l| l.starts_with("cli")) == Some(true) {
        let mut rep = Report::new(pid, "exploration", "quick", 0);
        let which = match pid {
            "C02" => crate::clilegs::Which::C02,
            "C03" => crate::clilegs::Which::C03,
            _ => crate::clilegs::Which::C06,
        };
        crate::clilegs::run(&mut rep, which, v["leg"].as_str() == Some("cli-blockdev"));
        for (k, c) in &rep.agg.classes {
            println!("replay: class={} count={}", k, c.count);
        }
        return !rep.agg.classes.is_empty();
    }
    if v.get("level").and_then(|l| l.as_str()) == Some("L0") {
        // re-run the whole L0 family of that size and look for the same case (cheap)
        let n = v["target"].as_array().unwrap().len().max(v["prior"].as_array().unwrap().len());
        c03_l0(n, v["hash_len"].as_u64().unwrap_or(64) as usize, &mut agg);
        split_classes(&mut agg, pid == "C13");
    } else {
        let (cfg, hl, comp, source, sc) = scenario_from_json(v);
        let rt = new_rt();
        let arch = build_arch(&rt, &cfg, hl, &comp, &source, 2).unwrap();
        let obs = run_scenario(&arch, &sc);
        let m = model(&arch, &sc);
        match pid {
            "C02" | "C03" => {
                oracle_output(&arch, &sc, &obs, &mut agg);
                oracle_reads_intact(&arch, &sc, &obs, &mut agg);
            }
            "C06" => oracle_fetch(&arch, &sc, &m, &obs, &mut agg),
            _ => oracle_writes(&arch, &sc, &m, &obs, &mut agg),
        }
        println!("replay: outcome={:?} output={}", obs.outcome, hex(&obs.dev));
    }
    for (k, c) in &agg.classes {
        println!("replay: class={} count={}", k, c.count);
    }
    !agg.classes.is_empty()
}
